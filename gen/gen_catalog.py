#!/usr/bin/env python3
"""Translates <repo>/database/catalog_nk.csv into Lean data + certificates:

    lean/OptiModel/Gen/Catalog.lean      the rows (imported by the driver and by the theorems)
    lean/OptiModel/Gen/CatalogCert.lean  search tree + kernel-checked certificate theorems

    python3 gen/gen_catalog.py [--repo /repo] [--check]

Catalog.lean: the table as chunked list literals (<= 64 rows each: one 2593-element literal overflows
the elaborator's recursion depth, DESIGN A.8).  Every CSV field is a Python string = a list of code
points; it is written as the packed string `PStr` (length, one numeral holding the code points as
base-2^21 digits).  Lean's `String` cannot be evaluated by the kernel at this scale (about 0.1 s per
`String.toList`), numerals can.  The file also carries
  * `csvSha256`  - hash of the CSV the files were generated from (the harness regenerates and rebuilds
                   when the hash of the CSV in the tree differs);
  * `ambiguous`  - the exception list of the theorem `C18.lookup_exact_name`: the names N for which some
                   row with another name has lower-cased `category_name` or `name` equal to lower(N)
                   (i.e. ties at score 0).  The list is *checked* in Lean in both directions
                   (`C18.catalog_unambiguous`, `C18.ambiguous_genuine`), so a wrong list breaks the build;
  * `witness`    - for each ambiguous name a pair of row indices (row with that name, rival row).
CatalogCert.lean: `tree`, a binary search tree from case-insensitive keys (every code point OR 32, see
`Model.Mat.PStr.key`) to verdicts (`uniq name` | `free` | `amb`), and one theorem per chunk stating that
all its rows pass `Model.Mat.rowCheck tree ambiguous` (`decide +kernel`, about 15 s for all 41).  The
tree is certificate data only: nothing about its shape is assumed by the soundness proof
(`Model.Mat.unambiguous_of_rowCheck`), a wrong tree makes a certificate theorem fail.
Only the standard library is used (runs under python3 and /venv/bin/python alike).
--check: exit 0 iff both files exist and were generated from the current CSV."""
import csv, hashlib, os, sys, re

HERE = os.path.dirname(os.path.dirname(os.path.abspath(__file__)))
OUT = os.path.join(HERE, 'lean', 'OptiModel', 'Gen', 'Catalog.lean')
OUT_CERT = os.path.join(HERE, 'lean', 'OptiModel', 'Gen', 'CatalogCert.lean')
CHUNK = 64
FIELDS = ['group', 'category_name', 'category_name_full', 'reference', 'name', 'filename',
          'min_wavelength', 'max_wavelength']


BASE = 1 << 21


def pack(s):
    """PStr literal `⟨len, 0x...⟩`: the code points of s as little-endian base-2^21 digits of one numeral"""
    n = 0
    for ch in reversed(s):
        n = n * BASE + ord(ch)
    return '⟨%d, 0x%x⟩' % (len(s), n)


def pack_args(s):
    """the two arguments (len, code) of a packed field, for the row constructor `R`"""
    n = 0
    for ch in reversed(s):
        n = n * BASE + ord(ch)
    return '%d 0x%x' % (len(s), n)


def key_of(s):
    """Model.Mat.PStr.key: every character OR 32, packed (coarser than or equal to lower-casing)"""
    n = 0
    for ch in reversed(s):
        n = n * BASE + (ord(ch) | 32)
    return n


def comment_safe(s):
    return s.replace('\n', ' ').replace('\r', ' ')


def ascii_lower(s):
    return ''.join(chr(ord(c) + 32) if 'A' <= c <= 'Z' else c for c in s)


def csv_path(repo):
    return os.path.join(repo, 'database', 'catalog_nk.csv')


def csv_hash(repo):
    return hashlib.sha256(open(csv_path(repo), 'rb').read()).hexdigest()


def read_rows(repo):
    with open(csv_path(repo), newline='', encoding='utf-8') as fh:
        rd = csv.reader(fh)
        header = next(rd)
        if header != FIELDS:
            raise SystemExit('unexpected CSV header %r' % header)
        rows = [r for r in rd]
    for r in rows:
        if len(r) != len(FIELDS):
            raise SystemExit('bad CSV row %r' % r)
    return rows


def ambiguity(rows):
    """names whose score-0 set (literal semantics) contains a row with another name"""
    ICAT, INAME = 1, 4
    by_key = {}
    for j, r in enumerate(rows):
        by_key.setdefault(ascii_lower(r[ICAT]), []).append(j)
        by_key.setdefault(ascii_lower(r[INAME]), []).append(j)
    amb, wit, seen = [], [], set()
    for i, r in enumerate(rows):
        n = r[INAME]
        if n in seen:
            continue
        seen.add(n)
        rivals = [j for j in by_key[ascii_lower(n)] if rows[j][INAME] != n]
        if rivals:
            amb.append(n)
            wit.append((i, rivals[0]))
    return amb, wit


def verdicts(rows, amb):
    """key -> verdict for the search tree: ('uniq', name) | ('free',) | ('amb',)"""
    ICAT, INAME = 1, 4
    ambkeys = {key_of(a) for a in amb}
    names_by_key, all_by_key = {}, {}
    for r in rows:
        names_by_key.setdefault(key_of(r[INAME]), set()).add(r[INAME])
        all_by_key.setdefault(key_of(r[INAME]), set()).add(r[INAME])
        all_by_key.setdefault(key_of(r[ICAT]), set()).add(r[INAME])
    out = {}
    for k, everyone in all_by_key.items():
        if k in ambkeys:
            out[k] = ('amb',)
        elif k not in names_by_key:
            out[k] = ('free',)
        elif len(everyone) == 1:
            out[k] = ('uniq', next(iter(everyone)))
        else:
            # can only happen when OR-32 identifies more than lower-casing does
            raise SystemExit('key collision beyond case folding for %r' % sorted(everyone)[:4])
    return out


def emit_tree(items, L, counter, inline=12):
    """items: sorted [(key, verdict)]; returns a Lean term; large subtrees become their own defs"""
    if not items:
        return '.leaf'
    mid = len(items) // 2
    k, v = items[mid]
    vt = '(.uniq %s)' % pack(v[1]) if v[0] == 'uniq' else '.' + v[0]
    lt = emit_tree(items[:mid], L, counter, inline)
    rt = emit_tree(items[mid + 1:], L, counter, inline)
    term = '(.node %s 0x%x %s %s)' % (lt, k, vt, rt)
    if len(items) > inline:
        name = 'tree%d' % counter[0]
        counter[0] += 1
        L.append('def %s : KTree := %s' % (name, term))
        return name
    return term


def generate(repo):
    rows = read_rows(repo)
    h = csv_hash(repo)
    amb, wit = ambiguity(rows)
    L = []
    L.append('import OptiModel.Model.Material')
    L.append('/-! GENERATED by gen/gen_catalog.py from database/catalog_nk.csv - do not edit.')
    L.append('%d rows, sha256 %s' % (len(rows), h))
    L.append('Every CSV field is a Python string = a list of code points, written as the `PStr`')
    L.append('`⟨len, 0x...⟩` (Model.Mat.unpack: base-2^21 digits); the comment above each row shows')
    L.append('`index: name | filename` for the reader only. -/')
    L.append('namespace Gen.Catalog')
    L.append('open Model.Mat (Row PStr KTree Verdict)')
    L.append('')
    L.append('def csvSha256 : String := "%s"' % h)
    L.append('')
    L.append('/-- one CSV line: (len, code) of group, category_name, category_name_full, reference, name, filename,')
    L.append('min_wavelength, max_wavelength -/')
    L.append('def R (l1 c1 l2 c2 l3 c3 l4 c4 l5 c5 l6 c6 l7 c7 l8 c8 : Nat) : Row :=')
    L.append('  ⟨⟨l1, c1⟩, ⟨l2, c2⟩, ⟨l3, c3⟩, ⟨l4, c4⟩, ⟨l5, c5⟩, ⟨l6, c6⟩, ⟨l7, c7⟩, ⟨l8, c8⟩⟩')
    L.append('')
    nchunks = 0
    for c in range(0, len(rows), CHUNK):
        L.append('def chunk%d : List Row := [' % nchunks)
        body = []
        for k, r in enumerate(rows[c:c + CHUNK]):
            body.append('  -- %d: %s | %s\n  R ' % (c + k, comment_safe(r[4]), comment_safe(r[5]))
                        + ' '.join(pack_args(f) for f in r))
        L.append(',\n'.join(body))
        L.append(']')
        nchunks += 1
    L.append('')
    L.append('/-- the catalogue, in file order -/')
    L.append('def chunks : List (List Row) := [' + ', '.join('chunk%d' % k for k in range(nchunks)) + ']')
    L.append('def rows : List Row := chunks.flatten')
    L.append('def nrows : Nat := %d' % len(rows))
    L.append('')
    L.append('/-- exception list of `C18.lookup_exact_name` (checked in Lean in both directions): '
             + '; '.join(comment_safe(a) for a in amb) + ' -/')
    L.append('def ambiguous : List PStr := [' + ', '.join(pack(a) for a in amb) + ']')
    L.append('/-- (row with the ambiguous name, rival row with another name and score 0) -/')
    L.append('def witness : List (Nat × Nat) := [' + ', '.join('(%d, %d)' % w for w in wit) + ']')
    L.append('end Gen.Catalog')
    cert = []
    cert.append('import OptiModel.Gen.Catalog')
    cert.append('/-! GENERATED by gen/gen_catalog.py - do not edit.  Certificate for `C18.catalog_unambiguous`:')
    cert.append('the search tree key -> verdict (data), and the kernel-checked facts that every row of every chunk')
    cert.append('passes `Model.Mat.rowCheck tree ambiguous` (one theorem per chunk) and that the exception list is')
    cert.append('genuine.  Not imported by the driver.  csv sha256 %s -/' % h)
    cert.append('namespace Gen.Catalog')
    cert.append('open Model.Mat')
    cert.append('')
    vd = verdicts(rows, amb)
    root = emit_tree(sorted(vd.items()), cert, [0])
    cert.append('def tree : KTree := %s' % root)
    cert.append('')
    for k in range(nchunks):
        cert.append('theorem chunk%d_ok : chunk%d.all (rowCheck tree ambiguous) = true := by decide +kernel' % (k, k))
    cert.append('')
    cert.append('theorem chunks_ok : ∀ c ∈ chunks, c.all (rowCheck tree ambiguous) = true := by')
    cert.append('  intro c hc')
    cert.append('  simp only [chunks, List.mem_cons, List.not_mem_nil, or_false] at hc')
    cert.append('  rcases hc with ' + ' | '.join(['rfl'] * nchunks))
    for k in range(nchunks):
        cert.append('  · exact chunk%d_ok' % k)
    cert.append('')
    cert.append('theorem ambiguous_ok : ambCheck rows ambiguous witness = true := by decide +kernel')
    cert.append('end Gen.Catalog')
    return '\n'.join(L) + '\n', '\n'.join(cert) + '\n'


def current_hash():
    """hash recorded in the generated files (None unless both exist and agree)"""
    if not (os.path.exists(OUT) and os.path.exists(OUT_CERT)):
        return None
    m = re.search(r'def csvSha256 : String := "([0-9a-f]+)"', open(OUT, encoding='utf-8').read(300000)[:4000])
    with open(OUT_CERT, encoding='utf-8') as fh:
        m2 = re.search(r'csv sha256 ([0-9a-f]+)', fh.read(4000))
    return m.group(1) if (m and m2 and m.group(1) == m2.group(1)) else None


def main():
    repo = os.environ.get('OPTILAND_REPO', '/repo')
    a = sys.argv[1:]
    if '--repo' in a:
        repo = a[a.index('--repo') + 1]
    if '--check' in a:
        sys.exit(0 if current_hash() == csv_hash(repo) else 1)
    src, cert = generate(repo)
    os.makedirs(os.path.dirname(OUT), exist_ok=True)
    for path, text in ((OUT, src), (OUT_CERT, cert)):
        tmp = path + '.tmp'
        with open(tmp, 'w', encoding='utf-8') as fh:
            fh.write(text)
        os.replace(tmp, path)
        print('wrote %s (%d bytes)' % (path, len(text.encode())))


if __name__ == '__main__':
    main()
