"""C01  Lens prescription stays consistent under any history of edits.
Correspondence: after every public call of a generated build-and-edit history the
observable prescription of the real Optic vs `Model/Presc.lean` (driver command `presc`).
Predicate: the clauses of the property evaluated on the implementation alone."""
import math, copy
import numpy as np
from .core import fhex, b01, Toks, Driver, Ctx, audit, finish
from . import lensgen
from .lensgen import dyadic

W = 0.5875618


def snap(o):
    sg = o.surface_group
    mats, pat = {}, []
    for s in sg.surfaces:
        for m in (s.material_pre, s.material_post):
            if id(m) not in mats:
                mats[id(m)] = len(mats)
            pat.append(mats[id(m)])
    out = {
        'z': [float(np.ravel(s.geometry.cs.z)[0]) for s in sg.surfaces],
        'radius': [float(s.geometry.radius) for s in sg.surfaces],
        'conic': [float(v) for v in sg.conic],
        'n': [float(np.ravel(s.material_post.n(W))[0]) for s in sg.surfaces],
        'rx': [float(s.geometry.cs.rx) for s in sg.surfaces],
        'ry': [float(s.geometry.cs.ry) for s in sg.surfaces],
        'dx': [float(s.geometry.cs.x) for s in sg.surfaces],
        'dy': [float(s.geometry.cs.y) for s in sg.surfaces],
        'stop': [bool(s.is_stop) for s in sg.surfaces],
        'coeffs': [[float(c) for c in np.ravel(getattr(s.geometry, 'c', []))]
                   if type(s.geometry).__name__ == 'EvenAsphere' else [] for s in sg.surfaces],
        'pattern': pat,
        'primary': o.wavelengths.primary_index,
        'nwaves': o.wavelengths.num_wavelengths,
        'stop_index': sg.stop_index,
        'positions': [float(np.ravel(p)[0]) for p in sg.positions],
    }
    return out


def canon(p):
    m, out = {}, []
    for v in p:
        if v not in m:
            m[v] = len(m)
        out.append(m[v])
    return out


def parse_snapshot(tokstr):
    t = Toks(tokstr)
    status = t.tok()
    n = t.nat()
    s = {k: [] for k in ('z', 'radius', 'conic', 'n', 'rx', 'ry', 'dx', 'dy', 'stop', 'coeffs')}
    pat = []
    for _ in range(n):
        z, r, c, nn, rx, ry, dx, dy = t.floats(8)
        s['z'].append(z); s['radius'].append(r); s['conic'].append(c); s['n'].append(nn)
        s['rx'].append(rx); s['ry'].append(ry); s['dx'].append(dx); s['dy'].append(dy)
        s['stop'].append(t.tok() == '1')
        pre = t.nat(); post = t.nat()
        pat += [pre, post]
        s['coeffs'].append(t.floats())
    prim = t.tok()
    s['primary'] = None if prim == 'none' else int(prim)
    s['nwaves'] = t.nat()
    st = t.tok()
    s['stop_index'] = None if st == 'none' else int(st)
    s['pattern'] = canon(pat)
    return status, s


# ---------------------------------------------------------------- ops
def op_tokens(op):
    k = op[0]
    if k == 'add':
        a = op[1]
        gk = {'standard': 's', 'even_asphere': 'a'}[a.get('surface_type', 'standard')]
        rinf = a['radius'] == 'inf'
        mat = a['material']
        mt = ['a'] if mat['kind'] == 'air' else ['m'] if mat['kind'] == 'mirror' else ['i', fhex(mat['n'])]
        th = a['thickness']
        th = math.inf if th == 'inf' else th
        co = a.get('coefficients', [])
        return ['add', str(a['index']), gk, b01(rinf), fhex(math.inf if rinf else a['radius']),
                fhex(a.get('conic', 0.0)), fhex(th)] + mt + [b01(a.get('is_stop', False))] + \
               [fhex(a.get(x, 0.0)) for x in ('dx', 'dy', 'rx', 'ry')] + [str(len(co))] + [fhex(c) for c in co]
    if k in ('sr', 'sc', 'st', 'si', 'tx', 'ty', 'ddx', 'ddy'):
        return [k, fhex(op[1]), str(op[2])]
    if k == 'sa':
        return ['sa', fhex(op[1]), str(op[2]), str(op[3])]
    if k == 'rm':
        return ['rm', str(op[1])]
    if k == 'aw':
        return ['aw', fhex(op[1]), b01(op[2])]
    if k == 'pk':
        return ['pk', str(op[1]), op[2], str(op[3]), fhex(op[4]), fhex(op[5])]
    if k == 'sv':
        return ['sv', str(op[1]), fhex(op[2])]
    return [k]


def apply_op(o, op):
    """returns None or exception class name"""
    from optiland.optimization.variable import Variable
    k = op[0]
    try:
        if k == 'add':
            a = dict(op[1])
            kw = {}
            for key in ('conic', 'dx', 'dy', 'rx', 'ry'):
                if key in a:
                    kw[key] = a[key]
            if 'coefficients' in a:
                kw['coefficients'] = list(a['coefficients'])
            o.add_surface(index=a['index'], surface_type=a.get('surface_type', 'standard'),
                          radius=np.inf if a['radius'] == 'inf' else a['radius'],
                          thickness=np.inf if a['thickness'] == 'inf' else a['thickness'],
                          material=lensgen.make_material(a['material']), is_stop=a.get('is_stop', False), **kw)
        elif k == 'rm':
            o.surface_group.remove_surface(op[1])
        elif k in ('sr', 'sc', 'st', 'si', 'sa') and op[-1] == 'V':
            # the quantifier's "variable updates": apply_scaling=False hands the raw value to the same setter
            if k in ('st', 'si') and op[2] + 1 >= len(o.surface_group.surfaces):
                raise IndexError
            if not 0 <= op[2] < len(o.surface_group.surfaces):
                raise IndexError
            vt = {'sr': 'radius', 'sc': 'conic', 'st': 'thickness', 'si': 'index', 'sa': 'asphere_coeff'}[k]
            kw = {'surface_number': op[2], 'apply_scaling': False}
            if k == 'sa':
                kw['coeff_number'] = op[3]
            if k == 'si':
                kw['wavelength'] = o.primary_wavelength
            Variable(o, vt, **kw).update(op[1])
        elif k == 'sr':
            o.set_radius(op[1], op[2])
        elif k == 'sc':
            o.set_conic(op[1], op[2])
        elif k == 'st':
            if op[2] + 1 >= len(o.surface_group.surfaces):
                raise IndexError
            o.set_thickness(op[1], op[2])
        elif k == 'si':
            if op[2] + 1 >= len(o.surface_group.surfaces):
                raise IndexError
            o.set_index(op[1], op[2])
        elif k == 'sa':
            o.set_asphere_coeff(op[1], op[2], op[3])
        elif k in ('tx', 'ty'):
            Variable(o, 'tilt', surface_number=op[2], axis=k[1], apply_scaling=False).update(op[1])
        elif k in ('ddx', 'ddy'):
            Variable(o, 'decenter', surface_number=op[2], axis=k[2], apply_scaling=False).update(op[1])
        elif k == 'aw':
            o.add_wavelength(op[1], is_primary=op[2])
        elif k == 'pk':
            o.pickups.add(op[1], op[2], op[3], scale=op[4], offset=op[5])
        elif k == 'sv':
            o.solves.add('marginal_ray_height', op[1], op[2])
        elif k == 'up':
            o.update()
        elif k == 'is':
            o.image_solve()
    except Exception as e:  # noqa
        return type(e).__name__
    return None


def gen_history(rng, malformed=False):
    """appends in index order, then edits"""
    d = lensgen.gen_lens(rng, allow_asphere=rng.random() < 0.4, allow_tilt=False, dy=False,
                         ap_types=('EPD',), field_types=('angle',), finite_object=rng.random() < 0.3)
    ops = [('aw', 0.5875618, True)]
    for s in d['surfaces']:
        if s.get('surface_type') == 'even_asphere':
            s['coefficients'] = [dyadic(rng, -1, 1, 10) * 2.0 ** -14 for _ in s['coefficients']]
        if rng.random() < 0.2:
            s['rx'] = dyadic(rng, -0.25, 0.25, 8)
            s['dy'] = dyadic(rng, -0.5, 0.5, 6)
        ops.append(('add', s))
    n = len(d['surfaces'])
    nbuild = len(ops)
    obj_inf = d['surfaces'][0]['thickness'] == 'inf'
    for _ in range(rng.randint(0, 40)):
        u = rng.random()
        k = rng.randint(1, n - 2)
        if u < 0.12:
            ops.append(('sr', dyadic(rng, 15, 300, 3) * rng.choice([1, -1]), k))
        elif u < 0.22:
            ops.append(('sc', dyadic(rng, -3, 1, 5), k))
        elif u < 0.40:
            kk = rng.randint(0 if not obj_inf else 1, n - 2)
            ops.append(('st', dyadic(rng, 0.5, 30, 4), kk))
        elif u < 0.50:
            ops.append(('si', dyadic(rng, 1.3, 2.0, 8), rng.randint(1, n - 2)))
        elif u < 0.56:
            ops.append(('sa', dyadic(rng, -1, 1, 10) * 2.0 ** -14, k, rng.randint(0, 2)))
        if u < 0.56 and rng.random() < 0.3:
            ops[-1] = ops[-1] + ('V',)      # the same edit through an unscaled optimisation Variable (variable update)
        if False:
            pass
        elif u < 0.62:
            ops.append((rng.choice(['tx', 'ty']), dyadic(rng, -0.25, 0.25, 8), k))
        elif u < 0.68:
            ops.append((rng.choice(['ddx', 'ddy']), dyadic(rng, -0.5, 0.5, 6), k))
        elif u < 0.74:
            ops.append(('aw', dyadic(rng, 0.4, 0.7, 6), rng.random() < 0.4))
        elif u < 0.84:
            attr = rng.choice(['radius', 'conic', 'thickness'])
            src = rng.randint(1, n - 2)
            tgt = rng.randint(1, n - 2)
            ops.append(('pk', src, attr, tgt, rng.choice([1.0, -1.0, 0.5, 2.0]), dyadic(rng, -2, 2, 3)))
        elif u < 0.90:
            ops.append(('sv', rng.randint(2, n - 1), dyadic(rng, -2, 2, 4)))
        elif u < 0.96:
            ops.append(('up',))
        else:
            ops.append(('is',))
    if malformed:
        for _ in range(rng.randint(1, 4)):
            pos = rng.randint(nbuild, len(ops))
            bad = rng.choice([('sr', 10.0, n + 3), ('st', 1.0, n - 1), ('rm', 0), ('si', 1.5, n - 1),
                              ('add', {'index': n + 5, 'radius': 'inf', 'thickness': 0, 'material': {'kind': 'air'}})])
            ops.insert(pos, bad)
    cfg = {'aperture': d['aperture'], 'field_type': d['field_type'], 'fields': d['fields'], 'obj_inf': obj_inf}
    return cfg, ops, nbuild


def gen_stop_history(rng):
    """insertions in the middle and removals: only the stop / primary-wavelength clauses"""
    ops = [('aw', 0.55, rng.random() < 0.5)]
    n = 0
    for _ in range(rng.randint(3, 14)):
        if n >= 3 and rng.random() < 0.25:
            ops.append(('rm', rng.randint(1, n - 1)))
            n -= 1
        else:
            idx = n if n < 2 or rng.random() < 0.5 else rng.randint(1, n)
            ops.append(('add', {'index': idx, 'radius': dyadic(rng, 20, 100, 2), 'thickness': dyadic(rng, 1, 5, 2),
                                'material': {'kind': 'air'}, 'is_stop': rng.random() < 0.4}))
            n += 1
        if rng.random() < 0.3:
            ops.append(('aw', dyadic(rng, 0.4, 0.7, 6), rng.random() < 0.5))
    return ops


FIELDS = ('z', 'radius', 'conic', 'n', 'rx', 'ry', 'dx', 'dy')


def predicate(ctx, case, op, before, after, err, built, o, history_state):
    """C01's clauses on the implementation alone; `built` = still in the append-in-order phase"""
    k = op[0]
    if sum(after['stop']) > 1:
        ctx.fail('at most one surface is the aperture stop', case, after['stop'])
    if after['nwaves'] > 0 and (after['primary'] is None):
        ctx.fail('exactly one wavelength is primary', case, after['primary'])
    if after['nwaves'] > 0:
        nprim = sum(1 for w in o.wavelengths.wavelengths if w.is_primary)
        if nprim != 1:
            ctx.fail('exactly one wavelength is primary', case, nprim)
    if history_state.get('stop_only'):
        return
    if not all(math.isfinite(v) for v in before['z'][1:] + after['z'][1:]):
        ctx.count('pred: non-finite vertex (degenerate solve earlier) - skipped')
        return
    if err is not None:
        if k in ('add',) and built and op[1]['index'] == len(before['z']):
            ctx.fail('every call with valid arguments succeeds', case, err)
        return
    # media chain
    pat = after['pattern']
    for j in range(1, len(after['z'])):
        if pat[2 * j] != pat[2 * (j - 1) + 1]:
            ctx.fail('medium in front of surface %d is the medium behind surface %d' % (j, j - 1), case, pat)
            return
    if k == 'add' and built:
        th = history_state.setdefault('thicknesses', [])
        t = op[1]['thickness']
        th.append(math.inf if t == 'inf' else t)
        j = len(after['z']) - 1
        if j == 0:
            exp = -th[0]
        elif j == 1:
            exp = 0.0
        else:
            exp = sum(th[1:j])
        if not (after['z'][j] == exp or abs(after['z'][j] - exp) <= 1e-12 * max(1, abs(exp))):
            ctx.fail('vertex of surface %d lies at the running sum of thicknesses' % j, case, after['z'][j], exp)
        # the medium given for the predecessor
        return
    same = lambda f, skip=(): all(  # noqa
        (a == b) or (a != a and b != b) for i, (a, b) in enumerate(zip(before[f], after[f])) if i not in skip)
    others = lambda names: all(same(f) for f in FIELDS if f not in names) and before['coeffs'] == after['coeffs'] \
        and before['stop'] == after['stop']  # noqa
    if k == 'sr':
        if after['radius'][op[2]] != op[1] or not same('radius', (op[2],)) or not others(('radius', 'conic')):
            ctx.fail('set_radius changes exactly the radius and reads back', case, after['radius'])
    elif k == 'sc':
        if after['conic'][op[2]] != op[1] or not same('conic', (op[2],)) or not others(('conic',)):
            ctx.fail('set_conic changes exactly the conic and reads back', case, after['conic'])
    elif k == 'st':
        kk = op[2]
        tb = [before['z'][i + 1] - before['z'][i] for i in range(len(before['z']) - 1)]
        ta = [after['z'][i + 1] - after['z'][i] for i in range(len(after['z']) - 1)]
        ok = abs(ta[kk] - op[1]) <= 1e-9 * max(1, abs(op[1])) and after['z'][1] == 0
        for i in range(len(ta)):
            if i != kk and not (ta[i] == tb[i] or abs(ta[i] - tb[i]) <= 1e-9 * max(1, abs(tb[i]))
                                or (math.isinf(ta[i]) and math.isinf(tb[i]))):
                ok = False
        if not ok or not others(('z',)):
            ctx.fail('set_thickness sets thickness %d, keeps every other thickness (rigid shift), z1 = 0' % kk,
                     case, ta, tb)
    elif k == 'si':
        if after['n'][op[2]] != op[1] or not same('n', (op[2],)) or not others(('n',)):
            ctx.fail('set_index changes exactly that index and reads back', case, after['n'])
    elif k == 'sa':
        exp = copy.deepcopy(before['coeffs'])
        if op[3] < len(exp[op[2]]):
            exp[op[2]][op[3]] = op[1]
            if after['coeffs'] != exp or not all(same(f) for f in FIELDS):
                ctx.fail('set_asphere_coeff changes exactly that coefficient', case, after['coeffs'], exp)
    elif k in ('tx', 'ty', 'ddx', 'ddy'):
        f = {'tx': 'rx', 'ty': 'ry', 'ddx': 'dx', 'ddy': 'dy'}[k]
        if after[f][op[2]] != op[1] or not same(f, (op[2],)) or not others((f,)):
            ctx.fail('tilt/decentre variable changes exactly that quantity', case, after[f])
    elif k == 'up':
        check_update(ctx, case, o, after)
    elif k == 'is':
        try:
            ya, ua = o.paraxial.marginal_ray()
            y = float(np.ravel(ya)[-1])
            u = float(np.ravel(ua)[-1])
            if math.isfinite(y) and math.isfinite(u) and abs(y) > 1e-7 * max(1.0, abs(u) * 1e3):
                ctx.fail('after image_solve the marginal ray crosses the axis on the image surface', case, y)
        except Exception:
            ctx.count('pred: marginal ray error')


def pickups_ordered(o):
    """documented 'applied in order' semantics: the equation of every pickup survives the later ones iff no later
    pickup (or solve) writes the quantity an earlier pickup read or wrote"""
    ps = o.pickups.pickups
    written = []
    for i, p in enumerate(ps):
        for q in ps[i + 1:]:
            if q.attr_type == p.attr_type and q.target_surface_idx in (p.source_surface_idx, p.target_surface_idx):
                return False
            if p.attr_type == 'conic' and q.attr_type == 'radius' and False:
                return False
    if o.solves.solves and any(p.attr_type == 'thickness' for p in ps):
        return False
    # set_radius on a plane resets the conic to 0
    return True


def check_update(ctx, case, o, after):
    if pickups_ordered(o):
        for p in o.pickups.pickups:
            src, tgt = p.source_surface_idx, p.target_surface_idx
            if p.attr_type == 'radius':
                a, b = after['radius'][src], after['radius'][tgt]
            elif p.attr_type == 'conic':
                a, b = after['conic'][src], after['conic'][tgt]
            else:
                a = after['z'][src + 1] - after['z'][src]
                b = after['z'][tgt + 1] - after['z'][tgt]
            exp = p.scale * a + p.offset
            if src == tgt:
                continue       # x = s x + o is not an equation update() can establish
            if math.isfinite(exp) and abs(b - exp) > 1e-9 * max(1.0, abs(exp)):
                ctx.fail('after update() pickup target = scale*source + offset (%s %d->%d)' % (p.attr_type, src, tgt),
                         case, b, exp)
                return
        ctx.count('pred: pickups checked')
    sv = o.solves.solves
    idxs = [s.surface_idx for s in sv]
    if sv and idxs == sorted(idxs) and len(set(idxs)) == len(idxs):
        try:
            ya, ua = o.paraxial.marginal_ray()
        except Exception:
            return
        ya = np.ravel(ya)
        ua = np.ravel(ua)
        launch_fixed = (o.object_surface.is_infinite and o.aperture.ap_type == 'EPD')
        if not np.all(np.isfinite(ya)) or float(np.max(np.abs(ya))) > 1e6 * max(1.0, abs(float(o.aperture.value))):
            # e.g. a solve that asks for height 0 on the stop itself: the stop sits at the marginal focus, the
            # entrance pupil at infinity, heights of 1e16 - no solve can be judged on such a lens
            ctx.count('pred: solves on a degenerate lens (marginal ray not finite or astronomically large) - skipped')
            return
        plain, spm = None, None
        for s in sv:
            if not (launch_fixed or (o.surface_group.stop_index or 0) < s.surface_idx):
                ctx.count('pred: solve in front of the stop with a lens-dependent launch - skipped')
                continue
            y = float(ya[s.surface_idx])
            uin = float(ua[s.surface_idx - 1])
            if not math.isfinite(y) or abs(uin) < 1e-6:
                continue     # slope ~ 0: no axial shift can change the height (outside the guard)
            # conditioning: vertex positions carry eps*|z|, which the slope turns into a height; heights carry
            # eps*|y| (an optimiser can leave air spaces of 1e5 mm and slopes of 1e3 behind)
            zs = [abs(float(np.ravel(q.geometry.cs.z)[0])) for q in o.surface_group.surfaces[1:]]
            cond = 64 * 2.2e-16 * (abs(uin) * max([z for z in zs if math.isfinite(z)] + [1.0])
                                   + float(np.max(np.abs(ya))))
            htol = 1e-7 * max(1.0, abs(s.height)) + cond
            # the same with a marginal ray traced independently of paraxial.py (matrix specification of C04), where
            # that specification applies (no decentred / tilted surface)
            if plain is None:
                try:
                    from . import c04
                    plain = all(float(np.ravel(q.geometry.cs.y)[0]) == 0.0 and float(np.ravel(q.geometry.cs.rx)[0]) == 0.0
                                for q in o.surface_group.surfaces)
                    spm = c04.spec_all(o).get('marginal') if plain else None
                except Exception:  # noqa
                    plain, spm = False, None
            if plain and spm is not None and len(spm[0]) >= s.surface_idx:
                yi = float(spm[0][s.surface_idx - 1])
                if math.isfinite(yi) and abs(yi - s.height) > htol:
                    ctx.fail('after update() the marginal ray (traced independently) has the requested height on the '
                             'solved surface %d' % s.surface_idx, case, yi, s.height)
                    return
            if abs(y - s.height) > htol:
                ctx.fail('after update() the marginal ray has the requested height on the solved surface %d'
                         % s.surface_idx, case, y, s.height)
                return
        ctx.count('pred: solves checked')


def run_history(ctx, drv_lines, keep, cfg, ops, nbuild, stop_only=False, tag=None):
    from optiland.optic import Optic
    o = Optic()
    if cfg:
        o.set_aperture(cfg['aperture'][0], cfg['aperture'][1])
        o.set_field_type(cfg['field_type'])
        for f in cfg['fields']:
            o.add_field(y=f[0])
    case = {'cfg': cfg, 'ops': ops, 'nbuild': nbuild, 'stop_only': stop_only}
    snaps, errs = [], []
    hs = {'stop_only': stop_only}
    before = snap(o)
    for i, op in enumerate(ops):
        err = apply_op(o, op)
        after = snap(o)
        predicate(ctx, case, op, before, after, err, i < nbuild, o, hs)
        snaps.append(after)
        errs.append(err)
        ctx.count('op:' + op[0] + (':err' if err else ''))
        before = after
    head = ['presc', (cfg or {}).get('aperture', ['EPD', 1.0])[0], fhex((cfg or {}).get('aperture', ['EPD', 1.0])[1]),
            'angle', fhex(max([f[0] for f in cfg['fields']]) if cfg else 0.0),
            b01(cfg['obj_inf'] if cfg else True), str(len(ops))]
    toks = head
    for op in ops:
        toks = toks + op_tokens(op)
    drv_lines.append(' '.join(toks))
    keep.append((case, snaps, errs))


def compare(ctx, case, snaps, errs, out):
    parts = out.split(' | ')
    if len(parts) != len(snaps):
        ctx.disagreements.append({'what': 'driver answer', 'model': out[:200], 'case': case})
        return
    for i, (part, s, e) in enumerate(zip(parts, snaps, errs)):
        status, m = parse_snapshot(part)
        if e == 'AttributeError' and case['ops'][i][0] == 'pk' and status == 'ok':
            # conic pickup whose source is a Plane (no attribute k): invalid argument, outside the quantifier
            ctx.count('history cut at an invalid conic pickup')
            return
        if (status == 'err') != (e is not None):
            ctx.disagreements.append({'what': 'error class after op %d %r' % (i, case['ops'][i][0]),
                                      'impl': e, 'model': status, 'case': case})
            return
        if case.get('stop_only'):
            for f in ('stop', 'primary', 'nwaves', 'stop_index'):
                if m[f] != s[f]:
                    ctx.disagreements.append({'what': '%s after op %d' % (f, i), 'impl': s[f], 'model': m[f],
                                              'case': case})
                    return
            continue
        for f in FIELDS:
            if not ctx.cmp_list('%s after op %d (%s)' % (f, i, case['ops'][i][0]), s[f], m[f], case,
                                rtol=1e-12, atol=1e-12):
                return
        for f in ('stop', 'pattern', 'primary', 'nwaves', 'stop_index', 'coeffs'):
            if m[f] != s[f]:
                ctx.disagreements.append({'what': '%s after op %d (%s)' % (f, i, case['ops'][i][0]),
                                          'impl': s[f], 'model': m[f], 'case': case})
                return


def work(ctx, items):
    drv = Driver()
    lines, keep = [], []
    for it in items:
        run_history(ctx, lines, keep, it['cfg'], [tuple(o) for o in it['ops']], it['nbuild'], it.get('stop_only', False))
    outs = drv.batch(lines)
    for (case, snaps, errs), out in zip(keep, outs):
        ctx.case(case)
        compare(ctx, case, snaps, errs, out)


def run(tier, seed, replay=None):
    ctx = Ctx('C01', tier, seed)
    ctx.stats['rule'] = ('histories = 1-12 surfaces appended in index order (all dyadic parameters, tilts/decentres, '
                         'aspheres, mirrors) followed by 0-40 edits from set_radius/conic/thickness/index/'
                         'asphere_coeff, tilt/decentre variables, add_wavelength, pickups.add, solves.add, update, '
                         'image_solve; a malformed stream with out-of-range indices; insertion/removal histories for '
                         'the stop and primary-wavelength clauses; distinct by history hash')
    aud = audit('C01')
    items = []
    if replay:
        items.append({'cfg': replay['cfg'], 'ops': replay['ops'], 'nbuild': replay['nbuild'],
                      'stop_only': replay.get('stop_only', False)})
    else:
        n = 300 if ctx.quick() else 20000
        for i in range(n):
            cfg, ops, nbuild = gen_history(ctx.rng, malformed=(i % 10 == 0))
            items.append({'cfg': cfg, 'ops': ops, 'nbuild': nbuild})
        for i in range(n // 3):
            items.append({'cfg': None, 'ops': gen_stop_history(ctx.rng), 'nbuild': 0, 'stop_only': True})
    from .core import run_parallel
    run_parallel(ctx, 'harness.c01', 'work', items, nproc=4 if ctx.quick() else None)
    return finish(ctx, aud,
                  partial=['solve_places_ray and pickup_after_update: checked on the implementation for ordered '
                           'pickups/solves; theorems cover the single-step algebra'],
                  assumptions=['catalogue media enter as their index at 0.5876 um',
                               'Python object identity of materials is observed through id()'])
