"""C02  Every traced ray obeys Snell / reflection law on the prescribed surface.
Correspondence: per-surface records (x,y,z,L,M,N,intensity,opd) of `Optic.trace_generic`
vs `Model/Real.lean` at Float, fed with the implementation's own object-surface record.
Search predicate: the property's clauses evaluated on the implementation's records with
an independent shape specification (`specgeom.py`)."""
import math
import numpy as np
from .core import Driver, Ctx, audit, finish
from . import lensgen, realenc, specgeom


def disk_points(rng, n):
    px, py = [], []
    for _ in range(n):
        r = math.sqrt(rng.random())
        a = rng.uniform(0, 2 * math.pi)
        px.append(r * math.cos(a))
        py.append(r * math.sin(a))
    # always include the marginal points and the chief ray
    px[:5] = [0.0, 0.0, 0.0, 1.0, -1.0]
    py[:5] = [0.0, 1.0, -1.0, 0.0, 0.0]
    return np.array(px[:n]), np.array(py[:n])


def trace_case(optic, Hy, px, py, w):
    """returns ('error', name) or records dict"""
    try:
        optic.trace_generic(0.0, float(Hy), px.copy(), py.copy(), w)
    except Exception as e:  # noqa
        return ('error', type(e).__name__)
    return realenc.impl_records(optic)


def nr_wanders(optic, rec, j, r):
    """True when surface j is an iteratively intersected shape and the code's own iteration, replayed for ray r with
    the independent sag, has not converged when it stops (or leaves the sag domain): the values recorded there are
    rounding-dependent iterates, not an intersection (F22 / F22b) - model and implementation are two such iterates"""
    g = optic.surface_group.surfaces[j].geometry
    if type(g).__name__ in ('Plane', 'StandardGeometry') or j == 0:
        return False
    P0 = np.array([rec[f][j - 1, r] for f in ('x', 'y', 'z')], dtype=float)
    D0 = np.array([rec[f][j - 1, r] for f in ('L', 'M', 'N')], dtype=float)
    if not (np.all(np.isfinite(P0)) and np.all(np.isfinite(D0))):
        return False
    loc0 = specgeom.to_local(g.cs, P0)
    dloc = specgeom.to_local(g.cs, P0 + D0) - loc0
    if abs(dloc[2]) < 1e-12:
        return True
    q = nr_replay(g, loc0, dloc)
    if q is None:
        return True
    zs, _g = specgeom.shape(g, float(q[0]), float(q[1]))
    return zs is None or abs(q[2] - zs) >= float(g.tol) or float((q - loc0) @ dloc) < -1e-9


def compare_records(ctx, case, rec, mod, start=1, fields=realenc.FIELDS, rtol=1e-9, atol=1e-10, optic=None):
    """hard comparison on the property's domain: where the model's record is finite"""
    nsurf, nray = rec['x'].shape
    ok = True
    wandering = set()
    for j in range(start, nsurf):
        for r in range(nray):
            if r in wandering:
                continue
            if optic is not None and any(
                    not (rec[f][j, r] == mod[f][j, r] or abs(rec[f][j, r] - mod[f][j, r]) <=
                         atol + rtol * max(abs(rec[f][j, r]), abs(mod[f][j, r])))
                    for f in ('x', 'y', 'z') if math.isfinite(rec[f][j, r]) and math.isfinite(mod[f][j, r])) \
                    and nr_wanders(optic, rec, j, r):
                ctx.count('ray-surface: unconverged Newton-Raphson iterate (soft)')
                ctx.drift.append({'what': 'unconverged iterate at surface %d ray %d' % (j, r), 'case': case})
                wandering.add(r)
                continue
            geo_m = [mod[f][j, r] for f in ('x', 'y', 'z', 'L', 'M', 'N')]
            geo_i = [rec[f][j, r] for f in ('x', 'y', 'z', 'L', 'M', 'N')]
            fin_m = all(math.isfinite(v) for v in geo_m)
            fin_i = all(math.isfinite(v) for v in geo_i)
            if not fin_m or not fin_i:
                ctx.count('ray-surface: non-finite')
                if fin_m != fin_i:
                    ctx.disagreements.append({'what': 'finite/non-finite class at surface %d ray %d' % (j, r),
                                              'impl': geo_i, 'model': geo_m, 'case': case})
                    ok = False
                continue
            ctx.count('ray-surface: finite')
            for f in fields:
                if not ctx.cmp('%s[s%d,r%d]' % (f, j, r), rec[f][j, r], mod[f][j, r], case, rtol=rtol, atol=atol):
                    ok = False
            if not ok:
                return False
    return ok


def predicate(ctx, optic, case, rec, w):
    """C02's clauses on the implementation's records"""
    surfs = optic.surface_group.surfaces
    nsurf, nray = rec['x'].shape
    for r in range(nray):
        opl = 0.0
        alive = all(math.isfinite(rec[f][0, r]) for f in ('x', 'y', 'z', 'L', 'M', 'N'))
        for j in range(1, nsurf):
            s = surfs[j]
            g = s.geometry
            P = np.array([rec['x'][j, r], rec['y'][j, r], rec['z'][j, r]])
            D = np.array([rec['L'][j, r], rec['M'][j, r], rec['N'][j, r]])
            P0 = np.array([rec['x'][j - 1, r], rec['y'][j - 1, r], rec['z'][j - 1, r]])
            D0 = np.array([rec['L'][j - 1, r], rec['M'][j - 1, r], rec['N'][j - 1, r]])
            fin = bool(np.all(np.isfinite(P)) and np.all(np.isfinite(D)))
            if not alive:
                if fin:
                    ctx.fail('a ray that was non-finite at surface %d is finite again at surface %d' % (j - 1, j),
                             case, {'ray': r, 'P': P.tolist(), 'D': D.tolist()})
                continue
            if not fin:
                alive = False
                ctx.count('pred: ray lost')
                continue
            loc = specgeom.to_local(g.cs, P)
            z_true, grad = specgeom.shape(g, float(loc[0]), float(loc[1]))
            name = type(g).__name__
            if z_true is None:
                ctx.count('pred: outside sag domain')
                break
            scale = max(1.0, abs(loc[0]), abs(loc[1]))
            tol_pt = (1e-9 * scale) if name in ('Plane', 'StandardGeometry') else 2e-5
            if abs(loc[2] - z_true) > tol_pt:
                # far sheet of the quadric or a point off the surface
                Rr = float(g.radius)
                kk = float(getattr(g, 'k', 0.0))
                onquad = name == 'StandardGeometry' and abs(
                    loc[0] ** 2 + loc[1] ** 2 + (1 + kk) * loc[2] ** 2 - 2 * Rr * loc[2]) <= 1e-7 * max(1, Rr * Rr)
                if onquad:
                    ctx.count('pred: far sheet (out of domain)')
                    break
                key = None
                loc0 = specgeom.to_local(g.cs, P0)
                dloc = specgeom.to_local(g.cs, P0 + D0) - loc0
                if name not in ('Plane', 'StandardGeometry'):
                    # Newton-Raphson distance is a norm: an intersection *behind* the ray start is walked to
                    # in the forward direction (finding F22)
                    tt = float(np.linalg.norm(P - P0))
                    back = loc0 - tt * dloc
                    zb, _ = specgeom.shape(g, float(back[0]), float(back[1]))
                    if zb is not None and abs(back[2] - zb) <= 1e-4:
                        key = 'nr-backward-intersection'
                    elif abs(dloc[2]) > 1e-12:
                        # the code's iteration  p <- p - (p.z - sag(p.x, p.y)) / N * d  (started on the base sphere)
                        # contracts slowly, or not at all, for steep rays far from the axis; after max_iter sweeps the
                        # unconverged iterate is returned as the intersection (finding F22b).  Recognised when the same
                        # iteration, run here with the independent sag for this ray alone, is still outside the
                        # tolerance after max_iter sweeps and ends at the recorded point.
                        q = nr_replay(g, loc0, dloc)
                        if q is not None and (np.linalg.norm(q - back) <= 1e-6 * max(1.0, float(np.linalg.norm(back)))
                                              or float((q - loc0) @ dloc) < -1e-9):
                            # F22 again: the solver ended behind the ray (whether converged or not) and the norm
                            # walked the ray forward by that distance
                            key = 'nr-backward-intersection'
                        elif q is not None:
                            zs, _g = specgeom.shape(g, float(q[0]), float(q[1]))
                            # (for a contracting iteration the replay ends at the recorded point; where the
                            #  iteration wanders, rounding differences between the two sag routines are amplified and
                            #  only the fact that it has not converged is reproducible)
                            if zs is not None and abs(q[2] - zs) >= float(g.tol):
                                key = 'nr-not-converged'
                elif name == 'StandardGeometry':
                    a = kk * dloc[2] ** 2 + dloc[0] ** 2 + dloc[1] ** 2 + dloc[2] ** 2
                    if abs(a) < 1e-5 and abs(loc[2] - z_true) < 1e-2:
                        key = 'conic-quadratic-cancellation'     # finding F23
                ctx.fail('intersection point lies on the prescribed shape (surface %d, %s)' % (j, name), case,
                         {'ray': r, 'local_point': loc.tolist(), 'sag': z_true}, finding_key=key)
                break
            nrm = float(D @ D)
            if abs(nrm - 1) > 1e-9:
                ctx.fail('outgoing direction is a unit vector (surface %d)' % j, case, {'ray': r, 'norm2': nrm})
                break
            Nl = specgeom.unit_normal(grad)
            Ng = specgeom.dir_to_global(g.cs, Nl)
            cheb_key = None
            if name == 'ChebyshevPolynomialGeometry' and (g.norm_x != 1 or g.norm_y != 1):
                # finding F21: the code's normal omits the chain-rule factors 1/norm_x, 1/norm_y.  The finding
                # is recognised only if the outgoing direction obeys the law with exactly that normal.
                _, g0 = specgeom.conic_sag(float(g.radius), float(g.k), float(loc[0]), float(loc[1]))
                gx = g0[0] + (grad[0] - g0[0]) * g.norm_x
                gy = g0[1] + (grad[1] - g0[1]) * g.norm_y
                Nc = specgeom.dir_to_global(g.cs, specgeom.unit_normal((gx, gy)))
                n1c = float(np.ravel(s.material_pre.n(w))[0])
                n2c = float(np.ravel(s.material_post.n(w))[0])
                if s.is_reflective:
                    okc = np.linalg.norm(np.cross(D, Nc) - np.cross(D0, Nc)) < 1e-9 and abs(D @ Nc + D0 @ Nc) < 1e-9
                else:
                    okc = np.linalg.norm(n2c * np.cross(D, Nc) - n1c * np.cross(D0, Nc)) < 1e-9 * max(n1c, n2c)
                if okc:
                    cheb_key = 'chebyshev-normal'

            n1 = float(np.ravel(s.material_pre.n(w))[0])
            n2 = float(np.ravel(s.material_post.n(w))[0])
            opl += abs(float(np.linalg.norm(P - P0)) * n1)
            if type(s).__name__ != 'ImageSurface':
                if s.is_reflective:
                    res = np.linalg.norm(np.cross(D, Ng) - np.cross(D0, Ng))
                    side = abs(float(D @ Ng) + float(D0 @ Ng))
                    if res > 1e-7 or side > 1e-7:
                        key = cheb_key
                        ctx.fail('law of reflection at surface %d (%s)' % (j, name), case,
                                 {'ray': r, 'cross_residual': float(res), 'normal_residual': side}, finding_key=key)
                        break
                else:
                    res = np.linalg.norm(n2 * np.cross(D, Ng) - n1 * np.cross(D0, Ng))
                    if res > 1e-7 * max(n1, n2):
                        key = cheb_key
                        ctx.fail("Snell's law n2 t x N = n1 k x N at surface %d (%s)" % (j, name), case,
                                 {'ray': r, 'residual': float(res), 'n1': n1, 'n2': n2}, finding_key=key)
                        break
                    if (float(D @ Ng) > 0) != (float(D0 @ Ng) > 0) and abs(float(D0 @ Ng)) > 1e-9:
                        ctx.fail('refracted ray continues into the correct half-space (surface %d)' % j, case,
                                 {'ray': r, 't.N': float(D @ Ng), 'k.N': float(D0 @ Ng)})
                        break
            if abs(rec['opd'][j, r] - opl) > 1e-9 * max(1.0, abs(opl)):
                ctx.fail('recorded optical path = sum of index x segment length (surface %d)' % j, case,
                         {'ray': r, 'recorded': float(rec['opd'][j, r]), 'recomputed': opl})
                break
            ctx.count('pred: ray-surface checked')


def gen_cases(ctx):
    out = []
    for name, _ in lensgen.sample_classes():
        out.append({'sample': name, 'Hy': 0.0, 'nray': 16, 'seed': 1})
        out.append({'sample': name, 'Hy': 1.0, 'nray': 16, 'seed': 2})
        out.append({'sample': name, 'Hy': -0.7, 'nray': 16, 'seed': 3, 'wi': -1})
    n = 400 if ctx.quick() else 25000
    nray = 24 if ctx.quick() else 128
    for i in range(n):
        rng = ctx.rng
        kind = rng.random()
        d = lensgen.gen_lens(rng, allow_asphere=kind < 0.35, allow_tilt=rng.random() < 0.3,
                             poly=0.35 <= kind < 0.55, catalog=rng.random() < 0.15,
                             apertures=rng.random() < 0.2, coatings=rng.random() < 0.2,
                             absorbing=rng.random() < 0.2,
                             nsurf=rng.randint(1, 12) if rng.random() < 0.8 else rng.randint(1, 3))
        if rng.random() < 0.15:   # steep rays, misses, TIR
            d['aperture'] = ['EPD', lensgen.dyadic(rng, 10, 60, 2)]
        if rng.random() < 0.25:   # same prescription reached through set_radius / set_conic
            d['via_setters'] = True
        out.append({'desc': d, 'Hy': rng.choice([0.0, 1.0, -1.0, rng.uniform(-1, 1)]), 'nray': nray,
                    'seed': rng.randint(0, 10 ** 9), 'wi': rng.randint(0, 2)})
    return out


def nr_replay(g, p0, d):
    """NewtonRaphsonGeometry.distance for one ray in the local frame, with the independent sag of specgeom:
    start on the base sphere (root nearest the vertex plane among the forward ones), max_iter sweeps"""
    R = float(g.radius)
    a = float(d @ d)
    b = 2 * d[0] * p0[0] + 2 * d[1] * p0[1] - 2 * d[2] * R + 2 * d[2] * p0[2]
    c = p0[0] ** 2 + p0[1] ** 2 + p0[2] ** 2 - 2 * R * p0[2]
    if math.isinf(R):
        if d[2] == 0:
            return None
        t = -p0[2] / d[2]
    else:
        disc = b * b - 4 * a * c
        if disc < 0:
            return None
        t1, t2 = (-b + math.sqrt(disc)) / (2 * a), (-b - math.sqrt(disc)) / (2 * a)
        t1 = math.inf if t1 < 0 else t1
        t2 = math.inf if t2 < 0 else t2
        z1, z2 = p0[2] + t1 * d[2], p0[2] + t2 * d[2]
        if not (abs(z1) <= abs(z2) or abs(z2) <= abs(z1)):
            return None
        t = t1 if abs(z1) <= abs(z2) else t2
    if not math.isfinite(t):
        return None
    q = np.array(p0, dtype=float) + t * np.array(d, dtype=float)
    for _ in range(int(g.max_iter)):
        zs, _g = specgeom.shape(g, float(q[0]), float(q[1]))
        if zs is None or not np.all(np.isfinite(q)):
            return None
        q = q - (q[2] - zs) / d[2] * np.array(d, dtype=float)
    return q


def run_cases(ctx, cases, drv, with_predicate=True, fields=realenc.FIELDS):
    import random
    lines, keep = [], []
    for case in cases:
        try:
            optic = lensgen.build_case(case)
        except Exception as e:  # noqa
            ctx.count('build_error:' + type(e).__name__)
            if 'sample' in case:
                ctx.fail('every bundled sample design can be built', dict(case), type(e).__name__, 'an Optic')
            continue
        if 'desc' in case and not case.get('post') and not case['desc'].get('post'):
            # "the prescribed surfaces" are the ones handed to add_surface: the model below is fed from the built
            # lens, so the built lens is first compared with the descriptor (decentres, tilts, vertex positions,
            # radius, conic, coefficients)
            cd = lensgen.construction_diffs(case['desc'], optic)
            if cd:
                ctx.fail('the lens built by add_surface has the prescription passed to it (%s)' % cd[0][0],
                         dict(case), cd[0][1], cd[0][2])
                continue
            ctx.count('construction compared with the descriptor')
        wl = optic.wavelengths.get_wavelengths()
        w = wl[case.get('wi', 0) % len(wl)] if case.get('wi', 0) >= 0 else wl[-1]
        px, py = disk_points(random.Random(case['seed']), case['nray'])
        rec = trace_case(optic, case['Hy'], px, py, w)
        if isinstance(rec, tuple):
            ctx.count('impl_error:' + rec[1])
            if 'sample' in case:
                # the property quantifies over all bundled sample designs: one that cannot be traced at all has no
                # valid ray (the defect F16, repaired: RealRays.propagate asked a medium without k table for k)
                ctx.fail('every bundled sample design can be ray-traced (C02 quantifies over all bundled samples)',
                         {k: v for k, v in case.items()}, rec[1], 'per-surface ray records',
                         finding_key='medium-without-k-raises')
            keep.append((case, optic, w, rec, None))
            continue
        try:
            toks = realenc.lens_tokens(optic, w) + realenc.rays_tokens(
                *[rec[f][0] for f in realenc.FIELDS])
        except Exception as e:  # noqa
            ctx.count('encode_error:' + type(e).__name__)
            continue
        lines.append('rtrace ' + ' '.join(toks))
        keep.append((case, optic, w, rec, len(lines) - 1))
    outs = drv.batch(lines)
    for case, optic, w, rec, li in keep:
        if li is None:
            continue
        nsurf, nray = rec['x'].shape
        mod = realenc.decode_records(outs[li], nsurf, nray)
        kinds = sorted({type(s.geometry).__name__ for s in optic.surface_group.surfaces})
        ctx.case({k: v for k, v in case.items()}, nontrivial=True)
        for k in kinds:
            ctx.count('geom:' + k)
        ctx.count('nsurf=%d' % nsurf)
        if any(s.is_reflective for s in optic.surface_group.surfaces):
            ctx.count('has-mirror')
        if any(s.geometry.cs.rx or s.geometry.cs.ry for s in optic.surface_group.surfaces):
            ctx.count('has-tilt')
        if isinstance(mod, tuple):
            ctx.disagreements.append({'what': 'model ' + mod[0], 'model': mod[1], 'case': case})
            continue
        compare_records(ctx, case, rec, mod, fields=fields, optic=optic)
        if with_predicate:
            predicate(ctx, optic, case, rec, w)
    return keep


def work(ctx, cases):
    run_cases(ctx, cases, Driver())


def run(tier, seed, replay=None):
    ctx = Ctx('C02', tier, seed)
    ctx.stats['rule'] = ('24 samples x 3 fields/wavelengths + random lenses (1-12 surfaces; plane, conic, even asphere, '
                         'xy polynomial, Chebyshev; mirrors; tilts/decentres; ideal and catalogue media), batches of '
                         'skew rays incl. marginal points, a steep/large-aperture stream for misses and TIR; '
                         'distinct by descriptor hash; non-trivial = the lens builds and the trace runs')
    aud = audit('C02')
    drv = Driver()
    cases = [replay] if replay else gen_cases(ctx)
    from .core import run_parallel
    run_parallel(ctx, 'harness.c02', 'work', cases, nproc=4 if ctx.quick() else None)
    return finish(ctx, aud,
                  partial=['whole-surface / whole-lens theorems (traceSurf_*, traceLens_invariants) carry explicit hit guards: '
                           'over R a masked root is the junk value 0, so the guard OneRoot adds |z + t N| < |z|; '
                           'point-on-surface is proved for planes and conics (Newton-Raphson shapes: tolerance, numerical)',
                           'root-sheet selection for hyperboloids (1+k<0) and Newton-Raphson convergence are numerical only',
                           'Chebyshev normal: derivative formula excluded at |x|=1'],
                  assumptions=['refractive indices/extinction taken from the implementation at the ray wavelength (C18)',
                               'IEEE-754 arithmetic is NaN-strict and deterministic'])
