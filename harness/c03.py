"""C03  Rays start at the requested field point and aim at the requested pupil point.
Correspondence: `RayGenerator.generate_rays`, the object-surface record of
`Optic.trace_generic`, `FieldGroup.get_vig_factor` and every named distribution vs
`Model/RayGen.lean` (driver commands raygen / vig / dist).  Predicate: the clauses of the
property evaluated on the implementation with plain geometry."""
import math, random
import numpy as np
from .core import fhex, b01, Toks, Driver, Ctx, audit, finish
from . import lensgen, c04
from .lensgen import dyadic


def rg_tokens(optic):
    obj = optic.object_surface
    g = obj.geometry
    plane = type(g).__name__ == 'Plane'
    t = c04.sys_tokens(optic) + [b01(optic.obj_space_telecentric), b01(plane),
                                 fhex(g.radius), fhex(getattr(g, 'k', 0.0))]
    fs = optic.fields.fields
    t += [str(len(fs))]
    for f in fs:
        t += [fhex(f.x), fhex(f.y), fhex(f.vx), fhex(f.vy)]
    return t


def gen_case(rng):
    finite = rng.random() < 0.5
    # (mirrors: vertices at negative z, which the launch plane of an infinite object has to clear)
    d = lensgen.gen_lens(rng, finite_object=finite, nsurf=rng.randint(1, 8), allow_mirror=rng.random() < 0.3)
    if rng.random() < 0.15 and len(d['fields']) >= 1:
        # field points below the axis: all of them, or the outermost one only (the normalising maximum is radial)
        if rng.random() < 0.5 or len(d['fields']) == 1:
            for f in d['fields']:
                f[0] = -f[0]
        else:
            k = max(range(len(d['fields'])), key=lambda i: abs(d['fields'][i][0]))
            d['fields'][k][0] = -d['fields'][k][0]
    if finite and d['surfaces'][1]['material']['kind'] in ('ideal', 'catalog') and rng.random() < 0.25:
        # immersed object (water, oil): the object-space index enters the numerical aperture
        d['surfaces'][0]['material'] = {'kind': 'ideal', 'n': dyadic(rng, 1.2, 1.7, 6)}
    # vignetting table
    if rng.random() < 0.5:
        for f in d['fields']:
            f += [0.0, dyadic(rng, 0, 0.5, 5), dyadic(rng, 0, 0.5, 5)]
    tele = False
    if finite and rng.random() < 0.3:
        tele = True
        if rng.random() < 0.7:
            d['aperture'] = ['objectNA', dyadic(rng, 0.01, 0.3, 8)]
            d['field_type'] = 'object_height'
    # combinations that must be rejected
    u = rng.random()
    if u < 0.06 and not finite:
        d['field_type'] = 'object_height'
    elif u < 0.10 and not finite:
        tele = True
    d['telecentric'] = tele
    nr = 8
    rays = []
    for _ in range(nr):
        r = math.sqrt(rng.random())
        a = rng.uniform(0, 2 * math.pi)
        rays.append([r * math.cos(a), r * math.sin(a)])
    rays[0] = [0.0, 0.0]
    rays[1] = [0.0, 1.0]
    argform = None
    if rng.random() < 0.25:
        # whole-number pupil coordinates handed over as Python ints or integer arrays (generate_rays(0, 1, 0, 1, w))
        rays = [[0, 0], [0, 1], [0, -1], [1, 0], [-1, 0]][:rng.randint(2, 5)]
        argform = rng.choice(['int_array', 'py_int'])
    case = {'desc': d, 'Hy': rng.choice([0.0, 1.0, -1.0, rng.uniform(-1, 1)]), 'rays': rays,
            'wi': rng.randint(0, 2)}
    if argform:
        case['argform'] = argform
    if finite and rng.random() < 0.3:
        # the object distance (and sometimes an inner gap) is changed through the public setter before the launch
        post = [['set_thickness', dyadic(rng, 30, 400, 3), 0]]
        if len(d['surfaces']) > 3 and rng.random() < 0.5:
            post.append(['set_thickness', dyadic(rng, 0.5, 20, 4), 1])
            if rng.random() < 0.5:
                post.reverse()
        case['post'] = post
    return case


def _cat(parts):
    return {f: np.concatenate([np.atleast_1d(p[f]) for p in parts]) for f in parts[0]}


def impl_generate(optic, Hy, px, py, w, argform=None):
    if argform == 'py_int':
        # one call per ray, every pupil coordinate a Python int
        parts = [impl_generate(optic, Hy, int(a), int(b), w, 'scalar') for a, b in zip(px, py)]
        bad = [p for p in parts if isinstance(p, tuple)]
        return bad[0] if bad else _cat(parts)
    try:
        if argform == 'scalar':
            r = optic.ray_generator.generate_rays(0.0, float(Hy), px, py, w)
        else:
            r = optic.ray_generator.generate_rays(0.0, float(Hy), px.copy(), py.copy(), w)
        return {f: np.atleast_1d(getattr(r, f)).astype(float) for f in ('x', 'y', 'z', 'L', 'M', 'N', 'i', 'opd', 'w')}
    except Exception as e:  # noqa
        return ('error', type(e).__name__)


def impl_generic(optic, Hy, px, py, w, argform=None):
    if argform == 'py_int':
        parts = [impl_generic(optic, Hy, int(a), int(b), w, 'scalar') for a, b in zip(px, py)]
        bad = [p for p in parts if isinstance(p, tuple)]
        return bad[0] if bad else _cat(parts)
    if argform == 'scalar':
        try:
            optic.trace_generic(0.0, float(Hy), px, py, w)
            s0 = optic.surface_group.surfaces[0]
            return {'x': s0.x.copy(), 'y': s0.y.copy(), 'z': s0.z.copy(), 'L': s0.L.copy(), 'M': s0.M.copy(),
                    'N': s0.N.copy(), 'i': s0.intensity.copy(), 'opd': s0.opd.copy()}
        except Exception as e:  # noqa
            return ('error', type(e).__name__)
    try:
        optic.trace_generic(0.0, float(Hy), px.copy(), py.copy(), w)
        s0 = optic.surface_group.surfaces[0]
        return {'x': s0.x.copy(), 'y': s0.y.copy(), 'z': s0.z.copy(), 'L': s0.L.copy(), 'M': s0.M.copy(),
                'N': s0.N.copy(), 'i': s0.intensity.copy(), 'opd': s0.opd.copy()}
    except Exception as e:  # noqa
        return ('error', type(e).__name__)


ERRMAP = {'ValueError': 'v', 'NotImplementedError': 'n'}


def compare_launch(ctx, case, what, impl, outline, nr):
    parts = outline.split(' | ')
    if len(parts) != nr:
        ctx.disagreements.append({'what': what + ': driver answer', 'model': outline[:200], 'case': case})
        return
    if isinstance(impl, tuple):
        cls = ERRMAP.get(impl[1], 'other')
        for p in parts:
            if p != 'err ' + cls:
                ctx.disagreements.append({'what': what + ': error class', 'impl': impl[1], 'model': p[:40],
                                          'case': case})
                return
        ctx.count(what + ':rejected:' + impl[1])
        return
    for r, p in enumerate(parts):
        t = Toks(p)
        if t.tok() != 'ok':
            ctx.disagreements.append({'what': what + ': model rejects, implementation accepts', 'model': p[:40],
                                      'case': case})
            return
        vals = t.floats(8)
        for f, mv in zip(('x', 'y', 'z', 'L', 'M', 'N', 'i', 'opd'), vals):
            if not ctx.cmp('%s.%s[%d]' % (what, f, r), impl[f][r], mv, case, rtol=1e-9, atol=1e-11):
                return


def predicate(ctx, optic, case, gen, w):
    """clauses of C03 on the implementation (generate_rays output)"""
    if isinstance(gen, tuple):
        return
    d = case['desc']
    obj = optic.object_surface
    Hy = case['Hy']
    try:
        # entrance pupil located independently of paraxial.py: image of the stop through the surfaces in front of it,
        # in global coordinates (matrix specification of C04, built from the current vertex positions)
        from . import c04
        sp = c04.spec_all(optic)
        EPL, EPD = float(sp['EPL']), float(sp['EPD'])
        if not (math.isfinite(EPL) and math.isfinite(EPD)):
            raise ValueError
    except Exception:
        ctx.count('pred: no independent entrance pupil (degenerate lens)')
        return
    # the normalising field: the largest radial field value, taken from the descriptor (not from FieldGroup)
    maxf = max(math.hypot(float(f[0]), float(f[1]) if len(f) > 1 else 0.0) for f in d['fields'])
    vx, vy = optic.fields.get_vig_factor(0.0, Hy)
    n = len(gen['x'])
    for r in range(n):
        P0 = np.array([gen['x'][r], gen['y'][r], gen['z'][r]])
        D = np.array([gen['L'][r], gen['M'][r], gen['N'][r]])
        if not (np.all(np.isfinite(P0)) and np.all(np.isfinite(D))):
            ctx.count('pred: non-finite launch (degenerate pupil)')
            continue
        if abs(D @ D - 1) > 1e-12:
            ctx.fail('launch direction is a unit vector', case, float(D @ D))
            return
        if gen['i'][r] != 1.0 or gen['opd'][r] != 0.0 or gen['w'][r] != w:
            ctx.fail('ray carries unit intensity, zero path and the requested wavelength', case,
                     [float(gen['i'][r]), float(gen['opd'][r]), float(gen['w'][r])])
            return
        px, py = case['rays'][r]
        if optic.obj_space_telecentric:
            if px == 0 and py == 0 and abs(D[2] - 1) > 1e-12:
                ctx.fail('telecentric chief ray leaves parallel to the axis', case, D.tolist())
                return
            if abs(px * px + py * py - 1) < 1e-12 and vx == 0 and vy == 0:
                sin_t = math.sqrt(D[0] ** 2 + D[1] ** 2)
                if abs(sin_t - optic.aperture.value) > 1e-9:
                    ctx.fail('telecentric marginal ray has the stated numerical aperture', case, sin_t,
                             optic.aperture.value)
                    return
        else:
            # aim point on the entrance pupil plane
            if abs(D[2]) < 1e-12:
                continue
            s = (EPL - P0[2]) / D[2]
            A = P0 + s * D
            ex, ey = px * EPD / 2, py * EPD / 2
            # rounding of the direction cosines is magnified by the distance to the pupil plane (nearly
            # telecentric lenses have their entrance pupil kilometres away)
            far = 2e-12 * abs(s)
            if vx == 0 and vy == 0:
                if abs(A[0] - ex) > 1e-8 * max(1, abs(EPD)) + far or abs(A[1] - ey) > 1e-8 * max(1, abs(EPD)) + far:
                    ctx.fail('ray is aimed at (Px,Py) x EPD/2 on the entrance pupil plane', case,
                             A.tolist(), [ex, ey, EPL])
                    return
            else:
                if abs(A[0]) > abs(ex) * (1 + 1e-9) + 1e-9 + far or abs(A[1]) > abs(ey) * (1 + 1e-9) + 1e-9 + far or \
                        A[0] * ex < -1e-12 - far * abs(ex) or A[1] * ey < -1e-12 - far * abs(ey):
                    ctx.fail('vignetting factors can only shrink the sampled pupil', case, A.tolist(), [ex, ey])
                    return
        # start point / field angle
        if obj.is_infinite:
            ang = math.radians(Hy * maxf)
            if abs(D[1] / D[2] - math.tan(ang)) > 1e-9 or abs(D[0] / D[2]) > 1e-9:
                ctx.fail('infinite object: ray travels at angle Hy x max field to the axis', case,
                         [D[0] / D[2], D[1] / D[2]], math.tan(ang))
                return
        elif optic.field_type == 'object_height':
            zo = float(np.ravel(obj.geometry.cs.z)[0])
            if abs(P0[1] - Hy * maxf) > 1e-12 * max(1, abs(maxf)) or abs(P0[0]) > 1e-12 or \
                    abs(P0[2] - zo) > 1e-9 * max(1, abs(zo)):
                ctx.fail('finite object: ray starts on the object at height Hy x max field', case,
                         P0.tolist(), [0.0, Hy * maxf, zo])
                return
        ctx.count('pred: launch checked')


DISTS = [('line_x', False), ('line_y', False), ('positive_line_x', True), ('positive_line_y', True),
         ('uniform', False), ('hexapolar', False), ('cross', False), ('ring', False)]


def dist_checks(ctx, drv):
    from optiland.distribution import create_distribution, GaussianQuadrature, RandomDistribution
    ns = list(range(1, 33)) + sorted({ctx.rng.randint(33, 520) for _ in range(40)}) if ctx.quick() \
        else list(range(1, 129)) + sorted({ctx.rng.randint(129, 2000) for _ in range(200)})
    lines, keep = [], []
    # 'ring': every count up to the bound (a float-step construction breaks at isolated counts: 61, 122, 197, ...)
    ns_ring = list(range(1, 521 if ctx.quick() else 2001))
    for name, flag in DISTS:
        for n in (ns_ring if name == 'ring' else ns):
            if name == 'hexapolar' and n > (12 if ctx.quick() else 40) and n % 7 != 0:
                continue
            if name == 'hexapolar' and n > (64 if ctx.quick() else 230):
                continue
            if name == 'uniform' and n > (24 if ctx.quick() else 96):
                continue
            dist = create_distribution(name)
            dist.generate_points(n, 0.0, 0.0)
            mname = name.replace('positive_', '')
            lines.append('dist %s %d %s' % (mname, n, b01(flag)))
            keep.append((name, n, np.array(dist.x, dtype=float), np.array(dist.y, dtype=float)))
    for rings in range(1, 8):
        for sym in (False, True):
            g = GaussianQuadrature(is_symmetric=sym)
            try:
                g.generate_points(rings)
                x, y = np.array(g.x), np.array(g.y)
            except ValueError:
                x = y = None
            lines.append('dist gq %d %s' % (rings, b01(sym)))
            keep.append(('gq_sym' if sym else 'gq', rings, x, y))
    for n in (1, 7, 64):
        seed = ctx.rng.randint(0, 10 ** 6)
        d = RandomDistribution(seed=seed)
        d.generate_points(n)
        g = np.random.default_rng(seed)
        r = g.uniform(size=n)
        th = g.uniform(0, 2 * np.pi, size=n)
        lines.append('dist random %d 0 %d %s %d %s' % (n, n, ' '.join(fhex(v) for v in r), n,
                                                       ' '.join(fhex(v) for v in th)))
        keep.append(('random', n, np.array(d.x), np.array(d.y)))
    outs = drv.batch(lines)
    for (name, n, x, y), out in zip(keep, outs):
        case = {'distribution': name, 'n': n}
        ctx.case(case)
        ctx.count('dist:' + name)
        if x is None:
            if not out.startswith('err'):
                ctx.disagreements.append({'what': 'distribution rejection', 'model': out[:40], 'case': case})
            continue
        t = Toks(out)
        if t.error or out.startswith('err'):
            ctx.disagreements.append({'what': 'distribution', 'model': out[:40], 'case': case})
            continue
        k = t.nat()
        pts = t.floats(2 * k)
        mx, my = pts[0::2], pts[1::2]
        # compared as sorted multisets of points (order is not part of the documented result)
        a = sorted(zip(np.round(x, 12).tolist(), np.round(y, 12).tolist()))
        b = sorted(zip(np.round(mx, 12).tolist(), np.round(my, 12).tolist()))
        if len(a) != len(b):
            ctx.disagreements.append({'what': 'number of points', 'impl': len(a), 'model': len(b), 'case': case})
        else:
            for (ax, ay), (bx, by) in zip(a, b):
                if not (ctx.cmp('dist.x', ax, bx, case, rtol=0, atol=1e-11) and
                        ctx.cmp('dist.y', ay, by, case, rtol=0, atol=1e-11)):
                    break
        # the property's clauses on the implementation
        expected = {'line_x': n, 'line_y': n, 'positive_line_x': n, 'positive_line_y': n, 'cross': 2 * n, 'ring': n,
                    'hexapolar': 1 + 3 * n * (n + 1), 'gq': 3 * n, 'gq_sym': n, 'random': n}.get(name)
        if name == 'uniform':
            g = np.linspace(-1, 1, n)
            expected = int(sum(1 for u in g for v in g if u * u + v * v <= 1))
        if expected is not None and len(x) != expected:
            ctx.fail('named sampling delivers its documented number of points (%s, n=%d)' % (name, n), case,
                     len(x), expected)
        if np.any(x * x + y * y > 1 + 1e-12):
            ctx.fail('all sampling points lie inside the unit pupil (%s, n=%d)' % (name, n), case,
                     float(np.max(x * x + y * y)))
        # vignetting can only shrink
        if not name.startswith('gq') and name != 'random':
            vx, vy = 0.25, 0.4375
            d2 = create_distribution(name)
            d2.generate_points(n, vx, vy)
            if np.any(np.abs(d2.x) > np.abs(x) + 1e-15) or np.any(np.abs(d2.y) > np.abs(y) + 1e-15):
                ctx.fail('vignetting factors can only shrink the sampled pupil (%s)' % name, case, None)


def work(ctx, cases):
    drv = Driver()
    lines, keep = [], []
    for case in cases:
        if 'desc' not in case:
            continue
        try:
            optic = lensgen.build_case(case)
        except Exception as e:  # noqa
            ctx.count('build_error:' + type(e).__name__)
            continue
        wl = optic.wavelengths.get_wavelengths()
        w = wl[case['wi'] % len(wl)]
        px = np.array([p[0] for p in case['rays']])
        py = np.array([p[1] for p in case['rays']])
        af = case.get('argform')
        if af:
            px, py = px.astype(np.int64), py.astype(np.int64)
            ctx.count('pupil coordinates as ' + af)
        gen = impl_generate(optic, case['Hy'], px, py, w, 'py_int' if af == 'py_int' else None)
        gnr = impl_generic(optic, case['Hy'], px, py, w, 'py_int' if af == 'py_int' else None)
        try:
            sys_t = rg_tokens(optic)
        except Exception as e:  # noqa
            ctx.count('encode_error:' + type(e).__name__)
            continue
        q = [str(len(case['rays']))]
        for p in case['rays']:
            q += [fhex(0.0), fhex(case['Hy']), fhex(p[0]), fhex(p[1])]
        lines.append('raygen ' + ' '.join(sys_t + ['g'] + q))
        lines.append('raygen ' + ' '.join(sys_t + ['t'] + q))
        fs = optic.fields.fields
        hq = [(0.17 * (k + 1) * (1 + case['wi'])) % 1.2 for k in range(4)] + [0.0, 1.0]
        lines.append('vig %d %s %d %s' % (len(fs), ' '.join(fhex(v) for f in fs for v in (f.x, f.y, f.vx, f.vy)),
                                          len(hq), ' '.join(fhex(0.0) + ' ' + fhex(h) for h in hq)))
        keep.append((case, optic, w, gen, gnr, hq))
    outs = drv.batch(lines)
    for i, (case, optic, w, gen, gnr, hq) in enumerate(keep):
        ctx.case(case)
        ctx.count('ap=%s field=%s obj=%s tele=%s' % (optic.aperture.ap_type, optic.field_type,
                                                     'inf' if optic.object_surface.is_infinite else 'fin',
                                                     optic.obj_space_telecentric))
        compare_launch(ctx, case, 'generate_rays', gen, outs[3 * i], len(case['rays']))
        compare_launch(ctx, case, 'trace_generic', gnr, outs[3 * i + 1], len(case['rays']))
        t = Toks(outs[3 * i + 2])
        mv = t.floats(2 * len(hq))
        for j, h in enumerate(hq):
            try:
                vx, vy = optic.fields.get_vig_factor(0.0, h)
            except Exception:
                break
            ctx.cmp('vig.x', float(vx), mv[2 * j], case, rtol=1e-12, atol=1e-15)
            ctx.cmp('vig.y', float(vy), mv[2 * j + 1], case, rtol=1e-12, atol=1e-15)
            lo = min(f.vx for f in optic.fields.fields)
            hi = max(f.vx for f in optic.fields.fields)
            if not (lo - 1e-15 <= float(vx) <= hi + 1e-15):
                ctx.fail('interpolated vignetting factor lies between the field factors', case, float(vx), [lo, hi])
            # independent specification: linear interpolation between the defined fields ordered by y (from the
            # descriptor; the order in which the fields were entered does not matter)
            fd = sorted(([float(f[0])] + [float(v) for v in (f[2:4] if len(f) >= 4 else [0.0, 0.0])]
                         for f in case['desc']['fields']), key=lambda t_: t_[0])
            ymax = max(f_[0] for f_ in fd)
            if ymax > 0 and len({f_[0] for f_ in fd}) == len(fd):
                hs = [f_[0] / ymax for f_ in fd]
                ex = float(np.interp(h, hs, [f_[1] for f_ in fd]))
                ey = float(np.interp(h, hs, [f_[2] for f_ in fd]))
                if abs(float(vx) - ex) > 1e-12 or abs(float(vy) - ey) > 1e-12:
                    ctx.fail('vignetting factors are interpolated linearly between the defined fields (ordered by y)',
                             dict(case, h=h), [float(vx), float(vy)], [ex, ey])
                    break
        predicate(ctx, optic, case, gen, w)
        # combinations that must be rejected
        d = case['desc']
        inf = optic.object_surface.is_infinite
        must_reject = (inf and optic.field_type == 'object_height') or (inf and optic.obj_space_telecentric) or \
                      (optic.obj_space_telecentric and optic.field_type == 'angle') or \
                      (optic.obj_space_telecentric and optic.aperture.ap_type in ('EPD', 'imageFNO'))
        if must_reject and not isinstance(gen, tuple):
            ctx.fail('unrepresentable combination is rejected with an error', case,
                     [optic.aperture.ap_type, optic.field_type, inf, optic.obj_space_telecentric])
        if not must_reject and isinstance(gen, tuple):
            ctx.fail('representable combination is traced, not rejected', case, gen[1])


def run(tier, seed, replay=None):
    ctx = Ctx('C03', tier, seed)
    ctx.stats['rule'] = ('lens x aperture type x field type x object distance x telecentric flag x vignetting table, '
                         'Hy in [-1,1], 8 pupil points incl. chief and marginal; every named distribution for '
                         'n = 1..32 (thorough ..128); rejected combinations included; distinct by descriptor hash')
    aud = audit('C03')
    drv = Driver()
    cases = [replay] if replay else [gen_case(ctx.rng) for _ in range(300 if ctx.quick() else 20000)]
    from .core import run_parallel
    run_parallel(ctx, 'harness.c03', 'work', [c for c in cases if 'desc' in c], nproc=4 if ctx.quick() else None)
    if not replay:
        dist_checks(ctx, drv)
    return finish(ctx, aud,
                  partial=['the exponent with which (1 - v) is applied (3x in Optic.trace, 2x in trace_generic) is '
                           'mirrored by the model, the property only requires shrinking'],
                  assumptions=['EPL/EPD come from the paraxial model (property C04)',
                               'cos/sin of NumPy and libm agree to 1e-11 absolute'])
