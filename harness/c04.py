"""C04  Paraxial properties equal matrix optics.
Correspondence: every public `Paraxial` query on the implementation vs the Lean model
(`Model/Parax.lean` at Float, native driver).  Failing-input search predicate: the
implementation vs an independent ABCD-matrix specification written here in plain Python."""
import math
import numpy as np
from .core import fhex, b01, Toks, Driver, Ctx, audit, finish
from . import lensgen

SCALARS = ['f1', 'f2', 'F1', 'F2', 'P1', 'P2', 'N1', 'N2', 'EPL', 'EPD', 'XPL', 'XPD', 'FNO',
           'magnification', 'invariant']


def surf_tokens(optic, w):
    from optiland.surfaces.object_surface import ObjectSurface
    from optiland.surfaces.image_surface import ImageSurface
    toks = [str(len(optic.surface_group.surfaces))]
    for s in optic.surface_group.surfaces:
        kind = 'o' if isinstance(s, ObjectSurface) else 'i' if isinstance(s, ImageSurface) else 's'
        cs = s.geometry.cs
        n1 = s.material_pre.n(w) if s.material_pre is not None else s.material_post.n(w)
        n2 = s.material_post.n(w)
        toks += [kind, fhex(cs.y), fhex(np.ravel(cs.z)[0]), fhex(s.geometry.radius), fhex(np.ravel(n1)[0]),
                 fhex(np.ravel(n2)[0]), b01(s.is_reflective), b01(s.is_stop)]
    return toks


def sys_tokens(optic):
    w = optic.primary_wavelength
    ap = optic.aperture
    return [ap.ap_type, fhex(ap.value), 'angle' if optic.field_type == 'angle' else 'object_height',
            fhex(optic.fields.max_y_field), b01(optic.object_surface.is_infinite)] + surf_tokens(optic, w)


def impl_all(optic):
    p = optic.paraxial
    vals = {}
    for name in SCALARS:
        try:
            vals[name] = float(np.ravel(getattr(p, name)())[0])
        except Exception as e:  # noqa
            vals[name] = ('error', type(e).__name__)
    rays = {}
    for name in ('marginal_ray', 'chief_ray'):
        try:
            y, u = getattr(p, name)()
            rays[name] = (np.ravel(y).tolist(), np.ravel(u).tolist())
        except Exception as e:  # noqa
            rays[name] = ('error', type(e).__name__)
    return vals, rays


# ------------------------------------------------------------------ independent specification
def mat_mul(a, b):
    return [[a[0][0] * b[0][0] + a[0][1] * b[1][0], a[0][0] * b[0][1] + a[0][1] * b[1][1]],
            [a[1][0] * b[0][0] + a[1][1] * b[1][0], a[1][0] * b[0][1] + a[1][1] * b[1][1]]]


def spec_elements(optic):
    """Per optical surface (index >= 1): curvature, signed indices (sign flips at every mirror),
    vertex z.  Mirrors are treated as index sign reversal."""
    w = optic.primary_wavelength
    out = []
    sigma = 1.0
    surfs = optic.surface_group.surfaces
    for s in surfs[1:]:
        R = s.geometry.radius
        c = 0.0 if np.isinf(R) else 1.0 / R
        n1 = sigma * float(np.ravel(s.material_pre.n(w))[0])
        if s.is_reflective:
            sigma = -sigma
            n2 = -n1
        else:
            n2 = sigma * float(np.ravel(s.material_post.n(w))[0])
        out.append({'c': c, 'n1': n1, 'n2': n2, 'z': float(np.ravel(s.geometry.cs.z)[0]),
                    'stop': s.is_stop, 'image_class': type(s).__name__ == 'ImageSurface'})
    return out


def refr(e):
    if e['image_class']:
        return [[1.0, 0.0], [0.0, 1.0]]
    return [[1.0, 0.0], [-(e['n2'] - e['n1']) * e['c'] / e['n2'], e['n1'] / e['n2']]]


def trans(t):
    return [[1.0, t], [0.0, 1.0]]


def spec_trace(els, y, u, z):
    """(y,u) after each optical surface for a ray given at axial position z"""
    ys, us = [], []
    for e in els:
        y = y + (e['z'] - z) * u
        z = e['z']
        m = refr(e)
        y, u = m[0][0] * y + m[0][1] * u, m[1][0] * y + m[1][1] * u
        ys.append(y)
        us.append(u)
    return ys, us


def spec_all(optic):
    els = spec_elements(optic)
    sp = {}
    # system matrix from just before S1 to just after the last surface
    M = [[1.0, 0.0], [0.0, 1.0]]
    z = els[0]['z']
    for e in els:
        M = mat_mul(refr(e), mat_mul(trans(e['z'] - z), M))
        z = e['z']
    A, B, C, D = M[0][0], M[0][1], M[1][0], M[1][1]
    sp['f2'] = -1.0 / C if C != 0 else math.nan
    sp['F2'] = -A / C if C != 0 else math.nan
    # entrance pupil: image of the stop centre through the surfaces in front of it
    k = [i for i, e in enumerate(els) if e['stop']]
    if k:
        k = k[0]
        Mp = [[1.0, 0.0], [0.0, 1.0]]
        z = els[0]['z']
        for e in els[:k]:
            Mp = mat_mul(refr(e), mat_mul(trans(e['z'] - z), Mp))
            z = e['z']
        Mp = mat_mul(trans(els[k]['z'] - z), Mp)
        sp['EPL'] = Mp[0][1] / Mp[0][0] + els[0]['z'] if Mp[0][0] != 0 else math.nan
        # exit pupil: image of the stop centre through the surfaces behind it (stop's own refraction included)
        Mx = refr(els[k])
        z = els[k]['z']
        for e in els[k + 1:]:
            Mx = mat_mul(refr(e), mat_mul(trans(e['z'] - z), Mx))
            z = e['z']
        sp['XPL'] = -Mx[0][1] / Mx[1][1] if Mx[1][1] != 0 else math.nan
    ap = optic.aperture
    obj = optic.object_surface
    w = optic.primary_wavelength
    if 'EPL' in sp:
        if ap.ap_type == 'EPD':
            sp['EPD'] = ap.value
        elif ap.ap_type == 'imageFNO':
            sp['EPD'] = abs(sp['f2']) / ap.value
        else:
            n0 = float(np.ravel(obj.material_post.n(w))[0])
            sp['EPD'] = 2 * (sp['EPL'] - float(np.ravel(obj.geometry.cs.z)[0])) * math.tan(math.asin(ap.value / n0))
        sp['FNO'] = ap.value if ap.ap_type == 'imageFNO' else abs(sp['f2']) / sp['EPD']
        # marginal ray
        if obj.is_infinite:
            my, mu = spec_trace(els, sp['EPD'] / 2, 0.0, els[0]['z'] - 10)
            u0 = 0.0
        else:
            zo = float(np.ravel(obj.geometry.cs.z)[0])
            u0 = sp['EPD'] / (2 * (sp['EPL'] - zo))
            my, mu = spec_trace(els, 0.0, u0, zo)
        sp['marginal'] = (my, mu)
        n0 = float(np.ravel(obj.material_post.n(w))[0])
        # mirrors are index sign reversal: the image-space index carries (-1)^(number of mirrors)
        n_img = float(np.ravel(optic.surface_group.surfaces[-1].material_post.n(w))[0]) * \
            (-1) ** sum(1 for s in optic.surface_group.surfaces if s.is_reflective)
        sp['magnification'] = n0 * u0 / (n_img * mu[-1]) if mu[-1] != 0 else math.nan
        sp['XPD'] = 2 * (my[-1] + mu[-1] * sp['XPL'])
        # chief ray: through the centre of the entrance pupil
        fmax = float(optic.fields.max_y_field)
        if optic.field_type == 'angle':
            uc = math.tan(math.radians(fmax))
            # ray through (z=EPL, y=0) with slope uc, given at z = z(S1)
            cy, cu = spec_trace(els, (els[0]['z'] - sp['EPL']) * uc, uc, els[0]['z'])
        else:
            if obj.is_infinite:
                cy = cu = None
            else:
                zo = float(np.ravel(obj.geometry.cs.z)[0])
                uc = fmax / (sp['EPL'] - zo)
                cy, cu = spec_trace(els, -fmax, uc, zo)
        sp['chief'] = (cy, cu)
    sp['els'] = els
    return sp


def rel_ok(a, b, rtol=1e-7, atol=1e-9):
    if isinstance(a, tuple) or isinstance(b, tuple):
        return True
    if not (math.isfinite(a) and math.isfinite(b)):
        return True   # degenerate system (zero power etc.): outside the guards of the theorems
    return abs(a - b) <= atol + rtol * max(abs(a), abs(b))


def predicate(ctx, optic, case, vals, rays):
    """the property's own clauses evaluated on the implementation"""
    try:
        sp = spec_all(optic)
    except Exception as e:  # noqa
        ctx.count('spec_error')
        return
    for name in ('F2', 'EPL', 'XPL', 'EPD', 'magnification'):
        if name in sp and name in vals and not rel_ok(vals[name], sp[name]):
            ctx.fail('%s equals matrix optics' % name, case, vals[name], sp[name])
    if 'f2' in sp and not rel_ok(vals['f2'], sp['f2']):
        ctx.fail('f2 equals -1/C', case, vals['f2'], sp['f2'])
    # marginal ray = launched ray through the matrices
    if 'marginal' in sp and rays['marginal_ray'][0] != 'error':
        y, u = rays['marginal_ray']
        my, mu = sp['marginal']
        for k in range(len(my)):
            if not (rel_ok(y[k + 1], my[k], 1e-7, 1e-8) and rel_ok(u[k + 1], mu[k], 1e-7, 1e-9)):
                ctx.fail('marginal ray equals matrix trace at surface %d' % (k + 1), case,
                         [y[k + 1], u[k + 1]], [my[k], mu[k]])
                break
    if sp.get('chief') and sp['chief'][0] is not None and rays['chief_ray'][0] != 'error':
        y, u = rays['chief_ray']
        cy, cu = sp['chief']
        bad = None
        for k in range(len(cy)):
            if not (rel_ok(y[k + 1], cy[k], 1e-7, 1e-8) and rel_ok(u[k + 1], cu[k], 1e-7, 1e-9)):
                bad = k
                break
        if bad is not None and all(math.isfinite(v) for v in cy + cu):
            ctx.fail('chief ray passes through the stop centre with the requested field (surface %d)' % (bad + 1),
                     case, [y[bad + 1], u[bad + 1]], [cy[bad], cu[bad]])
    # Lagrange invariant constant over surfaces (signed indices)
    if rays['marginal_ray'][0] != 'error' and rays['chief_ray'][0] != 'error':
        ya, ua = rays['marginal_ray']
        yb, ub = rays['chief_ray']
        els = sp['els']
        invs = []
        for k, e in enumerate(els):
            n2 = e['n1'] if e['image_class'] else e['n2']
            invs.append(n2 * (yb[k + 1] * ua[k + 1] - ya[k + 1] * ub[k + 1]))
        fin = [v for v in invs if math.isfinite(v)]
        if len(fin) == len(invs) and fin:
            spread = max(fin) - min(fin)
            scale = max(abs(v) for v in fin) + 1e-12
            mag = max(max(abs(v) for v in ya), max(abs(v) for v in yb)) * max(max(abs(v) for v in ua),
                                                                                max(abs(v) for v in ub)) + 1e-12
            if spread > 1e-9 * max(scale, mag):
                ctx.fail('Lagrange invariant has one value at every surface', case, invs, None)
    # linearity of generic traces
    p = optic.paraxial
    w = optic.primary_wavelength
    z0 = float(np.ravel(optic.surface_group.positions[1])[0]) - 1.0
    try:
        y1, u1 = [np.ravel(v).copy() for v in p._trace_generic(1.0, 0.0, z0, w)]
        y2, u2 = [np.ravel(v).copy() for v in p._trace_generic(0.0, 1.0, z0, w)]
        a, b = 0.75, -1.5
        y3, u3 = [np.ravel(v).copy() for v in p._trace_generic(a, b, z0, w)]
        for k in range(len(y3)):
            ey, eu = a * y1[k] + b * y2[k], a * u1[k] + b * u2[k]
            if not (rel_ok(float(y3[k]), float(ey), 1e-9, 1e-9) and rel_ok(float(u3[k]), float(eu), 1e-9, 1e-9)):
                ctx.fail('paraxial ray data are linear in launch height and slope', case,
                         [float(y3[k]), float(u3[k])], [float(ey), float(eu)])
                break
    except Exception:
        ctx.count('linearity_error')
        return
    # the same through the public route: ParaxialRays built from the caller's NumPy arrays (the position array is
    # shared between the two bundles) and SurfaceGroup.trace
    try:
        from optiland.rays import ParaxialRays
        sg = optic.surface_group
        zarr = np.array([z0, z0])
        warr = np.array([w, w])
        yA, uA = np.array([1.0, 0.0]), np.array([0.0, 1.0])
        sg.trace(ParaxialRays(yA, uA, zarr, warr))
        YA, UA = np.array(sg.y, dtype=float).copy(), np.array(sg.u, dtype=float).copy()
        yB, uB = np.array([a, 2.0]), np.array([b, 0.5])
        sg.trace(ParaxialRays(yB, uB, zarr, warr))
        YB, UB = np.array(sg.y, dtype=float).copy(), np.array(sg.u, dtype=float).copy()
        for k in range(YA.shape[0]):
            for col, (ca, cb) in enumerate(((a, b), (2.0, 0.5))):
                ey, eu = ca * YA[k, 0] + cb * YA[k, 1], ca * UA[k, 0] + cb * UA[k, 1]
                if not (rel_ok(float(YB[k, col]), float(ey), 1e-9, 1e-9) and
                        rel_ok(float(UB[k, col]), float(eu), 1e-9, 1e-9)):
                    ctx.fail('paraxial ray data are linear in launch height and slope (ParaxialRays + '
                             'SurfaceGroup.trace, bundles sharing their position array)', case,
                             [float(YB[k, col]), float(UB[k, col])], [float(ey), float(eu)])
                    return
        ctx.count('linearity through ParaxialRays checked')
    except Exception as e:  # noqa
        ctx.count('linearity_error (ParaxialRays route): ' + type(e).__name__)


def cases(ctx):
    out = [{'sample': n} for n, _ in lensgen.sample_classes()]
    n = 400 if ctx.quick() else 30000
    for i in range(n):
        stop = ctx.rng.choice(['first', 'interior', 'last', 'any'])
        d = lensgen.gen_lens(ctx.rng, stop=stop, allow_asphere=ctx.rng.random() < 0.2)
        if d['surfaces'][0]['thickness'] != 'inf' and d['surfaces'][1]['material']['kind'] in ('ideal', 'catalog') \
                and ctx.rng.random() < 0.35:
            # (only when the first surface ends the object medium: behind a mirror or an air/air surface the immersion
            #  medium would reach the image surface, which the factory declares as air - the immersed-image special case)
            # object immersed (water, oil, ...): the object-space index enters the numerical aperture and the invariant
            d['surfaces'][0]['material'] = {'kind': 'ideal', 'n': lensgen.dyadic(ctx.rng, 1.2, 1.7, 6)}
        out.append({'desc': d})
        if ctx.rng.random() < 0.06:
            # a folded system: the stop is the last powered surface, behind it only planes, one of them a fold mirror
            # (negative gap after it) - the exit pupil is the image of the stop in that mirror
            rng = ctx.rng
            df = lensgen.gen_lens(rng, stop='last', allow_mirror=False, nsurf=rng.randint(1, 5))
            img = df['surfaces'].pop()
            last = df['surfaces'][-1]
            last['material'] = {'kind': 'air'}
            last['thickness'] = lensgen.dyadic(rng, 2, 40, 3)
            extra = []
            if rng.random() < 0.5:
                extra.append({'radius': 'inf', 'material': {'kind': 'air'}, 'thickness': lensgen.dyadic(rng, 1, 20, 3)})
            extra.append({'radius': 'inf', 'material': {'kind': 'mirror'}, 'thickness': -lensgen.dyadic(rng, 5, 60, 3)})
            if rng.random() < 0.4:
                extra.append({'radius': 'inf', 'material': {'kind': 'air'}, 'thickness': -lensgen.dyadic(rng, 1, 20, 3)})
            df['surfaces'] += extra + [img]
            for q, su in enumerate(df['surfaces']):
                su['index'] = q
            out.append({'desc': df})
        if ctx.rng.random() < 0.35:
            # the same lens queried, edited through the public setters, and queried again: results must follow
            # the *current* prescription (stale caches, in-place aliasing)
            ns = len(d['surfaces'])
            edits = []
            for _ in range(ctx.rng.randint(1, 3)):
                k = ctx.rng.randint(1, ns - 2)
                u = ctx.rng.random()
                nxt_mirror = any(d['surfaces'][q].get('material', {}).get('kind') == 'mirror' for q in (k, k + 1))
                if u < 0.45 and k <= ns - 3 and not nxt_mirror:
                    # (not behind the last optical surface: the image space stays air; not in front of a mirror:
                    #  set_index does not touch the mirror's back medium, which is the same object by construction)
                    edits.append(['si', lensgen.dyadic(ctx.rng, 1.3, 2.0, 8), k])
                elif u < 0.75:
                    edits.append(['sr', lensgen.dyadic(ctx.rng, 15, 300, 3) * ctx.rng.choice([1, -1]), k])
                else:
                    edits.append(['st', lensgen.dyadic(ctx.rng, 0.5, 30, 4), k])
            out.append({'desc': d, 'edits': edits})
    return out


def work(ctx, cs):
    drv = Driver()
    lines, keep = [], []
    for case in cs:
        try:
            optic = lensgen.build_case(case)
        except Exception as e:  # noqa
            ctx.count('build_error:' + type(e).__name__)
            continue
        if case.get('edits'):
            from . import c01
            impl_all(optic)                    # first round of queries on the unedited lens
            bad = False
            for e in case['edits']:
                if c01.apply_op(optic, tuple(e)) is not None:
                    bad = True
            if bad:
                ctx.count('edit raised')
                continue
            ctx.count('edited-then-requeried')
        vals, rays = impl_all(optic)
        try:
            lines.append('paraxall ' + ' '.join(sys_tokens(optic)))
        except Exception as e:  # noqa
            ctx.count('encode_error:' + type(e).__name__)
            continue
        keep.append((case, optic, vals, rays))
    outs = drv.batch(lines)
    for (case, optic, vals, rays), out in zip(keep, outs):
        t = Toks(out)
        nontrivial = isinstance(vals['f2'], float) and math.isfinite(vals['f2'])
        ctx.case(case, nontrivial)
        ctx.count('nsurf=%d' % len(optic.surface_group.surfaces))
        ctx.count('ap=' + optic.aperture.ap_type)
        ctx.count('field=' + str(optic.field_type))
        ctx.count('obj=' + ('inf' if optic.object_surface.is_infinite else 'finite'))
        ctx.count('mirrors' if any(s.is_reflective for s in optic.surface_group.surfaces) else 'no-mirror')
        if t.error:
            ctx.disagreements.append({'what': 'driver error', 'model': out, 'case': case})
            continue
        m = t.floats(len(SCALARS))
        for name, mv in zip(SCALARS, m):
            iv = vals[name]
            if isinstance(iv, tuple):
                ctx.count('impl_error:' + name)
                continue
            ctx.cmp(name, iv, mv, case)
        for rname in ('marginal_ray', 'chief_ray'):
            k = t.nat()
            yu = t.floats(2 * k)
            if rays[rname][0] == 'error':
                ctx.count('impl_error:' + rname)
                continue
            y, u = rays[rname]
            ctx.cmp_list(rname + '.y', y, yu[0::2], case)
            ctx.cmp_list(rname + '.u', u, yu[1::2], case)
        predicate(ctx, optic, case, vals, rays)


def run(tier, seed, replay=None):
    ctx = Ctx('C04', tier, seed)
    ctx.stats['rule'] = ('24 bundled samples + random lenses (1-12 surfaces, mirrors, conics, finite/infinite object, '
                         'EPD/imageFNO/objectNA, angle/object_height fields, stop first/interior/last); a case is '
                         'non-trivial when the lens builds and has finite focal length; distinct by descriptor hash')
    aud = audit('C04')
    cs = [replay] if replay else cases(ctx)
    from .core import run_parallel
    run_parallel(ctx, 'harness.c04', 'work', cs, nproc=4 if ctx.quick() else None)
    return finish(ctx, aud,
                  partial=['EPL/XPL are stop conjugates: checked against the matrix specification numerically, no theorem yet'],
                  assumptions=['scalar NumPy float64 arithmetic is IEEE-754 and deterministic',
                               'refractive indices are taken from the implementation at the primary wavelength '
                               '(material models are the subject of C18)'])
