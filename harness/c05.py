"""C05  Real rays converge to the paraxial prediction as aperture and field vanish.
Correspondence: the real tracer of `Model/Real.lean` evaluated over first-order jets
(driver command `jet`, forward-mode derivative at the axial ray) vs the implementation's
paraxial marginal and chief rays at every surface.  Predicate: on the implementation,
real rays at eps = 2^-k vs eps x paraxial values: discrepancy shrinks at least quadratically."""
import math
import numpy as np
from .core import fhex, Toks, Driver, Ctx, audit, finish
from . import lensgen, realenc


def gen_case(rng):
    d = lensgen.gen_lens(rng, allow_asphere=rng.random() < 0.4, allow_tilt=False, allow_conic=True,
                         nsurf=rng.randint(1, 9), finite_object=rng.random() < 0.35,
                         stop=rng.choice(['first', 'interior', 'last', 'any']))
    r2 = False
    for s in d['surfaces']:
        if s.get('surface_type') == 'even_asphere':
            if rng.random() < 0.85:
                s['coefficients'] = [0.0] + s['coefficients'][:2]     # no r^2 term: vertex curvature = 1/R
            elif s['coefficients'][0] != 0:
                r2 = True
    case = {'desc': d, 'r2_term': r2}
    if rng.random() < 0.25:
        # per-field vignetting factors: the pupil of the axial bundle is compressed by (1 - v)^2 in trace_generic;
        # v at the axial field point is taken from the descriptor (np.interp clamps to the field of smallest y)
        for f in d['fields']:
            f += [0.0, lensgen.dyadic(rng, 0, 0.5, 5), lensgen.dyadic(rng, 0, 0.5, 5)]
        if min(f[0] for f in d['fields']) >= 0:
            case['vy0'] = min(d['fields'], key=lambda f: f[0])[3]
        else:
            for f in d['fields']:
                del f[1:]
    return case


def paraxial_rays(optic):
    p = optic.paraxial
    ya, ua = p.marginal_ray()
    yb, ub = p.chief_ray()
    return np.ravel(ya), np.ravel(ua), np.ravel(yb), np.ravel(ub)


def eps_sequence(quick):
    return [2.0 ** -k for k in (range(3, 11) if quick else range(2, 13))]


def real_scaled(optic, kind, eps, w, vy0=0.0):
    """real ray of type `kind` ('marginal'|'chief') at scale eps -> (y_j, tan_j) per surface, and the scale g"""
    if kind == 'marginal':
        optic.trace_generic(0.0, 0.0, 0.0, float(eps), w)
        g = eps * (1.0 - vy0) ** 2        # trace_generic compresses the pupil twice by (1 - v) (see C03)
    else:
        optic.trace_generic(0.0, float(eps), 0.0, 0.0, w)
        fmax = float(optic.fields.max_y_field)
        if optic.field_type == 'angle':
            g = math.tan(math.radians(eps * fmax)) / math.tan(math.radians(fmax)) if fmax != 0 else 0.0
        else:
            g = eps
    sg = optic.surface_group
    if np.atleast_1d(sg.surfaces[0].N)[0] <= 0:
        raise RuntimeError('launched backwards')
    y = np.array([np.atleast_1d(s.y)[0] for s in sg.surfaces])
    M = np.array([np.atleast_1d(s.M)[0] for s in sg.surfaces])
    N = np.array([np.atleast_1d(s.N)[0] for s in sg.surfaces])
    return y, M / N, g


def fit_slope(es, errs, floor):
    pts = [(math.log(e), math.log(v)) for e, v in zip(es, errs) if v > floor and math.isfinite(v)]
    pts = pts[-5:]          # asymptotic regime: the smallest scale factors that are still above the noise floor
    if len(pts) < 3:
        return None
    x = np.array([p[0] for p in pts])
    yv = np.array([p[1] for p in pts])
    return float(np.polyfit(x, yv, 1)[0])


def predicate(ctx, optic, case, par, w):
    ya, ua, yb, ub = par
    es = eps_sequence(ctx.quick())
    nsurf = len(ya)
    stop = optic.surface_group.stop_index
    has_parabola = any(abs(1 + float(getattr(s.geometry, 'k', 0.0))) < 1e-9 and not math.isinf(float(s.geometry.radius))
                       for s in optic.surface_group.surfaces)
    for kind, yp, up in (('marginal', ya, ua), ('chief', yb, ub)):
        if kind == 'chief' and float(optic.fields.max_y_field) == 0:
            continue
        if kind == 'chief' and optic.obj_space_telecentric:
            # declared telecentric object space: the zero-pupil ray is launched parallel to the axis by
            # definition, not through the stop centre (outside the quantifier, see DESIGN section 7)
            ctx.count('pred: chief-type skipped (declared telecentric object space)')
            continue
        if not (np.all(np.isfinite(yp)) and np.all(np.isfinite(up))):
            ctx.count('pred: paraxial ray not finite (degenerate lens)')
            continue
        # "small aperture and field" is relative to the lens: the full-scale paraxial ray of a nearly afocal lens
        # with an F-number aperture can be metres high (EPD = |f2|/FNO).  The scale factors start where the ray
        # height is at most a quarter of the smallest radius of curvature.
        rmin = min([abs(float(s.geometry.radius)) for s in optic.surface_group.surfaces
                    if math.isfinite(float(s.geometry.radius)) and float(s.geometry.radius) != 0] or [math.inf])
        hmax = float(np.max(np.abs(yp)))
        shrink = 1.0
        while hmax * shrink * es[0] > 0.25 * rmin and shrink > 2.0 ** -30:
            shrink *= 0.5
        if shrink < 1.0:
            ctx.count('pred: scale factors reduced to the size of the lens (x 2^%d)' % round(math.log2(shrink)))
        es_k = [e * shrink for e in es]
        ys, ts, gs = [], [], []
        ok = True
        for e in es_k:
            try:
                y, t, g = real_scaled(optic, kind, e, w, vy0=float(case.get('vy0', 0.0)))
            except RuntimeError:
                # entrance pupil behind the starting plane: RayGenerator aims the ray backwards (observation
                # F25 in DESIGN.md; not a clause of C05) - outside the domain
                ctx.count('pred: ray launched backwards (entrance pupil behind the start plane)')
                ok = False
                break
            except Exception as ex:  # noqa
                ok = False
                break
            ys.append(y); ts.append(t); gs.append(g)
        if not ok or any(g == 0 for g in gs):
            ctx.count('pred: real trace failed')
            continue
        scale_y = max(1e-9, float(np.max(np.abs(yp))))
        scale_u = max(1e-9, float(np.max(np.abs(up))))
        for j in range(1, nsurf):
            ey = [abs(ys[k][j] / gs[k] - yp[j]) / scale_y for k in range(len(es))]
            et = [abs(ts[k][j] / gs[k] - up[j]) / scale_u for k in range(len(es))]
            if not all(math.isfinite(v) for v in ey + et):
                ctx.count('pred: real ray lost at some eps')
                break
            key = 'asphere-r2-term' if case.get('r2_term') else None
            if kind == 'chief' and optic.field_type == 'object_height' and key is None:
                # F24: the paraxial chief ray belongs to the object point -H, the real generator starts at +H
                ey2 = [abs(ys[k][j] / gs[k] + yp[j]) / scale_y for k in range(len(es))]
                et2 = [abs(ts[k][j] / gs[k] + up[j]) / scale_u for k in range(len(es))]
                if ey2[-1] < 1e-2 * max(ey[-1], et[-1]) and et2[-1] < 1e-2 * max(ey[-1], et[-1]) and \
                        ((fit_slope(es, ey2, 1e-11) or 2.0) >= 1.8 or has_parabola):     # (F23 noise spoils the rate)
                    ctx.fail('real chief-ray values / eps converge to the paraxial chief ray (sign)', case,
                             {'real/eps': [ys[-1][j] / gs[-1], ts[-1][j] / gs[-1]], 'paraxial': [yp[j], up[j]]},
                             finding_key='chief-object-height-sign')
                    break
            for what, errs in (('height', ey), ('tangent', et)):
                # limit: at the smallest eps the discrepancy must be small
                if errs[-1] > 1e-4 * max(1.0, errs[0] / max(es[0] ** 2, 1e-300) * es[-1] ** 2 * 1e4):
                    fk = key
                    if fk is None and has_parabola and min(errs) < 1e-6 and errs[-1] > 10 * min(errs):
                        # F23b: the discrepancy *grows* again as eps shrinks - rounding noise of the conic quadratic
                        # (a = L^2 + M^2 -> 0 for k = -1), not a failure to converge
                        fk = 'conic-quadratic-cancellation'
                    ctx.fail('real %s-ray %s / eps converges to the paraxial value at surface %d' % (kind, what, j),
                             case, {'eps': es[-1], 'relative_discrepancy': errs[-1], 'errors': errs}, finding_key=fk)
                    return
                slope = fit_slope(es, errs, 1e-11)
                if max(errs) < 1e-7:
                    slope = None      # already at numerical precision at the largest scale: no rate to measure
                if slope is not None and slope < 1.8 and has_parabola and min(errs) < 1e-6:
                    # F23: for k = -1 the quadratic (-b +- sqrt d)/(2a) has a = L^2+M^2 -> 0 with the ray slope;
                    # rounding noise ~ 1e-16/eps^3 takes over before the O(eps^2) regime can be followed
                    ctx.fail('discrepancy of the real %s-ray %s shrinks at least quadratically (surface %d)'
                             % (kind, what, j), case, {'slope': slope, 'errors': errs},
                             finding_key='conic-quadratic-cancellation')
                    return
                if slope is not None and slope < 1.8:
                    ctx.fail('discrepancy of the real %s-ray %s shrinks at least quadratically (surface %d)'
                             % (kind, what, j), case, {'slope': slope, 'errors': errs}, finding_key=key)
                    return
        if kind == 'chief' and stop is not None:
            v = abs(ys[-1][stop] / gs[-1]) / scale_y
            if math.isfinite(v) and v > 1e-4:
                ctx.fail('zero-pupil ray of the field tends to the centre of the aperture stop', case, v)
                return
        ctx.count('pred: %s sequence checked' % kind)


def work(ctx, cases):
    drv = Driver()
    lines, keep = [], []
    for case in cases:
        try:
            optic = lensgen.build_case(case)
            w = optic.primary_wavelength
            if case.get('edits'):
                from . import c01
                paraxial_rays(optic)
                optic.trace_generic(0.0, 0.5, 0.0, 0.5, w)      # warm any cache with the unedited lens
                for e in case['edits']:
                    c01.apply_op(optic, tuple(e))
                ctx.count('edited-then-requeried')
            par = paraxial_rays(optic)
            toks = realenc.lens_tokens(optic, w)
        except Exception as e:  # noqa
            ctx.count('build/paraxial error:' + type(e).__name__)
            continue
        obj = optic.object_surface
        pos1 = float(np.ravel(optic.surface_group.positions[1])[0])
        z_m = pos1 - 10.0 if obj.is_infinite else float(np.ravel(obj.geometry.cs.z)[0])
        # chief seed one unit in front of the first vertex (a zero-length first segment is not differentiable:
        # the Newton-Raphson geometries return a Euclidean norm)
        seeds = [(par[0][0], par[1][0], z_m), (par[2][0] - par[3][0], par[3][0], pos1 - 1.0)]
        if not all(math.isfinite(v) for s in seeds for v in s):
            ctx.count('degenerate paraxial rays')
            continue
        lines.append('jet ' + ' '.join(toks) + ' 2 ' + ' '.join(fhex(v) for s in seeds for v in s))
        keep.append((case, optic, w, par))
    outs = drv.batch(lines)
    for (case, optic, w, par), out in zip(keep, outs):
        ctx.case(case)
        t = Toks(out)
        if t.error:
            ctx.disagreements.append({'what': 'driver', 'model': out[:100], 'case': case})
            continue
        nsurf = len(par[0])
        vals = np.array(t.floats(nsurf * 2 * 4)).reshape(nsurf, 2, 4)
        ya, ua, yb, ub = par
        has_r2 = any(type(s.geometry).__name__ == 'EvenAsphere' and len(s.geometry.c) > 0 and s.geometry.c[0] != 0
                     for s in optic.surface_group.surfaces)
        ctx.count('lens with r^2 asphere term' if has_r2 else 'lens without r^2 term')
        bad = None
        for j in range(1, nsurf):
            for r, (yp, up) in enumerate(((ya, ua), (yb, ub))):
                dy, du, vy, vu = vals[j, r]
                if not (math.isfinite(yp[j]) and math.isfinite(up[j])):
                    continue
                if not (math.isfinite(dy) and math.isfinite(du)):
                    ctx.count('jet not defined (norm of a zero-length segment / degenerate surface)')
                    continue
                sy = max(1e-9, float(np.max(np.abs(yp))))
                su = max(1e-9, float(np.max(np.abs(up))))
                if has_r2:
                    if abs(dy - yp[j]) > 1e-8 * sy or abs(du - up[j]) > 1e-8 * su:
                        bad = (j, r)
                    continue
                ctx.cmp('jet.y[s%d,%s]' % (j, 'mc'[r]), yp[j], dy, case, rtol=1e-8, atol=1e-9 * sy)
                ctx.cmp('jet.u[s%d,%s]' % (j, 'mc'[r]), up[j], du, case, rtol=1e-8, atol=1e-9 * su)
        if has_r2 and bad is not None:
            # F20: the paraxial tracer ignores the r^2 coefficient of an even asphere
            ctx.fail('first-order behaviour of the real trace equals the paraxial trace (surface %d)' % bad[0],
                     case, 'paraxial trace uses geometry.radius only', finding_key='asphere-r2-term')
        case2 = dict(case)
        case2['r2_term'] = has_r2
        predicate(ctx, optic, case2, par, w)


def run(tier, seed, replay=None):
    ctx = Ctx('C05', tier, seed)
    ctx.stats['rule'] = ('24 samples + random axially symmetric lenses (planes, conics, even aspheres without r^2 term, '
                         'mirrors, finite/infinite object, any stop position); eps = 2^-k over > 2 decades for '
                         'marginal-type and chief-type rays; distinct by descriptor hash')
    aud = audit('C05')
    if replay:
        cases = [replay]
    else:
        cases = [{'sample': n} for n, _ in lensgen.sample_classes()]
        cases += [gen_case(ctx.rng) for _ in range(150 if ctx.quick() else 5000)]
        extra = []
        for c in cases:
            if 'desc' in c and ctx.rng.random() < 0.25:
                ns = len(c['desc']['surfaces'])
                k = ctx.rng.randint(1, ns - 2)
                if k > ns - 3 or any(c['desc']['surfaces'][q].get('material', {}).get('kind') == 'mirror' for q in (k, k + 1)):
                    continue
                e = dict(c)
                e['edits'] = [['si', lensgen.dyadic(ctx.rng, 1.3, 2.0, 8), k]]
                extra.append(e)
        cases += extra
    from .core import run_parallel
    run_parallel(ctx, 'harness.c05', 'work', cases, nproc=4 if ctx.quick() else None)
    return finish(ctx, aud,
                  partial=['rate of convergence (O(eps^2)) is measured, not proved',
                           'the whole-lens jet theorem (traceLens_jet / mtrace_jet: conic and plane surfaces, mirrors, '
                           'image) starts from the paraxial launch data; the launch of RayGenerator itself over jets '
                           '(marginal_jet_partial, chief_jet_partial) and aspheres are exercised through the jet driver'],
                  assumptions=['forward-mode (dual-number) evaluation computes the derivative of the composite'])
