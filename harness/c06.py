"""C06  Analytically stigmatic systems are imaged perfectly.
Closed-form configurations are built through the public API with random parameters, traced
by the implementation and checked against the closed form (image point, equal optical paths,
zero wavefront error, unit Strehl ratio); the same lenses and rays go through the model
(`Model/Real.lean`) for the correspondence."""
import math, zlib, json
import numpy as np
from .core import Driver, Ctx, audit, finish
from . import lensgen, c02, realenc
from .lensgen import dyadic

W = 0.55
AIR = {'kind': 'air'}


def base(surfaces, aperture, field_type='angle'):
    for i, s in enumerate(surfaces):
        s['index'] = i
    return {'surfaces': surfaces, 'aperture': aperture, 'field_type': field_type, 'fields': [[0.0]],
            'wavelengths': [[W, 1]]}


def cfg_paraboloid(rng):
    R = -dyadic(rng, 20, 400, 2)
    if rng.random() < 0.3:
        R = -R            # convex side: rays reflect away, focus virtual -> use the concave one mostly
        R = -abs(R)
    f = abs(R) / 2
    fno = rng.choice([0.6, 0.8, 1.0, 2.0, 5.0]) if rng.random() < 0.7 else rng.uniform(0.6, 10)
    epd = f / fno
    d = base([{'radius': 'inf', 'thickness': 'inf', 'material': AIR},
              {'radius': R, 'conic': -1.0, 'thickness': R / 2, 'material': {'kind': 'mirror'}, 'is_stop': True},
              {'radius': 'inf', 'thickness': 0, 'material': AIR}], ['EPD', epd])
    return {'name': 'paraboloid mirror, object at infinity', 'desc': d, 'image': (0.0, R / 2), 'real': True,
            'params': {'R': R, 'fno': fno}}


def cfg_folded_paraboloid(rng):
    """collimated light folded by a flat mirror, then a paraboloid met while travelling towards -z (R > 0)"""
    R = dyadic(rng, 20, 400, 2)
    f = R / 2
    fno = rng.choice([0.6, 0.8, 1.0, 2.0, 5.0]) if rng.random() < 0.7 else rng.uniform(0.6, 10)
    epd = f / fno
    # the fold mirror stands clear of the paraboloid's rim (edge sag r^2 / 2R): otherwise part of the paraboloid
    # lies behind the plane the rays leave from, which no physical lay-out has
    dist = math.ceil((epd / 2) ** 2 / (2 * R)) + dyadic(rng, 5, 300, 2)
    d = base([{'radius': 'inf', 'thickness': 'inf', 'material': AIR},
              {'radius': 'inf', 'thickness': -dist, 'material': {'kind': 'mirror'}},
              # (the paraboloid is the stop: with the stop on the fold mirror and dist = R/2 the exit pupil would lie
              #  in the image plane - a reference sphere of radius 0)
              {'radius': R, 'conic': -1.0, 'thickness': R / 2, 'material': {'kind': 'mirror'}, 'is_stop': True},
              {'radius': 'inf', 'thickness': 0, 'material': AIR}], ['EPD', epd])
    return {'name': 'paraboloid mirror behind a flat fold mirror, object at infinity', 'desc': d,
            'image': (0.0, -dist + R / 2), 'real': True, 'params': {'R': R, 'fno': fno, 'dist': dist}}


def cfg_ellipsoid(rng):
    R = -dyadic(rng, 20, 300, 2)
    k = -dyadic(rng, 0.05, 0.95, 6)
    e = math.sqrt(-k)
    s_near, s_far = R / (1 + e), R / (1 - e)
    swap = rng.random() < 0.5
    zo, zi = (s_far, s_near) if not swap else (s_near, s_far)
    na = rng.choice([0.05, 0.2, 0.4]) if rng.random() < 0.7 else rng.uniform(0.02, 0.5)
    # rays exist on the sag sheet only below the equator of the ellipsoid: keep the footprint < 0.7 b
    b = abs(R) / math.sqrt(1 + k)
    na = min(na, math.sin(math.atan(0.7 * b / abs(zo))))
    d = base([{'radius': 'inf', 'thickness': -zo, 'material': AIR},
              {'radius': R, 'conic': k, 'thickness': zi, 'material': {'kind': 'mirror'}, 'is_stop': True},
              {'radius': 'inf', 'thickness': 0, 'material': AIR}], ['objectNA', na], 'object_height')
    return {'name': 'ellipsoid mirror between its foci', 'desc': d, 'image': (0.0, zi), 'real': True,
            'params': {'R': R, 'k': k, 'na': na}}


def cfg_cassegrain(rng):
    R1 = -dyadic(rng, 100, 800, 1)
    f1 = abs(R1) / 2
    p = f1 * rng.uniform(0.15, 0.4)
    e = rng.uniform(1.5, 4.0)
    R2 = -p * (1 + e)
    q = p * (1 + e) / (e - 1)
    zs = R1 / 2 + p
    fno = rng.choice([1.0, 2.0, 4.0])
    d = base([{'radius': 'inf', 'thickness': 'inf', 'material': AIR},
              {'radius': R1, 'conic': -1.0, 'thickness': zs, 'material': {'kind': 'mirror'}, 'is_stop': True},
              {'radius': R2, 'conic': -e * e, 'thickness': q, 'material': {'kind': 'mirror'}},
              {'radius': 'inf', 'thickness': 0, 'material': AIR}], ['EPD', f1 / fno])
    return {'name': 'paraboloid + hyperboloid mirror between its foci (Cassegrain)', 'desc': d,
            'image': (0.0, zs + q), 'real': True, 'params': {'R1': R1, 'R2': R2, 'e': e}}


_CAT_N = {}


def catalogue_index(name):
    """index of a bundled catalogue medium at the test wavelength (C18 owns its correctness)"""
    if name not in _CAT_N:
        import contextlib, io
        from optiland.materials import Material
        with contextlib.redirect_stdout(io.StringIO()):
            _CAT_N[name] = float(np.ravel(Material(name).n(W))[0])
    return _CAT_N[name]


def cfg_plano_hyperbolic(rng):
    n = dyadic(rng, 1.3, 4.0, 6)
    glass = {'kind': 'ideal', 'n': n}
    if rng.random() < 0.3:
        # a catalogue medium (some have a dispersion formula but no extinction table): the conic follows its index
        name = rng.choice(['CaF2', 'KBr', 'NaCl', 'LiF', 'N-BK7', 'SF11'])
        n = catalogue_index(name)
        glass = {'kind': 'catalog', 'name': name}
    R = -dyadic(rng, 10, 200, 2)
    f = R / (1 - n)
    t = dyadic(rng, 1, 10, 2)
    # aperture limit: the hyperbola asymptote: rays exist for y < |R| / sqrt(n^2 - 1) * something; stay inside
    ymax = 0.8 * abs(R) / math.sqrt(n * n - 1) * 1.0
    epd = 2 * ymax * rng.choice([0.2, 0.6, 1.0])
    # positive edge thickness: the glass must be thicker than the sag of the hyperboloid at the rim
    yr = epd / 2
    sag = (yr * yr / abs(R)) / (1 + math.sqrt(1 + (n * n - 1) * yr * yr / (R * R)))
    t = t + math.ceil(sag)
    d = base([{'radius': 'inf', 'thickness': 'inf', 'material': AIR},
              {'radius': 'inf', 'thickness': t, 'material': glass, 'is_stop': True},
              {'radius': R, 'conic': -n * n, 'thickness': f, 'material': AIR},
              {'radius': 'inf', 'thickness': 0, 'material': AIR}], ['EPD', epd])
    return {'name': 'plano-hyperbolic singlet, conic -n^2' + (' (catalogue glass)' if glass['kind'] == 'catalog' else ''),
            'desc': d, 'image': (0.0, t + f), 'real': True, 'params': {'n': n, 'R': R, 'glass': glass}}


def cfg_sphere_centre_mirror(rng):
    R = -dyadic(rng, 10, 300, 2)
    na = rng.choice([0.1, 0.5, 0.9]) if rng.random() < 0.7 else rng.uniform(0.02, 0.95)
    d = base([{'radius': 'inf', 'thickness': -R, 'material': AIR},
              {'radius': R, 'thickness': R, 'material': {'kind': 'mirror'}, 'is_stop': True},
              {'radius': 'inf', 'thickness': 0, 'material': AIR}], ['objectNA', na], 'object_height')
    return {'name': 'spherical mirror imaging its own centre of curvature', 'desc': d, 'image': (0.0, R),
            'real': True, 'params': {'R': R, 'na': na}}


def cfg_sphere_centre_refract(rng):
    R = -dyadic(rng, 10, 300, 2)
    n = dyadic(rng, 1.3, 4.0, 6)
    na = rng.uniform(0.02, 0.9)
    d = base([{'radius': 'inf', 'thickness': -R, 'material': AIR},
              {'radius': R, 'thickness': 5.0, 'material': {'kind': 'ideal', 'n': n}, 'is_stop': True},
              {'radius': 'inf', 'thickness': 0, 'material': {'kind': 'ideal', 'n': n}}], ['objectNA', na],
             'object_height')
    return {'name': 'refracting sphere, object at its centre of curvature', 'desc': d, 'image': (0.0, R),
            'real': False, 'virtual_surface': 1, 'n_obj': 1.0, 'n_img': n, 'params': {'R': R, 'n': n, 'na': na}}


def cfg_aplanatic(rng):
    R = -dyadic(rng, 10, 200, 2)
    n1 = 1.0
    n2 = dyadic(rng, 1.3, 4.0, 6)
    # object at distance R(1 + n2/n1) from the vertex, image at R(1 + n1/n2) (both on the side of the centre)
    zo = R * (1 + n2 / n1)
    zi = R * (1 + n1 / n2)
    na = rng.uniform(0.02, 0.3)
    na = min(na, math.sin(math.atan(0.6 * abs(R) / abs(zo))))      # footprint inside the hemisphere
    d = base([{'radius': 'inf', 'thickness': -zo, 'material': AIR},
              {'radius': R, 'thickness': 5.0, 'material': {'kind': 'ideal', 'n': n2}, 'is_stop': True},
              {'radius': 'inf', 'thickness': 0, 'material': {'kind': 'ideal', 'n': n2}}], ['objectNA', na],
             'object_height')
    return {'name': 'aplanatic points of a refracting sphere', 'desc': d, 'image': (0.0, zi), 'real': False,
            'virtual_surface': 1, 'n_obj': n1, 'n_img': n2, 'params': {'R': R, 'n2': n2, 'na': na}}


CONFIGS = [cfg_paraboloid, cfg_folded_paraboloid, cfg_ellipsoid, cfg_cassegrain, cfg_plano_hyperbolic, cfg_sphere_centre_mirror,
           cfg_sphere_centre_refract, cfg_aplanatic]


def check_config(ctx, cfg, quick):
    name = cfg['name']
    case = {'config': name, 'params': cfg['params'], 'desc': cfg['desc'],
            'cfg': {k: cfg[k] for k in ('image', 'real', 'virtual_surface', 'n_obj', 'n_img', 'scale', 'post') if k in cfg}}
    post = cfg.get('post', [])
    if post:
        case['post'] = post
    try:
        o = lensgen.build_case({'desc': cfg['desc'], 'post': post})
    except Exception as e:  # noqa
        ctx.count('build error ' + type(e).__name__)
        return None
    n = 24
    import random
    px, py = c02.disk_points(random.Random(zlib.crc32(name.encode()) & 0xffff), n)
    rec = c02.trace_case(o, 0.0, px, py, W)
    if isinstance(rec, tuple):
        ctx.count('trace error ' + rec[1] + ' ' + name)
        return None
    sc = cfg.get('scale', 1.0)            # the whole system re-dimensioned by scale_system: every length scales
    zi = cfg['image'][1] * sc
    scale = max(1.0, abs(zi))
    if cfg['real']:
        x, y, z = rec['x'][-1], rec['y'][-1], rec['z'][-1]
        fin = np.isfinite(x) & np.isfinite(y)
        if not np.any(fin):
            ctx.count('no ray reaches the image ' + name)
            return None
        r = np.sqrt(x[fin] ** 2 + y[fin] ** 2)
        if np.max(r) > 1e-9 * scale:
            ctx.fail('every traced ray meets the image point (%s)' % name, case, float(np.max(r)), 0.0)
            return None
        opl = rec['opd'][-1][fin]
        if np.max(opl) - np.min(opl) > 1e-9 * max(1.0, float(np.max(np.abs(opl)))):
            ctx.fail('all optical path lengths from object (or incoming wavefront) to image are equal (%s)' % name,
                     case, float(np.max(opl) - np.min(opl)), 0.0)
            return None
        # wavefront and Strehl
        try:
            from optiland.wavefront import Wavefront
            from optiland.psf import FFTPSF
            wf = Wavefront(o, fields=[(0, 0)], wavelengths=[W], num_rays=8 if quick else 16, distribution='hexapolar')
            opd = np.asarray(wf.data[0][0][0])
            opd = opd[np.isfinite(opd)]
            if opd.size and np.max(np.abs(opd)) > 1e-6:
                ctx.fail('reported wavefront error is zero (%s)' % name, case, float(np.max(np.abs(opd))), 0.0)
                return None
            # even and odd grids (the centre sample of an odd grid is a different index)
            gsel = zlib.crc32(json.dumps(cfg['params'], sort_keys=True, default=str).encode()) % 4
            psf = FFTPSF(o, field=(0, 0), wavelength=W, num_rays=32,
                         grid_size=(64 if quick else 128) if gsel < 2 else (65 if gsel == 2 else 97))
            s = float(psf.strehl_ratio())
            if not (abs(s - 1) <= 1e-6):
                # partly vignetted pupils exceed 1 (finding F17 of C11); here the pupil is unvignetted
                ctx.fail('Strehl ratio is one (%s)' % name, case, s, 1.0)
                return None
        except Exception as e:  # noqa
            ctx.count('wavefront/psf error ' + type(e).__name__ + ' ' + name)
    else:
        j = cfg['virtual_surface']
        P = np.stack([rec['x'][j], rec['y'][j], rec['z'][j]], axis=1)
        D = np.stack([rec['L'][j], rec['M'][j], rec['N'][j]], axis=1)
        O = np.stack([rec['x'][0], rec['y'][0], rec['z'][0]], axis=1)
        I = np.array([0.0, 0.0, zi])
        # the refracted line passes through the (virtual) image point
        v = I - P
        cr = np.linalg.norm(np.cross(v, D), axis=1)
        fin = np.isfinite(cr)
        if np.any(fin) and np.max(cr[fin]) > 1e-9 * scale:
            ctx.fail('every refracted ray (extended) passes through the image point (%s)' % name, case,
                     float(np.max(cr[fin])), 0.0)
            return None
        opl = cfg['n_obj'] * np.linalg.norm(P - O, axis=1) - cfg['n_img'] * np.linalg.norm(P - I, axis=1)
        opl = opl[fin]
        if opl.size and np.max(opl) - np.min(opl) > 1e-9 * scale:
            ctx.fail('optical paths object -> (virtual) image are equal (%s)' % name, case,
                     float(np.max(opl) - np.min(opl)), 0.0)
            return None
    ctx.count('ok: ' + name)
    return {'desc': cfg['desc'], 'post': post, 'Hy': 0.0, 'nray': n, 'seed': zlib.crc32(name.encode()) & 0xffff, 'wi': 0}


def run(tier, seed, replay=None):
    ctx = Ctx('C06', tier, seed)
    ctx.stats['rule'] = ('8 closed-form configurations (paraboloid, folded paraboloid, ellipsoid, Cassegrain paraboloid+hyperboloid, '
                         'plano-hyperbolic singlet, mirror and refracting sphere at the centre of curvature, aplanatic '
                         'points) x random radii, conics, indices in [1.3,4], apertures up to f/0.6 / NA 0.95; '
                         'distinct by parameter hash')
    aud = audit('C06')
    drv = Driver()
    quick = ctx.quick()
    per = 30 if quick else 1500
    model_cases = []
    if replay:
        cfgs = [dict(replay.get('cfg', {'image': (0.0, 0.0), 'real': True}), name=replay['config'],
                     params=replay['params'], desc=replay['desc'])]
    else:
        cfgs = [f(ctx.rng) for f in CONFIGS for _ in range(per)]
        for c in cfgs:
            if ctx.rng.random() < 0.4:      # the same system reached through set_radius / set_conic (either order)
                c['desc']['via_setters'] = ctx.rng.choice([True, 'conic_first'])
                c['name'] += ' (via setters)'
            if c['desc']['aperture'][0] == 'EPD' and ctx.rng.random() < 0.25:
                # a physical aperture on the stop surface: central obscuration and / or stop-down.  The unaberrated
                # reference has the same pupil, so a perfect system still has Strehl 1 and every transmitted ray
                # still meets the image point
                st = [su for su in c['desc']['surfaces'] if su.get('is_stop')][0]
                half = c['desc']['aperture'][1] / 2
                st['aperture'] = {'r_max': half * ctx.rng.choice([0.6, 0.8, 2.0]),
                                  'r_min': half * ctx.rng.choice([0.0, 0.2, 0.4])}
                c['name'] += ' (obstructed)'
            if ctx.rng.random() < 0.25:     # ... or re-dimensioned afterwards through scale_system
                c['scale'] = ctx.rng.choice([0.5, 2.0, 2.5, 0.125, 3.0])
                c['post'] = [['scale', c['scale']]]
                c['name'] += ' (rescaled)'
    for cfg in cfgs:
        ctx.case({'config': cfg['name'], 'params': cfg['params']})
        mc = check_config(ctx, cfg, quick)
        if mc:
            model_cases.append(mc)
    # correspondence of the same lenses and rays with the model
    c02.run_cases(ctx, model_cases[:(120 if quick else 3000)], drv, with_predicate=False)
    return finish(ctx, aud,
                  partial=['all seven closed-form configurations are theorems about the meridional restriction of the model '
                           '(Model/Merid.lean: same expressions and branch order as Model/Real.lean, incl. root selection) '
                           'under explicit direction / aperture guards; skew rays, the wavefront and Strehl clauses and '
                           'the guards\' complements (far-sheet hits, see the docstrings) are numerical only'],
                  assumptions=['wavefront/Strehl clauses use Wavefront and FFTPSF of the implementation (C09, C11)'])
