"""C07  Results transform correctly under symmetries and re-descriptions of the lens.
Each transformation is applied to a lens (descriptor level or on the built Optic) and the
implementation's results on the original and on the transformed lens are compared through
the relation the property states.  The library's own `scale_system` is tied to the Lean
model (`Model/Presc.lean`, op `scale`) through the `presc` driver command."""
import math, copy, random
import numpy as np
from .core import fhex, unhex, b01, Toks, Driver, Ctx, audit, finish
from . import lensgen, c01, c02, realenc
from .lensgen import dyadic, INF

GEO = ('x', 'y', 'z', 'L', 'M', 'N')


def traced(optic, Hx, Hy, px, py, w):
    try:
        optic.trace_generic(float(Hx), float(Hy), np.array(px, dtype=float), np.array(py, dtype=float), w)
    except Exception as e:  # noqa
        return ('error', type(e).__name__)
    return realenc.impl_records(optic)


def traced_explicit(optic, rec0, w, scale=1.0):
    """trace the rays given by a surface-0 record (optionally scaled) through the surfaces directly"""
    from optiland.rays import RealRays
    try:
        rays = RealRays(rec0['x'][0] * scale, rec0['y'][0] * scale, rec0['z'][0] * scale,
                        rec0['L'][0].copy(), rec0['M'][0].copy(), rec0['N'][0].copy(),
                        np.ones_like(rec0['x'][0]), np.full_like(rec0['x'][0], w))
        optic.surface_group.trace(rays)
    except Exception as e:  # noqa
        return ('error', type(e).__name__)
    return realenc.impl_records(optic)


def rel_close(a, b, rtol, atol):
    if not (math.isfinite(a) and math.isfinite(b)):
        return (not math.isfinite(a)) and (not math.isfinite(b))
    return abs(a - b) <= atol + rtol * max(abs(a), abs(b))


def on_vertex_sheets(desc, A, r):
    """domain of the re-description relations: the ray meets every curved surface well inside the part of the
    quadric that the sag formula describes (footprint radius <= |R|/2); beyond that the root selected by the code
    (nearest to the vertex plane among the forward ones) depends on where the ray starts, which a dummy surface,
    a split gap or a re-anchored frame legitimately changes (far sheets are outside C02's domain as well)"""
    for j, su in enumerate(desc['surfaces']):
        R = su.get('radius', 'inf')
        if R in ('inf', 'Infinity') or (isinstance(R, float) and math.isinf(R)) or j >= A['x'].shape[0]:
            continue
        x, y = float(A['x'][j, r]) - float(su.get('dx', 0.0)), float(A['y'][j, r]) - float(su.get('dy', 0.0))
        if math.isfinite(x) and math.isfinite(y) and x * x + y * y > 0.25 * float(R) ** 2:
            return False
    return True


def off_sheet(optic, rec, rows_of):
    """rays that leave the prescribed (vertex) sheet of some surface of `optic` in the trace `rec`: the recorded point
    is not on the sag surface (other sheet of a hyperboloid, far half of a sphere, unconverged iterate)"""
    from . import specgeom
    bad = set()
    surfs = optic.surface_group.surfaces
    for j in rows_of:
        if j >= len(surfs) or j >= rec['x'].shape[0]:
            continue
        g = surfs[j].geometry
        name = type(g).__name__
        if name == 'Plane':
            continue
        for r in range(rec['x'].shape[1]):
            P = np.array([rec['x'][j, r], rec['y'][j, r], rec['z'][j, r]], dtype=float)
            if not np.all(np.isfinite(P)):
                continue
            loc = specgeom.to_local(g.cs, P)
            zt, _ = specgeom.shape(g, float(loc[0]), float(loc[1]))
            tol = 1e-7 * max(1.0, abs(loc[0]), abs(loc[1])) if name == 'StandardGeometry' else 2e-5
            if zt is None or abs(loc[2] - zt) > tol:
                bad.add(r)
    return bad


def compare_rel(ctx, clause, case, A, B, fx, rows=None, rtol=1e-9, atol=1e-9, skip_lost=True, desc=None,
                optics=None):
    """A, B record dicts; fx maps (field, value of A) -> expected value in B; rows = list of (rowA,rowB)"""
    if isinstance(A, tuple) or isinstance(B, tuple):
        if isinstance(A, tuple) != isinstance(B, tuple):
            ctx.fail(clause + ' (one side raises)', case, str(A)[:60], str(B)[:60])
        return
    nsA = A['x'].shape[0]
    rows = rows or [(j, j) for j in range(nsA)]
    outside = set()
    if desc is not None and any(su.get('conic') == -1.0 for su in desc['surfaces']):
        # paraboloids: the conic quadratic cancels for nearly axial rays (finding F23); a re-description changes the
        # rounding, not the ray
        rtol, atol = max(rtol, 1e-6), max(atol, 1e-6)
    if desc is not None:
        outside = {r for r in range(A['x'].shape[1]) if not on_vertex_sheets(desc, A, r)}
        if outside:
            ctx.count('rel: rays beyond |R|/2 on some surface (outside the domain)', len(outside))
    if optics is not None:
        # ... and in both descriptions every recorded point lies on the prescribed sheet (C02's domain)
        o1, o2 = optics
        rows_ = rows or [(j, j) for j in range(nsA)]
        off = off_sheet(o1, A, [ja for ja, _ in rows_]) | off_sheet(o2, B, [jb for _, jb in rows_])
        if off - outside:
            ctx.count('rel: rays off the prescribed sheet in one description (outside the domain)', len(off - outside))
        outside = outside | off
    for ja, jb in rows:
        for r in range(A['x'].shape[1]):
            if r in outside:
                continue
            va = [A[f][ja, r] for f in GEO]
            vb = [B[f][jb, r] for f in GEO]
            if not all(math.isfinite(v) for v in va) or not all(math.isfinite(v) for v in vb):
                if all(math.isfinite(v) for v in va) != all(math.isfinite(v) for v in vb):
                    ctx.count('rel: finite on one side only (edge of the domain)')
                break
            for f in GEO + ('opd',):
                exp = fx(f, float(A[f][ja, r]))
                got = float(B[f][jb, r])
                if not rel_close(exp, got, rtol, atol):
                    ctx.fail('%s: %s at surface %d ray %d' % (clause, f, ja, r), case, got, exp)
                    return
    ctx.count('rel ok: ' + clause)


def symmetric(desc):
    return all(not any(k in s for k in ('dx', 'dy', 'rx', 'ry')) and
               s.get('surface_type', 'standard') in ('standard', 'even_asphere') for s in desc['surfaces'])


def scaled_desc(desc, s):
    d = copy.deepcopy(desc)
    for su in d['surfaces']:
        if su.get('radius', 'inf') != 'inf':
            su['radius'] = su['radius'] * s
        if su.get('thickness', 0) != 'inf':
            su['thickness'] = su['thickness'] * s
        if 'coefficients' in su and su.get('surface_type') == 'even_asphere':
            su['coefficients'] = [c * s ** (1 - 2 * (i + 1)) for i, c in enumerate(su['coefficients'])]
        for k in ('dx', 'dy'):
            if k in su:
                su[k] = su[k] * s
        if su.get('aperture'):
            su['aperture'] = {k: v * s for k, v in su['aperture'].items()}
    if d['aperture'][0] == 'EPD':
        d['aperture'] = ['EPD', d['aperture'][1] * s]
    if d['field_type'] == 'object_height':
        d['fields'] = [[f[0] * s] + f[1:] for f in d['fields']]
    return d


def pupil(rng, n):
    pts = [(0.0, 0.0), (0.0, 1.0), (1.0, 0.0), (-0.6, 0.3)]
    while len(pts) < n:
        r, a = math.sqrt(rng.random()), rng.uniform(0, 2 * math.pi)
        pts.append((r * math.cos(a), r * math.sin(a)))
    return [p[0] for p in pts[:n]], [p[1] for p in pts[:n]]


def t_mirror(ctx, rng, desc):
    if not symmetric(desc):
        return
    o = lensgen.build(desc)
    w = o.wavelengths.get_wavelengths()[0]
    px, py = pupil(rng, 8)
    Hy = rng.choice([0.0, 1.0, rng.uniform(-1, 1)])
    case = {'desc': desc, 'transform': 'mirror', 'Hy': Hy, 'px': px, 'py': py}
    A = traced(o, 0.0, Hy, px, py, w)
    Bx = traced(o, 0.0, Hy, [-v for v in px], py, w)
    compare_rel(ctx, 'mirror about the y-z plane mirrors x and L', case, A, Bx,
                lambda f, v: -v if f in ('x', 'L') else v)
    By = traced(o, 0.0, -Hy, px, [-v for v in py], w)
    compare_rel(ctx, 'mirror about the x-z plane mirrors y and M', case, A, By,
                lambda f, v: -v if f in ('y', 'M') else v)
    Bxy = traced(o, 0.0, -Hy, [-v for v in px], [-v for v in py], w)
    compare_rel(ctx, 'product of both mirrors', case, A, Bxy,
                lambda f, v: -v if f in ('x', 'L', 'y', 'M') else v)


def t_dummy(ctx, rng, desc):
    gaps = [i for i, s in enumerate(desc['surfaces'][:-1])
            if i >= 1 and s.get('thickness', 0) != 'inf' and abs(s['thickness']) > 0.5
            and s['material']['kind'] in ('air', 'ideal')]
    if not gaps:
        return
    g = rng.choice(gaps)
    d2 = copy.deepcopy(desc)
    s = d2['surfaces'][g]
    t = s['thickness']
    frac = dyadic(rng, 0.125, 0.875, 3)
    if rng.random() < 0.25:
        frac = rng.choice([0.0, 1.0])      # the dummy plane touches a neighbouring vertex: a gap of exactly 0
    mat = copy.deepcopy(s['material'])
    s['thickness'] = t * frac
    dummy = {'index': g + 1, 'radius': 'inf', 'thickness': t - t * frac, 'material': mat}
    d2['surfaces'].insert(g + 1, dummy)
    for k, su in enumerate(d2['surfaces']):
        su['index'] = k
    o1, o2 = lensgen.build(desc), lensgen.build(d2)
    w = o1.wavelengths.get_wavelengths()[0]
    px, py = pupil(rng, 8)
    Hy = rng.choice([0.0, 1.0])
    case = {'desc': desc, 'transform': 'dummy surface after %d' % g, 'Hy': Hy, 'px': px, 'py': py, 'frac': frac}
    # vertex positions: every surface stays where it was, the dummy sits at z_g + frac * t
    z1 = [float(np.ravel(q.geometry.cs.z)[0]) for q in o1.surface_group.surfaces]
    z2 = [float(np.ravel(q.geometry.cs.z)[0]) for q in o2.surface_group.surfaces]
    exp = z1[:g + 1] + [z1[g] + t * frac] + z1[g + 1:]
    if any(abs(a - b) > 1e-9 * max(1.0, abs(b)) for a, b in zip(z2[1:], exp[1:])):
        ctx.fail('dummy surface between equal media: every vertex stays where it was, the dummy plane sits inside '
                 'the gap', case, z2, exp)
        return
    ctx.count('dummy: vertex positions checked' + (' (gap of exactly 0)' if frac in (0.0, 1.0) else ''))
    if frac in (0.0, 1.0):
        touched = desc['surfaces'][g] if frac == 0.0 else desc['surfaces'][g + 1]
        if touched.get('radius', 'inf') not in ('inf', INF) or touched.get('surface_type', 'standard') != 'standard':
            return      # rays would have to travel backwards between the curved surface and its tangent plane
    A = traced(o1, 0.0, Hy, px, py, w)
    if isinstance(A, tuple):
        return
    B = traced_explicit(o2, A, w)      # the very same rays (the launch is the subject of C03)
    n = len(desc['surfaces'])
    rows = [(j, j if j <= g else j + 1) for j in range(n)]
    compare_rel(ctx, 'dummy surface between equal media changes nothing downstream', case, A, B,
                lambda f, v: v, rows=rows, rtol=1e-9, atol=1e-9, desc=desc, optics=(o1, o2))


def t_wavelength(ctx, rng, desc):
    if any(s['material']['kind'] not in ('air', 'ideal', 'mirror') for s in desc['surfaces']):
        return
    o = lensgen.build(desc)
    px, py = pupil(rng, 6)
    case = {'desc': desc, 'transform': 'wavelength', 'px': px, 'py': py}
    A = traced(o, 0.0, 1.0, px, py, 0.45)
    B = traced(o, 0.0, 1.0, px, py, 1.7)
    compare_rel(ctx, 'wavelength of a dispersion-free lens changes nothing', case, A, B, lambda f, v: v,
                rtol=0, atol=0)


def t_tilt_about_centre(ctx, rng, desc):
    cands = [i for i, s in enumerate(desc['surfaces'][1:-1], start=1)
             if s.get('radius', 'inf') != 'inf' and 'conic' not in s and s.get('surface_type', 'standard') == 'standard'
             and not any(k in s for k in ('dx', 'dy', 'rx', 'ry')) and not s.get('aperture')]
    if not cands:
        return
    k = rng.choice(cands)
    ang = rng.uniform(-0.3, 0.3)
    axis = rng.choice(['x', 'y'])
    o1, o2 = lensgen.build(desc), lensgen.build(desc)
    cs = o2.surface_group.surfaces[k].geometry.cs
    R = float(desc['surfaces'][k]['radius'])
    z0 = float(np.ravel(cs.z)[0])
    if axis == 'x':
        cs.rx = ang
        cs.y = R * math.sin(ang)
    else:
        cs.ry = ang
        cs.x = -R * math.sin(ang)
    cs.z = z0 + R - R * math.cos(ang)
    w = o1.wavelengths.get_wavelengths()[0]
    px, py = pupil(rng, 8)
    # keep the footprint small against R so that the nearest-to-vertex-plane rule picks the same sheet
    case = {'desc': desc, 'transform': 'tilt %s=%.4f about the centre of curvature of surface %d' % (axis, ang, k),
            'px': px, 'py': py}
    A = traced(o1, 0.0, 0.0, px, py, w)
    if isinstance(A, tuple):
        return
    B = traced_explicit(o2, A, w)      # the very same rays
    if isinstance(B, tuple):
        return
    # domain: the footprint on the tilted surface must stay well inside |R| (root selection heuristic: partial)
    foot = max(float(np.nanmax(np.abs(A['x'][k]))), float(np.nanmax(np.abs(A['y'][k]))),
               float(np.nanmax(np.abs(A['z'][k] - z0))))
    if np.any(A['N'][0] <= 0):
        ctx.count('tilt: rays launched backwards (entrance pupil behind the object, observation F25)')
        return
    if not math.isfinite(foot) or foot > 0.2 * abs(R):
        ctx.count('tilt: footprint too large for the root-selection heuristic (out of domain)')
        return
    # conditioning of the quadratic for a ray that starts a distance t in front of a sphere of radius R: b^2 - 4ac loses
    # (t/R)^2 in relative accuracy (nearly afocal lenses with an F-number aperture are launched from kilometres away)
    tmax = max(float(np.nanmax(np.abs(A['z'][j] - A['z'][j - 1]))) for j in range(1, k + 1))
    cond = 50 * 2.2e-16 * tmax * tmax / abs(R)
    pb = 1e-6 if any(su.get('conic') == -1.0 for su in desc['surfaces']) else 0.0
    # (paraboloids elsewhere in the lens: the conic quadratic cancels for nearly axial rays, finding F23 - the same
    # allowance as in the other transformations)
    compare_rel(ctx, 'tilting a sphere about its own centre of curvature changes nothing', case, A, B,
                lambda f, v: v, rtol=max(1e-8, pb), atol=max(1e-8, pb) + cond)


def t_scale(ctx, rng, desc):
    s = 2.0 ** rng.uniform(math.log2(0.01), math.log2(100))
    if rng.random() < 0.5:
        s = 2.0 ** rng.randint(-6, 6)
    conic_only = all(su.get('surface_type', 'standard') == 'standard' for su in desc['surfaces'])
    d2 = scaled_desc(desc, s)
    o1, o2 = lensgen.build(desc), lensgen.build(d2)
    w = o1.wavelengths.get_wavelengths()[0]
    px, py = pupil(rng, 8)
    Hy = rng.choice([0.0, 1.0])
    case = {'desc': desc, 'transform': 'scale', 's': s, 'Hy': Hy, 'px': px, 'py': py}
    decentred = any(('dx' in su or 'dy' in su) for su in desc['surfaces'])
    A = traced(o1, 0.0, Hy, px, py, w)
    if isinstance(A, tuple):
        return s
    # with decentred surfaces the paraxial pupil (hence the launch) is not a scaled copy: launch scaled rays
    B = traced_explicit(o2, A, w, scale=s) if decentred else traced(o2, 0.0, Hy, px, py, w)
    tol = 1e-9 if conic_only else 2e-5
    if any(su.get('conic') == -1.0 for su in desc['surfaces']):
        tol = max(tol, 1e-6)      # paraboloids: the conic quadratic cancels for nearly axial rays (finding F23)
    compare_rel(ctx, 'scaling all lengths by s scales positions and paths by s, keeps direction cosines', case, A, B,
                lambda f, v: v * s if f in ('x', 'y', 'z', 'opd') else v, rtol=tol, atol=tol * max(1.0, s), desc=desc,
                optics=(o1, o2))
    if decentred:
        return s
    try:
        f1, f2 = float(o1.paraxial.f2()), float(o2.paraxial.f2())
        if math.isfinite(f1) and math.isfinite(f2) and abs(f1) < 1e7 and not rel_close(f1 * s, f2, 1e-9, 1e-12):
            ctx.fail('focal length scales by s', case, f2, f1 * s)
        if conic_only and not any(su['material']['kind'] == 'catalog' for su in desc['surfaces']):
            S1, S2 = np.ravel(o1.aberrations.seidels()), np.ravel(o2.aberrations.seidels())
            for a, b in zip(S1, S2):
                if math.isfinite(a) and math.isfinite(b) and not rel_close(a * s, b, 1e-7, 1e-12 * max(1, s)):
                    ctx.fail('Seidel sums scale by s', case, S2.tolist(), (S1 * s).tolist())
                    break
    except Exception as e:  # noqa
        ctx.count('scale: paraxial/seidel error ' + type(e).__name__)
    return s


def t_scale_system(ctx, rng, drv_lines, keep):
    """the library's own scaling on lenses of planes and conics with angular fields"""
    d = lensgen.gen_lens(rng, allow_asphere=False, allow_tilt=False, field_types=('angle',),
                         finite_object=False if rng.random() < 0.7 else True, apertures=rng.random() < 0.5,
                         nsurf=rng.randint(1, 8))
    s = 2.0 ** rng.randint(-5, 5) if rng.random() < 0.6 else rng.uniform(0.01, 100)
    if rng.random() < 0.2:
        # a physical aperture on the image surface (the edge of the detector) or on the object surface
        d['surfaces'][rng.choice([-1, -1, 0])]['aperture'] = {'r_max': lensgen.dyadic(rng, 1.0, 12.0, 3)}
    o1 = lensgen.build(d)
    o2 = lensgen.build(scaled_desc(d, s))
    case = {'desc': d, 'transform': 'scale_system', 's': s}
    nsf = len(d['surfaces'])
    deps = []
    if nsf >= 4 and rng.random() < 0.3:
        # dependent parameters: pickups with an offset, a marginal-ray-height solve at a non-zero height.  Their
        # offsets / heights are lengths that scale_system does not rescale, so "the scaled lens" is the current
        # prescription (dependent values included) with every length multiplied by s
        i, j = rng.sample(range(1, nsf - 1), 2)
        kind = rng.choice(['radius', 'thickness'])
        finite = lambda k: math.isfinite(float(np.ravel(o1.surface_group.radii)[k]))       # noqa
        if kind == 'radius' and finite(i) and finite(j):
            deps.append(['pk', i, 'radius', j, rng.choice([1.0, -1.0, 0.5, 2.0]), lensgen.dyadic(rng, -20, 20, 2)])
        elif kind == 'thickness' and max(i, j) < nsf - 2:
            deps.append(['pk', i, 'thickness', j, rng.choice([1.0, 0.5, 2.0]), lensgen.dyadic(rng, 0.5, 10, 2)])
        if rng.random() < 0.5:
            deps.append(['sv', nsf - 1, lensgen.dyadic(rng, -1, 1, 4)])
        bad = [op for op in deps if c01.apply_op(o1, tuple(op)) is not None]
        if bad or c01.apply_op(o1, ('up',)) is not None:
            ctx.count('scale_system: dependent parameters rejected')
            return
        case['dependent'] = deps
        pre = c01.snap(o1)
        if not all(math.isfinite(v) or math.isinf(v) for v in pre['radius']) or \
                not all(math.isfinite(v) for v in pre['z'][1:]):
            ctx.count('scale_system: dependent parameters give a degenerate lens')
            return
    try:
        o1.scale_system(s)
    except Exception as e:  # noqa
        ctx.fail('scale_system succeeds', case, type(e).__name__)
        return
    if deps:
        a = c01.snap(o1)
        for f in ('radius', 'z'):
            for i, (u, v) in enumerate(zip(a[f], pre[f])):
                if f == 'z' and i == 0:
                    continue
                if not rel_close(u, v * s, 1e-10, 1e-10 * max(1, s)):
                    ctx.fail('scale_system produces exactly the scaled lens (%s of surface %d, lens with pickups / '
                             'solves)' % (f, i), case, u, v * s)
                    return
        ctx.count('rel ok: scale_system with dependent parameters')
        return
    a, b = c01.snap(o1), c01.snap(o2)
    for f in ('radius', 'conic', 'z'):
        for i, (u, v) in enumerate(zip(a[f], b[f])):
            if not rel_close(u, v, 1e-12, 1e-12 * max(1, s)):
                ctx.fail('scale_system produces exactly the scaled lens (%s of surface %d)' % (f, i), case, u, v)
                return
    if not rel_close(o1.aperture.value, o2.aperture.value, 1e-12, 0):
        ctx.fail('scale_system scales the entrance pupil diameter', case, o1.aperture.value, o2.aperture.value)
    for i, (s1, s2) in enumerate(zip(o1.surface_group.surfaces, o2.surface_group.surfaces)):
        if s1.aperture is not None and not (rel_close(s1.aperture.r_max, s2.aperture.r_max, 1e-12, 0) and
                                            rel_close(s1.aperture.r_min, s2.aperture.r_min, 1e-12, 0)):
            ctx.fail('scale_system scales the physical apertures', case,
                     [s1.aperture.r_max, s1.aperture.r_min], [s2.aperture.r_max, s2.aperture.r_min])
    ctx.count('rel ok: scale_system')
    # correspondence with the Lean model of scale_system
    ops = [('aw', 0.5875618, True)] + [('add', su) for su in d['surfaces']]
    o3 = lensgen.build(d)
    ri = [math.isinf(float(r)) for r in o3.surface_group.radii]
    pos = [float(np.ravel(p)[0]) for p in o3.surface_group.positions]
    ti = [math.isinf(pos[i + 1] - pos[i]) for i in range(len(pos) - 1)]
    toks = ['presc', d['aperture'][0], fhex(d['aperture'][1]), 'angle', fhex(0.0),
            b01(d['surfaces'][0]['thickness'] == 'inf'), str(len(ops) + 1)]
    for op in ops:
        toks += c01.op_tokens(op)
    toks += ['ss', fhex(s), str(len(ri))] + [b01(v) for v in ri] + [str(len(ti))] + [b01(v) for v in ti]
    drv_lines.append(' '.join(toks))
    keep.append((case, a, float(o1.aperture.value)))


def work(ctx, seeds):
    import random as _r
    drv = Driver()
    lines, keep = [], []
    orig_fail = ctx.fail
    cur = {'sd': None}

    def fail(clause, case, *a, **k):      # every recorded case carries the seed that regenerates it (replay)
        return orig_fail(clause, dict(case, work_seed=cur['sd']), *a, **k)
    ctx.fail = fail
    for sd in seeds:
        cur['sd'] = sd
        rng = _r.Random(sd)
        d = lensgen.gen_lens(rng, allow_asphere=rng.random() < 0.25, allow_tilt=rng.random() < 0.2,
                             nsurf=rng.randint(1, 9), finite_object=rng.random() < 0.3)
        if rng.random() < 0.35:      # per-field vignetting factors (symmetric in the field by definition)
            for f in d['fields']:
                f += [0.0, lensgen.dyadic(rng, 0, 0.5, 5), lensgen.dyadic(rng, 0, 0.5, 5)]
        for name, fn in (('mirror', t_mirror), ('dummy', t_dummy), ('wavelength', t_wavelength),
                         ('tilt', t_tilt_about_centre), ('scale', t_scale)):
            try:
                fn(ctx, rng, d)
            except Exception as e:  # noqa
                ctx.count('transform error %s:%s' % (name, type(e).__name__))
            ctx.case({'desc': d, 'transform': name})
        try:
            t_scale_system(ctx, rng, lines, keep)
        except Exception as e:  # noqa
            ctx.count('transform error scale_system:' + type(e).__name__)
    outs = drv.batch(lines)
    for (case, snap, apv), out in zip(keep, outs):
        ctx.case(case)
        last = out.split(' | ')[-1]
        status, m = c01.parse_snapshot(last)
        for f in ('z', 'radius', 'conic'):
            ctx.cmp_list('scale_system.' + f, snap[f], m[f], case, rtol=1e-12, atol=1e-12)
        ctx.cmp('scale_system.EPD', apv, unhex(last.split()[-1]), case, rtol=1e-12)
    del ctx.fail            # the instance attribute (a local closure) must not travel back through pickle


def run(tier, seed, replay=None):
    ctx = Ctx('C07', tier, seed)
    ctx.stats['rule'] = ('lens x transformation: both meridional mirrors and their product, tilt <= 0.3 rad about the '
                         'centre of curvature of a spherical surface, dummy plane in any gap, wavelength change of a '
                         'dispersion-free lens, scale factors in [0.01,100] (descriptor level) and Optic.scale_system '
                         'on lenses of planes and conics; distinct by descriptor+transformation hash')
    aud = audit('C07')
    n = 200 if ctx.quick() else 10000
    import random as _r
    seeds = [ctx.rng.randint(0, 2 ** 31) for _ in range(n)]
    if replay:
        if 'work_seed' not in replay:
            print('C07: this replay file carries no work_seed (written by an older version): nothing to re-run')
            return 2
        seeds = [replay['work_seed']]
    from .core import run_parallel
    run_parallel(ctx, 'harness.c07', 'work', seeds, nproc=(4 if ctx.quick() else None) if not replay else 1)
    return finish(ctx, aud,
                  partial=['whole-lens lifts are theorems for mirror (plane, conic, even asphere), scale (plane, conic; '
                           'k = 0 or wavelength scaled too) and dummy plane (untilted, next surface plane/conic); '
                           'polynomial / Chebyshev shapes, tilted dummies and re-anchored coordinate breaks are numerical only',
                           'tilt about the centre of curvature: that the same intersection candidate is selected '
                           'depends on the nearest-to-vertex-plane rule (numerical, footprint <= 0.2 |R|)',
                           'aspheres under scaling: Newton-Raphson tolerance is absolute (compared at 2e-5)'],
                  assumptions=['relations are evaluated on the implementation itself (original vs transformed lens)'])
