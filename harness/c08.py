"""C08  Seidel and first-order chromatic terms equal the classical surface formulas.

Correspondence (hard observables): `Aberrations.third_order()`, `seidels()`, the 12 array
accessors and every `AberrationOperand` wrapper on the implementation vs `Model/Aberr.lean` at
Float (native driver), rtol 1e-8.  The model carries the two recorded defects as variants
(indices as coded / signed at mirrors) x (colour terms as coded / classical); agreement with
any variant is accepted, agreement with a non-code variant is noted as "repaired upstream".

Search predicate (on the implementation only): an independent plain-Python evaluation of the
classical surface contributions (Welford/Smith) from radii, positions, indices at d/F/C and
ABCD-matrix marginal/chief rays (helpers of c04); the identities of the property; stop-shift
invariance of S_I and S_IV (same lens, stop moved); TSC against the real marginal-ray
transverse error in the paraxial image plane, Richardson-extrapolated to zero aperture."""
import math, os, copy
import numpy as np
from .core import fhex, Toks, Driver, Ctx, audit, finish, close
from . import lensgen, c04

ARR = ['TSC', 'SC', 'CC', 'TCC', 'TAC', 'AC', 'TPC', 'PC', 'DC', 'TAchC', 'LchC', 'TchC']
SEIDEL_ARR = ['TSC', 'SC', 'CC', 'TCC', 'TAC', 'AC', 'TPC', 'PC', 'DC']
COLOUR_ARR = ['TAchC', 'LchC', 'TchC']
WF, WC = 0.4861, 0.6563
RHOS = (0.16, 0.08, 0.04)
K_COLOUR = 'colour-height-previous-surface'
K_MIRROR = 'mirror-index-sign'
RTOL = 1e-8
ATOL = 1e-15


def fl(v):
    return [float(x) for x in np.ravel(v)]


# ------------------------------------------------------------------ implementation side
def impl_eval(optic, ops):
    """every observable of the property, through the public API"""
    from optiland.optimization.operand.aberration import AberrationOperand as AO
    ab = optic.aberrations
    out = {}
    t = ab.third_order()
    out['third'] = [fl(x) for x in t]
    out['third_shapes'] = [list(np.shape(x)) for x in t]
    out['seidels'] = fl(ab.seidels())
    out['acc'] = {name: fl(getattr(ab, name)()) for name in ARR}
    n2 = len(out['acc']['TSC'])
    if isinstance(ops, dict):       # all wrappers for lenses up to `max_full` surfaces, else the named ones
        ops = 'full' if n2 <= ops['max_full'] else ops['names']
    out['ops_mode'] = 'full' if ops == 'full' else 'subset'
    names = ARR if ops == 'full' else list(ops)
    out['ops'] = {}
    for name in names:
        vals = []
        for k in range(n2):
            vals.append(float(getattr(AO, name)(optic, k)))
        out['ops'][name] = vals
    out['sums'] = {name: float(getattr(AO, name + '_sum')(optic)) for name in names}
    js = (1, 2, 3, 4, 5) if ops == 'full' else (1 + (n2 + len(names[0])) % 5,)
    out['opseidel'] = {j: float(AO.seidels(optic, j)) for j in js}
    return out


def driver_tokens(optic):
    nF = fl(optic.n(WF))
    nC = fl(optic.n(WC))
    return ' '.join(c04.sys_tokens(optic) + [str(len(nF))] + [fhex(v) for v in nF] +
                    [str(len(nC))] + [fhex(v) for v in nC])


# ------------------------------------------------------------------ independent specification
def launch_slopes(optic, sp):
    obj = optic.object_surface
    if obj.is_infinite:
        u0 = 0.0
    else:
        zo = float(np.ravel(obj.geometry.cs.z)[0])
        u0 = sp['EPD'] / (2 * (sp['EPL'] - zo))
    fmax = float(optic.fields.max_y_field)
    if optic.field_type == 'angle':
        ub0 = math.tan(math.radians(fmax))
    else:
        zo = float(np.ravel(obj.geometry.cs.z)[0])
        ub0 = fmax / (sp['EPL'] - zo)
    return u0, ub0


def spec_terms(optic, sp, signed=True, prev_y=False):
    """Classical surface contributions -> the library's 12 arrays and 5 sums.
    signed=True, prev_y=False is the specification.  The other settings replicate the two
    recorded defects (used only to recognise them): signed=False keeps every index positive and
    gives a mirror the terms the tree gives it; prev_y=True puts the marginal height of the
    previous surface into the colour terms."""
    els = sp['els']
    my, mu = sp['marginal']
    cy, cu = sp['chief']
    u0, ub0 = launch_slopes(optic, sp)
    surfs = optic.surface_group.surfaces
    nF = fl(optic.n(WF))
    nC = fl(optic.n(WC))
    nopt = len(els) - 1                      # optical surfaces 1 .. N-2
    sg = lambda v: v if signed else abs(v)   # noqa: E731
    e0 = els[0]
    # Lagrange invariant H = n (u ybar - ubar y), constant through the system (signed indices)
    H = e0['n1'] * (u0 * cy[0] - ub0 * my[0])
    if not signed:
        # the tree forms it behind surface 1 with the positive index
        H = abs(e0['n2']) * (cy[0] * mu[0] - my[0] * cu[0])
    last = els[-1]
    nL = sg(last['n1'] if last['image_class'] else last['n2'])
    uL = mu[-1]
    # running sign of the dispersion (same orientation as the index)
    sig_before = []
    s = 1.0
    for j in range(len(els)):
        sig_before.append(s)
        if surfs[j + 1].is_reflective:
            s = -s
    res = {k: [] for k in ('SI', 'SII', 'SIII', 'SIV', 'SV', 'SVq', 'CI', 'CII', 'A')}
    for k in range(1, nopt + 1):
        e = els[k - 1]
        n, n2, c = sg(e['n1']), sg(e['n2']), e['c']
        y, yb = my[k - 1], cy[k - 1]
        u2, ub2 = mu[k - 1], cu[k - 1]
        u, ub = (u0, ub0) if k == 1 else (mu[k - 2], cu[k - 2])
        A = n * (u + y * c)
        Ab = n * (ub + yb * c)
        dUN = u2 / n2 - u / n
        dUbN = ub2 / n2 - ub / n
        mirror = surfs[k].is_reflective
        sb = sig_before[k - 1] if signed else 1.0
        sa = (-sb if mirror else sb) if signed else 1.0
        dn1 = sb * (nF[k - 1] - nC[k - 1])
        dn2 = sa * (nF[k] - nC[k])
        dD = dn2 / n2 - dn1 / n
        ycol = y
        if prev_y:
            ycol = my[k - 2] if k >= 2 else (sp['EPD'] / 2 if optic.object_surface.is_infinite else 0.0)
        if mirror and not signed:
            # what the tree computes at a mirror: (n'-n) = 0 kills B and TPC, DC keeps H/2 Delta(ubar^2)
            SI = SII = SIII = SIV = 0.0
            SV = SVq = H * (ub2 * ub2 - ub * ub)
            CI = (A / n) * ycol * (-(dn1 - n / n2 * dn2))
            CII = (Ab / n) * ycol * (-(dn1 - n / n2 * dn2))
        else:
            SI = -A * A * y * dUN
            SII = -A * Ab * y * dUN
            SIII = -Ab * Ab * y * dUN
            SIV = -H * H * c * (1 / n2 - 1 / n)
            SV = -A * Ab * yb * dUbN + H * (ub2 * ub2 - ub * ub)      # = pupil-coma form (Welford)
            SVq = (Ab / A) * (SIII + SIV) if A != 0 else math.nan      # quotient form
            CI = A * ycol * dD
            CII = Ab * ycol * dD
        for key, v in (('SI', SI), ('SII', SII), ('SIII', SIII), ('SIV', SIV), ('SV', SV), ('SVq', SVq),
                       ('CI', CI), ('CII', CII), ('A', A)):
            res[key].append(v)
    f = 2 * nL * uL
    out = {}
    out['TSC'] = [v / f for v in res['SI']]
    out['CC'] = [v / f for v in res['SII']]
    out['TAC'] = [v / f for v in res['SIII']]
    out['TPC'] = [v / f for v in res['SIV']]
    out['DC'] = [v / f for v in res['SV']]
    out['TCC'] = [3 * v for v in out['CC']]
    out['SC'] = [-v / uL for v in out['TSC']]
    out['AC'] = [-v / uL for v in out['TAC']]
    out['PC'] = [-v / uL for v in out['TPC']]
    out['TAchC'] = [v / (nL * uL) for v in res['CI']]
    out['TchC'] = [v / (nL * uL) for v in res['CII']]
    out['LchC'] = [-v / uL for v in out['TAchC']]
    out['S'] = [-sum(res[k]) for k in ('SI', 'SII', 'SIII', 'SIV', 'SV')]
    out['classical'] = res
    out['H'] = H
    out['nL'] = nL
    out['uL'] = uL
    return out


def arr_close(a, b, rtol=1e-7, afrac=1e-9, floor=0.0):
    """lists agree: relative per element, plus an absolute floor at 1e-9 of the largest entry (and an
    optional absolute floor from the scale of the whole family of terms)"""
    if len(a) != len(b):
        return False
    scale = max([abs(v) for v in list(a) + list(b) if math.isfinite(v)] + [0.0])
    for x, y in zip(a, b):
        if not (math.isfinite(x) and math.isfinite(y)):
            return False
        if abs(x - y) > rtol * max(abs(x), abs(y)) + afrac * scale + floor + 1e-300:
            return False
    return True


def family_floors(T, S0, nL, uL):
    """absolute comparison floors: 1e-9 of the largest transverse Seidel (colour) term of the lens, carried
    over to the longitudinal terms (/|u'|) and to the sums (*2|n'u'|); protects all-zero arrays that
    differ only by rounding noise"""
    gT = scale_of(*[T[n] for n in ('TSC', 'CC', 'TAC', 'TPC', 'DC')], *[S0[n] for n in ('TSC', 'CC', 'TAC', 'TPC', 'DC')])
    gC = scale_of(T['TAchC'], T['TchC'], S0['TAchC'], S0['TchC'])
    fl_ = {}
    for n in ('TSC', 'CC', 'TCC', 'TAC', 'TPC', 'DC'):
        fl_[n] = 1e-9 * gT
    for n in ('SC', 'AC', 'PC'):
        fl_[n] = 1e-9 * gT / abs(uL)
    fl_['S'] = 1e-9 * gT * 2 * abs(nL * uL)
    fl_['TAchC'] = fl_['TchC'] = 1e-9 * gC
    fl_['LchC'] = 1e-9 * gC / abs(uL)
    return fl_


# ------------------------------------------------------------------ stop shift, real rays
def move_stop(optic, j):
    for s in optic.surface_group.surfaces:
        s.is_stop = False
    optic.surface_group.surfaces[j].is_stop = True


def stop_shift_eval(case, j):
    o2 = lensgen.build_case(case)
    move_stop(o2, j)
    S = fl(o2.aberrations.seidels())
    ya, ua = o2.paraxial.marginal_ray()
    return {'S': S, 'ya': fl(ya), 'ua': fl(ua), 'inv': float(o2.paraxial.invariant()),
            'TSC': fl(o2.aberrations.TSC()), 'TPC': fl(o2.aberrations.TPC())}


def real_eval(optic):
    """transverse error of the real on-axis marginal ray in the paraxial image plane, divided by
    rho^3, for three small apertures"""
    w = optic.primary_wavelength
    ya, ua = optic.paraxial.marginal_ray()
    ya, ua = fl(ya), fl(ua)
    zL = float(np.ravel(optic.surface_group.positions[-2])[0])
    zf = zL - ya[-2] / ua[-2]
    es = []
    for rho in RHOS:
        py = np.array([rho, -rho])
        optic.trace_generic(0.0, 0.0, np.zeros(2), py, w)
        s = optic.surface_group.surfaces[-2]
        y, z, M, N = [np.ravel(getattr(s, f)) for f in ('y', 'z', 'M', 'N')]
        yf = y + (zf - z) * M / N
        es.append(float(0.5 * (yf[0] - yf[1]) / rho ** 3))
    return {'e': es, 'zf': zf, 'ymax': max(abs(v) for v in ya)}


def closed_form_eval(optic, tsc):
    """one spherical surface, object at infinity: the theorem `tsc_predicts_real_partial` says that the
    real marginal ray (full aperture) lands at TSC * 4/(D1*D2) in the paraxial image plane"""
    w = optic.primary_wavelength
    ya, ua = optic.paraxial.marginal_ray()
    ya, ua = fl(ya), fl(ua)
    h = ya[1]
    c = 1.0 / float(optic.surface_group.radii[1])
    nn = fl(optic.n())
    mu = nn[0] / nn[1]
    a = c * h
    C = math.sqrt(1 - a * a)
    C2 = math.sqrt(1 - (mu * a) ** 2)
    D1 = (1 + C) * (1 + C2) - mu * a * a
    D2 = C * C2 + mu * a * a
    zf = float(np.ravel(optic.surface_group.positions[1])[0]) - ya[1] / ua[1]
    py = np.array([1.0, -1.0])
    optic.trace_generic(0.0, 0.0, np.zeros(2), py, w)
    s = optic.surface_group.surfaces[1]
    y, z, M, N = [np.ravel(getattr(s, f)) for f in ('y', 'z', 'M', 'N')]
    yf = y + (zf - z) * M / N
    return {'real': float(0.5 * (yf[0] - yf[1])), 'pred': tsc * 4 / (D1 * D2), 'factor': 4 / (D1 * D2)}


# ------------------------------------------------------------------ one case (runs in a worker)
def eval_case(case):
    res = {'ok': False, 'counts': [], 'case': case}
    try:
        optic = lensgen.build_case(case)
    except Exception as e:  # noqa
        res['err'] = 'build_error:' + type(e).__name__
        return res
    if case.get('edits'):
        # the same lens evaluated, edited through the public setters and evaluated again: every term must follow the
        # *current* prescription and glasses (values kept on the long-lived optic.aberrations object)
        from . import c01
        try:
            with np.errstate(all='ignore'):
                optic.aberrations.third_order()
                optic.aberrations.seidels()
        except Exception:  # noqa
            pass
        for e in case['edits']:
            if c01.apply_op(optic, tuple(e)) is not None:
                res['err'] = 'edit_raised'
                return res
        res['counts'].append('edited-then-reevaluated')
    surfs = optic.surface_group.surfaces
    res['nsurf'] = len(surfs)
    res['has_mirror'] = any(s.is_reflective for s in surfs)
    res['conic_free'] = all(type(s.geometry).__name__ in ('Plane', 'StandardGeometry') and
                            float(getattr(s.geometry, 'k', 0.0) or 0.0) == 0.0 for s in surfs)
    res['obj_inf'] = bool(optic.object_surface.is_infinite)
    res['ap'] = optic.aperture.ap_type
    res['field'] = str(optic.field_type)
    res['stop'] = optic.surface_group.stop_index
    try:
        with np.errstate(all='ignore'):
            res['impl'] = impl_eval(optic, case.get('ops', 'full'))
    except Exception as e:  # noqa
        res['err'] = 'impl_error:' + type(e).__name__
        return res
    try:
        res['tokens'] = driver_tokens(optic)
    except Exception as e:  # noqa
        res['err'] = 'encode_error:' + type(e).__name__
        return res
    res['ok'] = True
    flat = [v for l in res['impl']['third'] for v in l]
    res['finite'] = all(math.isfinite(v) for v in flat)
    dn = np.array(fl(optic.n(WF))) - np.array(fl(optic.n(WC)))
    res['dispersive'] = bool(np.any(dn != 0))
    # independent specification
    try:
        sp = c04.spec_all(optic)
        if 'marginal' in sp and sp.get('chief') and sp['chief'][0] is not None:
            res['spec'] = {}
            for key, (sgn, prev) in (('spec', (True, False)), ('w_colour', (True, True)),
                                     ('w_mirror', (False, False)), ('w_both', (False, True))):
                with np.errstate(all='ignore'):
                    res['spec'][key] = spec_terms(optic, sp, sgn, prev)
    except ZeroDivisionError:
        res['counts'].append('spec_zero_division')
    except Exception as e:  # noqa
        res['counts'].append('spec_error:' + type(e).__name__)
    # stop-shift
    j = case.get('shift_stop_to')
    if j is not None and res['finite']:
        nopt = len(surfs) - 2
        j = 1 + (j % nopt)
        if j != res['stop']:
            try:
                with np.errstate(all='ignore'):
                    res['shift'] = stop_shift_eval(case, j)
                    res['shift']['to'] = j
                    ya, ua = optic.paraxial.marginal_ray()
                    res['shift']['ya0'] = fl(ya)
                    res['shift']['ua0'] = fl(ua)
                    res['shift']['inv0'] = float(optic.paraxial.invariant())
            except Exception as e:  # noqa
                res['counts'].append('shift_error:' + type(e).__name__)
    if case.get('closed_form') and res['finite']:
        try:
            with np.errstate(all='ignore'):
                res['closed'] = closed_form_eval(optic, res['impl']['acc']['TSC'][0])
        except Exception as e:  # noqa
            res['counts'].append('closed_form_error:' + type(e).__name__)
    # real marginal ray
    nn = fl(optic.n())
    if case.get('real') and res['finite'] and nn[-1] == nn[-2]:
        try:
            with np.errstate(all='ignore'):
                res['real'] = real_eval(optic)
        except Exception as e:  # noqa
            res['counts'].append('real_error:' + type(e).__name__)
    return res


# ------------------------------------------------------------------ decoding the model's answer
def decode_variant(t):
    n2 = t.nat()
    v = {'n2': n2}
    v['third'] = [t.floats(n2) for _ in range(12)] + [t.floats(5)]
    v['acc'] = {name: t.floats(n2) for name in ARR}
    v['seidels'] = t.floats(5)
    v['sums'] = dict(zip(ARR, t.floats(12)))
    v['opseidel'] = t.floats(5)
    v['ops'] = {name: t.floats(n2) for name in ARR}
    return v


def decode(line):
    t = Toks(line)
    if t.error:
        return None
    vs = {}
    for key in ('cc', 'cs', 'sc', 'ss'):      # (indices: code/signed) x (colour: code/spec)
        vs[key] = decode_variant(t)
    n2 = vs['cc']['n2']
    cl = t.floats(7 * n2)
    vs['classical'] = [cl[7 * k:7 * k + 7] for k in range(n2)]
    return vs


def observables(impl, mv):
    """(name, impl list, model list) for every hard observable"""
    obs = []
    for j, name in enumerate(ARR + ['S']):
        obs.append(('third_order.' + name, impl['third'][j], mv['third'][j]))
    obs.append(('seidels', impl['seidels'], mv['seidels']))
    for name in ARR:
        obs.append((name + '()', impl['acc'][name], mv['acc'][name]))
    for name, vals in impl['ops'].items():
        obs.append(('AberrationOperand.' + name, vals, mv['ops'][name]))
    names = sorted(impl['sums'])
    obs.append(('AberrationOperand.*_sum', [impl['sums'][n] for n in names], [mv['sums'][n] for n in names]))
    js = sorted(impl['opseidel'])
    obs.append(('AberrationOperand.seidels', [impl['opseidel'][j] for j in js], [mv['opseidel'][j - 1] for j in js]))
    return obs


def variant_agrees(impl, mv):
    for _, a, b in observables(impl, mv):
        if len(a) != len(b) or not all(close(x, y, RTOL, ATOL) for x, y in zip(a, b)):
            return False
    return True


# ------------------------------------------------------------------ property predicate
def scale_of(*lists):
    return max([abs(v) for l in lists for v in l if math.isfinite(v)] + [0.0])


def predicate(ctx, r):
    case, impl = r['case'], r['impl']
    T = dict(zip(ARR + ['S'], impl['third']))
    n2 = len(T['TSC'])
    uL = None
    # ---- identities (hold for every lens, whatever the formulas are)
    if not arr_close(T['TCC'], [3 * v for v in T['CC']], 1e-12, 1e-14):
        ctx.fail('TCC = 3 CC', case, T['TCC'], [3 * v for v in T['CC']])
    for name in ARR:
        if not arr_close(impl['acc'][name], T[name], 1e-12, 1e-14):
            ctx.fail('accessor %s() agrees with third_order()' % name, case, impl['acc'][name], T[name])
    if not arr_close(impl['seidels'], T['S'], 1e-12, 1e-14):
        ctx.fail('seidels() agrees with third_order()', case, impl['seidels'], T['S'])
    for name, vals in impl['ops'].items():
        if not arr_close(vals, impl['acc'][name], 1e-12, 1e-14):
            ctx.fail('AberrationOperand.%s(optic,k) is entry k of %s()' % (name, name), case, vals,
                     impl['acc'][name])
    for name in impl['sums']:
        s = sum(impl['acc'][name])
        sc = sum(abs(v) for v in impl['acc'][name])
        if abs(impl['sums'][name] - s) > 1e-11 * sc + 1e-300:
            ctx.fail('AberrationOperand.%s_sum is the sum of the surface terms' % name, case,
                     impl['sums'][name], s)
    for j, v in impl['opseidel'].items():
        if not arr_close([v], [impl['seidels'][j - 1]], 1e-12, 1e-14):
            ctx.fail('AberrationOperand.seidels(optic,%d) is S[%d]' % (j, j - 1), case, v, impl['seidels'][j - 1])
    sp = r.get('spec')
    if sp is None:
        ctx.count('pred: no independent spec (no stop / no chief ray)')
        return
    S0 = sp['spec']
    uL, nL = S0['uL'], S0['nL']
    H = S0['H']
    if math.isfinite(uL) and abs(uL) >= 1e-9 and nL != 0 and math.isfinite(H) and abs(H) < 1e-12 \
            and not r.get('has_mirror'):
        # only the axial field point is defined: the Lagrange invariant is 0.  The spherical term does not depend on
        # the chief ray at all (S_I = -A^2 y Delta(u/n)); the tree computes it as B i^2 h' with B ~ 1/H, h' ~ H and
        # sets B = 0 when H = 0, so every term comes out 0 (finding F-C08-3, found by the referee pass over the
        # theorems: the guard `inv != 0` of terms_eq_classical excludes an input the code accepts)
        ctx.count('zero Lagrange invariant (axial field only)')
        want = S0['TSC']
        if all(math.isfinite(v) for v in want) and not arr_close(T['TSC'], want, 1e-7, 1e-9):
            zero = all(v == 0 for v in T['TSC']) and any(abs(v) > 1e-12 for v in want)
            ctx.fail('TSC equals the classical surface contribution -A^2 y Delta(u/n) / (2 n\'u\') (axial field only)',
                     case, T['TSC'], want, finding_key='zero-invariant-kills-spherical' if zero else None)
        return
    if not (math.isfinite(uL) and math.isfinite(H)) or abs(uL) < 1e-9 or abs(H) < 1e-12 or nL == 0:
        ctx.count('out-of-domain: H = 0 or zero power')
        return
    # longitudinal = transverse / (-u'), sums = -2 n'u' * sum of transverse terms
    for lo, tr in (('SC', 'TSC'), ('AC', 'TAC'), ('PC', 'TPC'), ('LchC', 'TAchC')):
        exp = [-v / uL for v in T[tr]]
        if not arr_close(T[lo], exp, 1e-7, 1e-9):
            ctx.fail('%s = -%s / u\'_last' % (lo, tr), case, T[lo], exp)
    for j, tr in enumerate(('TSC', 'CC', 'TAC', 'TPC', 'DC')):
        exp = -2 * abs(nL) * uL * sum(T[tr])
        sc = 2 * abs(nL * uL) * sum(abs(v) for v in T[tr])
        # with signed indices n'_last is negative behind an odd number of mirrors; which sign the
        # library uses there is judged below through S itself (mirror finding), not here
        if abs(T['S'][j] - exp) > 1e-7 * sc + 1e-300 and not \
                (r['has_mirror'] and abs(T['S'][j] + exp) <= 1e-7 * sc + 1e-300):
            ctx.fail('S[%d] = -2 n\'u\' sum(%s)' % (j, tr), case, T['S'][j], exp)
    if not r['conic_free']:
        ctx.count('pred: conic/aspheric surfaces - classical spherical formulas not applicable')
        return
    ctx.count('pred: classical formulas evaluated')
    # internal consistency of the specification: two classical forms of S_V
    cl = S0['classical']
    for k in range(n2):
        a = cl['A'][k]
        if math.isfinite(cl['SVq'][k]) and abs(a) > 1e-3 * (abs(S0['uL']) + 1e-6):
            sc = scale_of(cl['SV'], cl['SIII'], cl['SIV'])
            if abs(cl['SV'][k] - cl['SVq'][k]) > 1e-6 * sc / min(1.0, abs(a)) + 1e-300:
                ctx.count('spec: S_V quotient form differs from pupil-coma form')
    # ---- the Seidel families
    floors = family_floors(T, S0, nL, uL)

    def matches(which, names):
        W = sp[which]
        return all(arr_close(T[n], W[n], floor=floors[n]) for n in names) and \
            (names is COLOUR_ARR or arr_close(T['S'], W['S'], floor=floors['S']))
    if matches('spec', SEIDEL_ARR):
        ctx.count('pred: Seidel terms = classical')
    elif r['has_mirror'] and matches('w_mirror', SEIDEL_ARR):
        bad = [n for n in SEIDEL_ARR + ['S'] if not arr_close(T[n], S0[n], floor=floors[n])][0]
        ctx.fail('Seidel terms equal the classical contributions (mirror = index sign reversal)', case,
                 {bad: T[bad]}, {bad: S0[bad]}, finding_key=K_MIRROR)
    else:
        bad = [n for n in SEIDEL_ARR + ['S'] if not arr_close(T[n], S0[n], floor=floors[n])][0]
        ctx.fail('%s equals the classical surface contribution' % bad, case, {bad: T[bad]}, {bad: S0[bad]})
    # ---- colour terms
    if matches('spec', COLOUR_ARR):
        ctx.count('pred: colour terms = classical')
    else:
        bad = [n for n in COLOUR_ARR if not arr_close(T[n], S0[n], floor=floors[n])][0]
        obs, exp = {bad: T[bad]}, {bad: S0[bad]}
        clause = 'colour terms equal C_I = A y D(dn/n), C_II = Abar y D(dn/n) / (n\'u\')'
        if matches('w_colour', COLOUR_ARR):
            ctx.fail(clause, case, obs, exp, finding_key=K_COLOUR)
        elif r['has_mirror'] and matches('w_mirror', COLOUR_ARR):
            ctx.fail(clause, case, obs, exp, finding_key=K_MIRROR)
        elif r['has_mirror'] and matches('w_both', COLOUR_ARR):
            ctx.fail(clause, case, obs, exp, finding_key=K_COLOUR)
            ctx.fail(clause, case, obs, exp, finding_key=K_MIRROR)
        else:
            ctx.fail('%s equals the classical surface contribution' % bad, case, obs, exp)
    # ---- stop-shift invariance
    sh = r.get('shift')
    if sh is not None:
        ok_hyp = all(math.isfinite(v) for v in sh['S'] + sh['ya'] + sh['ua'] + [sh['inv']])
        ok_hyp = ok_hyp and arr_close(sh['ya'], sh['ya0'], 1e-9, 1e-11) and arr_close(sh['ua'], sh['ua0'], 1e-9, 1e-11) \
            and abs(sh['inv'] - sh['inv0']) <= 1e-9 * abs(sh['inv0'])
        if not ok_hyp:
            ctx.count('stop-shift: hypothesis not met (marginal ray or H changes) - skipped')
        else:
            ctx.count('stop-shift: checked')
            f = 2 * abs(nL * uL)
            for j, tr in ((0, 'TSC'), (3, 'TPC')):
                sc = f * sum(abs(v) for v in T[tr]) + 1e-300
                if abs(sh['S'][j] - T['S'][j]) > 1e-7 * sc:
                    ctx.fail('S[%d] does not depend on the stop position (stop %d -> %d)' % (j, r['stop'], sh['to']),
                             case, sh['S'][j], T['S'][j])
    # ---- single surface: exact closed form (theorem tsc_predicts_real_partial) on the implementation
    cf = r.get('closed')
    if cf is not None and math.isfinite(cf['real']) and math.isfinite(cf['pred']):
        ctx.count('closed form (single surface): checked')
        if abs(cf['real'] - cf['pred']) > 1e-8 * abs(cf['pred']) + 1e-12:
            ctx.fail('single spherical surface: real transverse error = TSC * 4/(D1*D2)', case, cf['real'], cf['pred'])
        ctx.stats['closed form: max factor 4/(D1 D2)'] = max(ctx.stats.get('closed form: max factor 4/(D1 D2)', 0.0),
                                                              cf['factor'])
    # ---- TSC predicts the real marginal-ray error
    re = r.get('real')
    if re is not None:
        e1, e2, e3 = re['e']
        if not all(math.isfinite(v) for v in re['e']):
            ctx.count('real: ray does not reach the image - skipped')
        else:
            r1 = (4 * e2 - e1) / 3
            r2 = (4 * e3 - e2) / 3
            est = (16 * r2 - r1) / 15
            Tsum = sum(T['TSC'])
            Ta = sum(abs(v) for v in T['TSC'])
            Tspec = sum(S0['TSC'])
            Tas = sum(abs(v) for v in S0['TSC'])
            noise = 2e-12 * (abs(re['zf']) + re['ymax'] + 1.0) / RHOS[-1] ** 3
            tol = 1e-5 * max(Ta, Tas) + 20 * abs(est - r2) + noise
            if max(Ta, Tas) < 50 * noise or 20 * abs(est - r2) > 0.02 * max(Ta, Tas):
                ctx.count('real: below resolution / strongly aberrated - skipped')
            else:
                ctx.count('real: checked')
                if abs(Tspec - est) > tol:
                    ctx.count('real: classical spec itself differs from the real ray (spec suspect)')
                if abs(Tsum - est) > tol:
                    key = K_MIRROR if (r['has_mirror'] and abs(Tspec - est) <= tol) else None
                    ctx.fail('sum TSC predicts the real marginal-ray transverse error as aperture -> 0', case,
                             {'sum_TSC': Tsum, 'ratio_real_over_TSC': est / Tsum if Tsum else None},
                             {'real_error_over_rho^3': est, 'tol': tol}, finding_key=key)
                elif abs(Tsum) > 0.05 * Ta:
                    ctx.stats.setdefault('_ratios', []).append(est / Tsum)


# ------------------------------------------------------------------ cases
def cases(ctx):
    out = []
    for n, _ in lensgen.sample_classes():
        out.append({'sample': n, 'ops': {'max_full': 12 if ctx.quick() else 60, 'names': ctx.rng.sample(ARR, 2)},
                    'shift_stop_to': ctx.rng.randint(0, 30), 'real': True})
    n = 300 if ctx.quick() else 7000
    for i in range(n):
        rng = ctx.rng
        stop = rng.choice(['first', 'interior', 'last', 'any'])
        kind = rng.random()
        kw = {}
        if kind < 0.45:
            # stop-shift hypothesis satisfiable: object at infinity, or object NA with object heights
            if rng.random() < 0.6:
                kw = dict(finite_object=False, ap_types=('EPD', 'imageFNO'), field_types=('angle',))
            else:
                kw = dict(finite_object=True, ap_types=('objectNA',), field_types=('object_height',))
        d = lensgen.gen_lens(rng, allow_conic=False, allow_asphere=False, catalog=True,
                             allow_mirror=rng.random() < 0.3, stop=stop, immersed_image=rng.random() < 0.25, **kw)
        if rng.random() < 0.04:
            d['fields'] = [[0.0]]          # only the axial field point is defined (Lagrange invariant 0)
        nopt = len(d['surfaces']) - 2
        if nopt <= 3 or rng.random() < (0.15 if ctx.quick() else 0.04):
            ops = 'full'
        else:
            ops = rng.sample(ARR, 2)
        out.append({'desc': d, 'ops': ops,
                    'shift_stop_to': rng.randint(0, 30) if (kind < 0.45 and nopt >= 2) else None,
                    'real': rng.random() < 0.6})
        if rng.random() < 0.3:
            ns = len(d['surfaces'])
            edits = []
            for _ in range(rng.randint(1, 3)):
                k = rng.randint(1, ns - 2)
                u = rng.random()
                nxt_mirror = any(d['surfaces'][q].get('material', {}).get('kind') == 'mirror' for q in (k, k + 1))
                if u < 0.6 and k <= ns - 3 and not nxt_mirror:
                    edits.append(['si', lensgen.dyadic(rng, 1.3, 2.0, 8), k])      # a glass becomes a constant index
                elif u < 0.8:
                    edits.append(['sr', lensgen.dyadic(rng, 15, 300, 3) * rng.choice([1, -1]), k])
                else:
                    edits.append(['st', lensgen.dyadic(rng, 0.5, 30, 4), k])
            out.append({'desc': d, 'ops': ops, 'shift_stop_to': None, 'real': False, 'edits': edits})
    # buried surfaces: cemented pairs of catalogue glasses whose indices cross inside the visible; at the crossing
    # wavelength (taken as primary) the cemented surface has no power but a dispersion step, i.e. colour terms only
    for g1, g2 in (('N-SK16', 'F2'), ('N-BK7', 'N-K5'), ('N-SK2', 'F5'), ('N-BAK4', 'LLF1')):
        wx = index_crossing(g1, g2)
        if wx is None:
            continue
        rng = ctx.rng
        for _ in range(1 if ctx.quick() else 8):
            R1 = lensgen.dyadic(rng, 30, 120, 3)
            d = {'surfaces': [{'index': 0, 'radius': 'inf', 'thickness': 'inf', 'material': {'kind': 'air'}},
                              {'index': 1, 'radius': R1, 'thickness': lensgen.dyadic(rng, 3, 8, 3),
                               'material': {'kind': 'catalog', 'name': g1}, 'is_stop': True},
                              {'index': 2, 'radius': -lensgen.dyadic(rng, 25, 90, 3), 'thickness': lensgen.dyadic(rng, 1, 4, 3),
                               'material': {'kind': 'catalog', 'name': g2}},
                              {'index': 3, 'radius': -lensgen.dyadic(rng, 100, 400, 3), 'thickness': lensgen.dyadic(rng, 40, 120, 3),
                               'material': {'kind': 'air'}},
                              {'index': 4, 'radius': 'inf', 'thickness': 0, 'material': {'kind': 'air'}}],
                 'aperture': ['EPD', lensgen.dyadic(rng, 4, 12, 2)], 'field_type': 'angle',
                 'fields': [[0.0], [lensgen.dyadic(rng, 1, 5, 3)]],
                 'wavelengths': [[0.4861327, 0], [wx, 1], [0.6562725, 0]]}
            out.append({'desc': d, 'ops': 'full', 'shift_stop_to': None, 'real': False, 'buried': [g1, g2, wx]})
    for i in range(12 if ctx.quick() else 400):
        rng = ctx.rng
        R = lensgen.dyadic(rng, 15, 300, 3) * rng.choice([1, -1])
        d = {'surfaces': [{'index': 0, 'radius': 'inf', 'thickness': 'inf', 'material': {'kind': 'air'}},
                          {'index': 1, 'radius': R, 'thickness': lensgen.dyadic(rng, 20, 200, 3),
                           'material': {'kind': 'ideal', 'n': lensgen.dyadic(rng, 1.3, 2.0, 8)}, 'is_stop': True},
                          {'index': 2, 'radius': 'inf', 'thickness': 0, 'material': {'kind': 'air'}}],
             'aperture': ['EPD', lensgen.dyadic(rng, 0.5, abs(R), 3)], 'field_type': 'angle',
             'fields': [[lensgen.dyadic(rng, 1, 5, 3)]], 'wavelengths': [[0.5875618, 1]]}
        out.append({'desc': d, 'ops': 'full', 'shift_stop_to': None, 'real': True, 'closed_form': True})
    return out


def index_crossing(g1, g2, lo=0.45, hi=0.70):
    """wavelength in [lo, hi] at which two catalogue glasses have the same index (bisection), or None"""
    import contextlib, io
    from optiland.materials import Material
    try:
        with contextlib.redirect_stdout(io.StringIO()):
            a, b = Material(g1), Material(g2)
        f = lambda w: float(np.ravel(a.n(w))[0]) - float(np.ravel(b.n(w))[0])      # noqa: E731
        fl_, fh = f(lo), f(hi)
        if not (math.isfinite(fl_) and math.isfinite(fh)) or fl_ * fh > 0:
            return None
        for _ in range(60):
            mid = 0.5 * (lo + hi)
            fm = f(mid)
            if fl_ * fm <= 0:
                hi, fh = mid, fm
            else:
                lo, fl_ = mid, fm
        return round(0.5 * (lo + hi), 7)
    except Exception:  # noqa
        return None


def make_pool():
    nw = int(os.environ.get('VERIF_WORKERS', '0') or 0) or max(1, min(12, (os.cpu_count() or 2) - 2))
    if nw <= 1:
        return None
    try:
        import multiprocessing as mp
        return mp.get_context('fork').Pool(nw)
    except Exception:  # noqa   (no fork / no semaphores: run serially)
        return None


def run_chunk(pool, cs):
    if pool is None or len(cs) < 8:
        return [eval_case(c) for c in cs]
    return pool.map(eval_case, cs, chunksize=1 if len(cs) <= 600 else 4)


def process(ctx, drv, results):
    keep = []
    for r in results:
        for c in r['counts']:
            ctx.count(c)
        if not r['ok']:
            ctx.count(r['err'])
            if r['err'].startswith('impl_error'):
                # the model is total: an exception from an accessor/wrapper is a disagreement
                ctx.case(r['case'], False)
                ctx.disagreements.append({'what': 'implementation raised ' + r['err'], 'model': 'returns values',
                                          'case': r['case']})
            continue
        keep.append(r)
    outs = drv.batch(['aberr ' + r['tokens'] for r in keep])
    for r, out in zip(keep, outs):
        case, impl = r['case'], r['impl']
        ctx.case(case, r['finite'])
        ctx.count('nsurf=%d' % r['nsurf'])
        ctx.count('ap=' + r['ap'])
        ctx.count('obj=' + ('inf' if r['obj_inf'] else 'finite'))
        ctx.count('stop@%s' % ('first' if r['stop'] == 1 else 'last' if r['stop'] == r['nsurf'] - 2 else 'interior'))
        ctx.count('mirrors' if r['has_mirror'] else 'no-mirror')
        ctx.count('dispersive' if r['dispersive'] else 'non-dispersive')
        ctx.count('operand wrappers: ' + ('all 12 x every k' if impl['ops_mode'] == 'full' else '2 x every k'))
        if list(impl['third_shapes'][1]) != [len(impl['third'][0])]:
            ctx.count('note: third_order() returns SC with shape (N-2,1) while SC() returns (N-2,)')
        if not r['finite']:
            ctx.count('out-of-domain: non-finite terms (zero power / H undefined) - skipped')
            continue
        mv = decode(out)
        if mv is None:
            ctx.disagreements.append({'what': 'driver error', 'model': out[:200], 'case': case})
            continue
        chosen = 'cc'
        if not variant_agrees(impl, mv['cc']):
            for key in ('ss', 'cs', 'sc'):
                if variant_agrees(impl, mv[key]):
                    chosen = key
                    break
        if chosen != 'cc':
            ctx.count('implementation agrees with repaired variant ' + chosen)
            if len(ctx.notes) < 3:
                ctx.notes.append('implementation agrees with model variant %s (a recorded defect appears repaired '
                                 'upstream)' % chosen)
        for name, a, b in observables(impl, mv[chosen]):
            ctx.cmp_list(name, a, b, case, rtol=RTOL, atol=ATOL)
        # soft: the model's own classical contributions against the Python specification
        sp = r.get('spec')
        if sp is not None and r['conic_free']:
            cl = sp['spec']['classical']
            for k, row in enumerate(mv['classical']):
                for j, key in enumerate(('SI', 'SII', 'SIII', 'SIV', 'SVq', 'CI', 'CII')):
                    a, b = cl[key][k], row[j]
                    if math.isfinite(a) and math.isfinite(b) and key != 'SVq':
                        sc = scale_of(cl[key])
                        if abs(a - b) > 1e-6 * max(abs(a), abs(b)) + 1e-8 * sc:
                            ctx.drift.append({'what': 'classical %s[%d]: Lean spec vs Python spec' % (key, k),
                                              'python': a, 'lean': b, 'case': case})
        predicate(ctx, r)


def run(tier, seed, replay=None):
    ctx = Ctx('C08', tier, seed)
    ctx.stats['rule'] = ('24 bundled samples + random lenses of spheres and planes (1-12 surfaces, mirrors in ~10%, '
                         'catalogue and ideal glasses, finite/infinite object, EPD/imageFNO/objectNA, stop anywhere); '
                         'a case is non-trivial when all 13 arrays are finite; distinct by descriptor hash')
    aud = audit('C08')
    drv = Driver()
    cs = [replay] if replay else cases(ctx)
    pool = make_pool() if len(cs) >= 8 else None
    try:
        for i in range(0, len(cs), 1500):
            process(ctx, drv, run_chunk(pool, cs[i:i + 1500]))
    finally:
        if pool is not None:
            pool.terminate()
    ratios = ctx.stats.pop('_ratios', [])
    if ratios:
        dev = sorted(abs(v - 1) for v in ratios)
        ctx.stats['real/TSC ratio: n'] = len(dev)
        ctx.stats['real/TSC ratio: max |ratio-1|'] = dev[-1]
        ctx.stats['real/TSC ratio: median |ratio-1|'] = dev[len(dev) // 2]
    return finish(ctx, aud,
                  partial=['tsc_predicts_real: the small-aperture limit is a theorem only for one spherical surface '
                           'with the object at infinity; for general lenses it is checked numerically '
                           '(Richardson-extrapolated real marginal ray vs sum TSC)'],
                  assumptions=['scalar NumPy float64 arithmetic is IEEE-754 and deterministic',
                               'refractive indices at d/F/C are taken from the implementation (material models are '
                               'the subject of C18)',
                               'the paraxial marginal/chief rays are those of paraxial.py (C04 proves they are '
                               'matrix optics); the harness specification recomputes them by ABCD matrices'])
