"""C09  Reported OPD is the path difference to the chief-ray reference sphere.

Correspondence (hard observables): `Wavefront(optic, fields, wavelengths, num_rays, distribution)
.data[i][j]` (opd in waves, intensity), `OPD.rms()`, `OPDFan` data / pupil coordinates / slices,
`RmsWavefrontErrorVsField._wavefront_error/_field`, `RayOperand.OPD_difference`,
`GaussianQuadrature` points and weights, `CrossDistribution` points  vs  `Model/Wavefront.lean` at
Float (native driver).  The model is fed the implementation's own image-surface records (obtained by
repeating the two trace calls `Wavefront` makes: `trace_generic(*field, 0, 0, w)` and
`trace(*field, w, None, distribution)`), so a tracing disagreement (C02) is not reported here again.

Search predicate (independent NumPy specification, below): the optical path difference to the
chief-ray reference sphere recomputed from rays traced one batch per pupil sample with
`trace_generic`, from the per-surface *positions* only (optical path = sum of index x segment length,
referred to one plane wavefront perpendicular to the launch direction for an infinite object and to
the object point for a finite one; from the image surface back to the sphere along the ray, times the
image-space index).  Fields with Hx != 0 or non-zero vignetting are outside the quantifier.
"""
import math
import numpy as np
from .core import fhex, b01, Toks, Driver, Ctx, audit, finish, close
from . import lensgen, c04, realenc

DISTS = ['hexapolar', 'uniform', 'line_y', 'line_x', 'cross', 'ring', 'random', 'gaussian_quad']
ATOL = 1e-6      # waves (DESIGN 3.5)
RTOL = 1e-9


def scal(v):
    return float(np.ravel(v)[0])


# ------------------------------------------------------------------ case construction
def make_distribution(name, n, seed, on_axis=False):
    """the `distribution` argument for Wavefront (a name or a ready-made object)"""
    from optiland.distribution import RandomDistribution, GaussianQuadrature
    if name == 'random':
        d = RandomDistribution(seed=seed)
        d.generate_points(n)
        return d
    if name == 'gaussian_quad':
        d = GaussianQuadrature(is_symmetric=on_axis)
        d.generate_points(n)
        return d
    return name


def num_rays_for(rng, dist, quick):
    if dist == 'hexapolar':
        return rng.randint(1, 6 if quick else 9)
    if dist == 'uniform':
        return rng.randint(2, 12 if quick else 20)
    if dist in ('line_x', 'line_y', 'cross'):
        return rng.randint(1, 33)
    if dist == 'ring':
        return rng.randint(1, 40)
    if dist == 'random':
        return rng.randint(1, 80)
    return rng.randint(1, 6)


def build(case):
    optic = lensgen.build_case(case)
    if case.get('image_solve'):
        # refocus on the paraxial image; keep the prescribed image distance when that image is virtual
        # (the image surface would lie behind the rays and every real ray would be lost)
        cs = optic.surface_group.surfaces[-1].geometry.cs
        z0 = cs.z
        try:
            optic.image_solve()
            optic.trace_generic(0.0, 0.0, 0.0, 0.0, optic.primary_wavelength)
            ok = math.isfinite(scal(cs.z)) and math.isfinite(scal(optic.surface_group.z[-1, :]))
        except Exception:  # noqa
            ok = False
        if not ok:
            cs.z = z0
    return optic


def in_quantifier(optic):
    """None when the lens is inside the property's quantifier, else the reason"""
    f = optic.fields
    if np.any(np.asarray(f.x_fields) != 0):
        return 'x fields'
    if np.any(np.asarray(f.vx) != 0) or np.any(np.asarray(f.vy) != 0):
        return 'vignetting factors'
    inf = bool(np.all(optic.object_surface.is_infinite))
    if inf and optic.field_type != 'angle':
        return 'infinite object with height fields'
    if (not inf) and optic.field_type != 'object_height':
        return 'finite object with angle fields'
    if np.any(np.asarray(f.y_fields) < 0):
        return 'negative y fields'
    return None


# ------------------------------------------------------------------ implementation side
def image_records(optic):
    sg = optic.surface_group
    return {k: np.array(getattr(sg, k)[-1, :], dtype=float).copy()
            for k in ('x', 'y', 'z', 'L', 'M', 'N', 'intensity', 'opd')}


def ray_tokens(rec, j):
    return [fhex(rec[k][j]) for k in ('x', 'y', 'z', 'L', 'M', 'N', 'intensity', 'opd')]


def cfg_tokens(optic, field, w):
    surfs = optic.surface_group.surfaces
    is_angle = optic.field_type == 'angle'
    epd = scal(optic.paraxial.EPD()) if is_angle else 0.0
    n_img = scal(surfs[-1].material_post.n(w))   # the recorded direction is the one *after* the image surface
    n_obj = scal(surfs[0].material_post.n(w))
    vals = [scal(optic.fields.max_x_field), scal(optic.fields.max_y_field), float(field[0]), float(field[1]),
            epd, scal(optic.paraxial.XPL()), scal(optic.surface_group.positions[-1]), n_img, n_obj, float(w)]
    return [b01(is_angle)] + [fhex(v) for v in vals], n_img, n_obj


def start_records(optic):
    s0 = optic.surface_group.surfaces[0]
    return {k: np.array(np.atleast_1d(getattr(s0, k)), dtype=float).copy()
            for k in ('x', 'y', 'z', 'L', 'M', 'N', 'intensity', 'opd')}


def wfdata_line(optic, field, w, dist_obj):
    """repeat the two trace calls of `Wavefront` and encode their image-surface records; second line: the
    whole chain through the real-trace model of C02, from the launch records (soft observable)"""
    optic.trace_generic(*field, Px=0.0, Py=0.0, wavelength=w)
    chief = image_records(optic)
    chief0 = start_records(optic)
    if chief['x'].size != 1:
        raise ValueError('chief ray record has %d entries' % chief['x'].size)
    optic.trace(*field, w, None, dist_obj)
    rec = image_records(optic)
    rec0 = start_records(optic)
    n = rec['x'].size
    px = np.asarray(dist_obj.x, dtype=float)
    py = np.asarray(dist_obj.y, dtype=float)
    if px.size != n:
        raise ValueError('distribution size %d != record size %d' % (px.size, n))
    cfg, n_img, n_obj = cfg_tokens(optic, field, w)
    toks = cfg + ray_tokens(chief, 0) + [str(n)]
    for j in range(n):
        toks += ray_tokens(rec, j)
    toks.append(str(n))
    for j in range(n):
        toks += [fhex(px[j]), fhex(py[j])]
    chain = None
    try:
        pts = toks[-(2 * n + 1):]
        ct = cfg + realenc.lens_tokens(optic, w) + ray_tokens(chief0, 0) + [str(n)]
        for j in range(n):
            ct += ray_tokens(rec0, j)
        chain = 'wfchain ' + ' '.join(ct + pts)
    except Exception:  # noqa  (a coating / geometry the real-trace model does not encode)
        chain = None
    return 'wfdata ' + ' '.join(toks), {'n_img': n_img, 'n_obj': n_obj, 'n': n}, chain


def decode_wfdata(line):
    t = Toks(line)
    if t.error:
        return None
    head = t.floats(6)
    oc = t.floats()
    os_ = t.floats()
    it = t.floats()
    r = t.floats(2)
    inside = [v == 1.0 for v in t.floats()]
    return {'inside': inside, 'sphere': head[:4], 'ref_code': head[4], 'ref_spec': head[5], 'code': oc, 'spec': os_,
            'intensity': it, 'rms_code': r[0], 'rms_spec': r[1]}


# ------------------------------------------------------------------ independent specification
GQ_R = {1: [0.70711], 2: [0.45970, 0.88807], 3: [0.33571, 0.70711, 0.94196],
        4: [0.26350, 0.57446, 0.81853, 0.96466], 5: [0.21659, 0.48038, 0.70711, 0.87706, 0.97626],
        6: [0.18375, 0.41158, 0.61700, 0.78696, 0.91138, 0.98300]}
GQ_W = {1: [0.5], 2: [0.25, 0.25], 3: [0.13889, 0.22222, 0.13889], 4: [0.08696, 0.16304, 0.16304, 0.08696],
        5: [0.059231, 0.11966, 0.14222, 0.11966, 0.059231],
        6: [0.04283, 0.09019, 0.11698, 0.11698, 0.09019, 0.04283]}     # Forbes 1988, radial Gaussian quadrature


def spec_gq(on_axis, n):
    """(px, py, weight) per sample: rings of Forbes' scheme; one azimuth with weight 6 w_k on axis, three
    azimuths (-60, 0, +60 degrees) with weight 2 w_k each otherwise"""
    pts = []
    for r, wk in zip(GQ_R[n], GQ_W[n]):
        if on_axis:
            pts.append((r, 0.0, 6.0 * wk))
        else:
            for th in (-1.04719755, 0.0, 1.04719755):
                pts.append((r * math.cos(th), r * math.sin(th), 2.0 * wk))
    return pts


def spec_xpl(optic):
    """axial exit-pupil position relative to the image surface from 2x2 matrix optics (C04's
    independent specification); None when it is not defined"""
    try:
        sp = c04.spec_all(optic)
        v = sp.get('XPL')
        if v is None or not math.isfinite(v):
            return None
        return float(v)
    except Exception:  # noqa
        return None


def spec_opd(optic, field, w, px, py, xpl):
    """Independent recomputation.  Returns dict: 'opd' (indices honoured), 'opd_n1' (index behind the image
    surface and object-space index taken as 1: the formula of findings F-C09-1/2), 'domain' (bool per sample),
    'common_wavefront' (the launch data really are one parallel bundle / one object point), 'atol', 'scale'."""
    px = np.asarray(px, dtype=float)
    py = np.asarray(py, dtype=float)
    Px = np.concatenate([[0.0], px])
    Py = np.concatenate([[0.0], py])
    optic.trace_generic(float(field[0]), float(field[1]), Px.copy(), Py.copy(), w)
    surfs = optic.surface_group.surfaces
    P = np.stack([np.array([np.atleast_1d(getattr(s, k)) for s in surfs], dtype=float) for k in 'xyz'], axis=-1)
    D = np.stack([np.array([np.atleast_1d(getattr(s, k)) for s in surfs], dtype=float) for k in 'LMN'], axis=-1)
    nray = P.shape[1]
    opl = np.zeros(nray)
    for j in range(1, len(surfs)):
        pre = surfs[j].material_pre if surfs[j].material_pre is not None else surfs[j].material_post
        opl = opl + scal(pre.n(w)) * np.linalg.norm(P[j] - P[j - 1], axis=-1)
    n_obj = scal(surfs[0].material_post.n(w))
    # The image surface is an ordinary interface in this tree: the recorded direction D[-1] is the one after it,
    # in the medium `material_post` of the image surface.  The wavefront is evaluated in that space.
    n_img = scal(surfs[-1].material_post.n(w))
    inf = bool(np.all(optic.object_surface.is_infinite))
    if inf:
        # common wavefront: the plane through the chief ray's start point perpendicular to the launch direction
        head = np.sum(D[0] * (P[0] - P[0][0]), axis=-1)
        parallel = bool(np.all(np.linalg.norm(D[0] - D[0][0], axis=-1) < 1e-12))
    else:
        head = np.zeros(nray)
        parallel = bool(np.all(np.linalg.norm(P[0] - P[0][0], axis=-1) < 1e-9))   # one object point
    zimg = scal(surfs[-1].geometry.cs.z)
    C = P[-1][0]
    R = float(np.linalg.norm(C - np.array([0.0, 0.0, zimg + xpl])))
    v = P[-1] - C
    dv = np.sum(D[-1] * v, axis=-1)
    vv = np.sum(v * v, axis=-1)
    with np.errstate(invalid='ignore'):
        s = dv + np.sqrt(dv * dv - (vv - R * R))      # going back from the image surface: P - s D on the sphere
    domain = (vv < R * R) & np.isfinite(s)             # image point inside the sphere: unique backward crossing
    # every segment is travelled forwards: an image_solve behind a mirror can put the image surface in front of the
    # last surface along the ray (virtual propagation, negative distance) - "the path" of such a ray is not defined
    # by the property (the library counts the segment negative, a geometric length counts it positive)
    for j in range(1, len(surfs)):
        with np.errstate(invalid='ignore'):
            domain &= ~(np.sum((P[j] - P[j - 1]) * D[j - 1], axis=-1) < -1e-9)
    # ... and the light leaves the object towards +z (a stop behind a mirror can have its entrance pupil behind the
    # start plane: the generator then launches the rays away from the lens and they meet the far sheet of the mirror)
    with np.errstate(invalid='ignore'):
        domain &= ~(D[0][:, 2] <= 0)
    Wn = opl + n_obj * head - n_img * s
    W1 = opl + head - s
    lam = w * 1e-3
    # Surfaces intersected by Newton-Raphson iteration stop when max|dz| over the *whole batch* is below `tol`
    # (1e-6 mm by default): the same ray traced in another batch may differ by up to about `tol` per such surface
    # (measured: 3e-8 mm = 6e-5 waves on a lens with three even aspheres).  The predicate allows for that.
    tols = [float(getattr(s_.geometry, 'tol', 0.0)) for s_ in surfs
            if type(s_.geometry).__name__ not in ('Plane', 'StandardGeometry')]
    # ... and for the conditioning of the crossing with a reference sphere of radius R (nearly image-telecentric
    # lenses have their exit pupil hundreds of metres away: R^2 - (...) cancels), about 50 ulp of R
    atol = ATOL + 2.0 * sum(tols) / lam + 1e-14 * R / lam
    return {'atol': atol, 'opd': ((Wn[0] - Wn[1:]) / lam), 'opd_n1': ((W1[0] - W1[1:]) / lam), 'domain': domain[1:] & domain[0],
            'common_wavefront': parallel, 'scale': float(np.nanmax(np.abs(opl)) / lam) if nray else 0.0,
            'n_img': n_img, 'n_obj': n_obj, 'R': R, 'optic': optic,
            'rec': {'x': P[..., 0], 'y': P[..., 1], 'z': P[..., 2], 'L': D[..., 0], 'M': D[..., 1], 'N': D[..., 2]}}


def agree(a, b, scale=0.0, atol=ATOL):
    a = float(a)
    b = float(b)
    if a != a or b != b:
        return (a != a) == (b != b)
    if math.isinf(a) or math.isinf(b):
        return a == b
    return abs(a - b) <= atol + RTOL * max(abs(a), abs(b)) + 1e-13 * scale


def known_key(sp):
    if sp['n_img'] != 1.0:
        return 'image-space-index'
    if sp['n_obj'] != 1.0:
        return 'object-space-index'
    return None


def check_opds(ctx, clause, case, impl, sp, where):
    """property predicate for a vector of reported OPDs against the specification `sp`"""
    impl = np.asarray(impl, dtype=float)
    if not sp['common_wavefront']:
        ctx.count('pred: launch data non-finite or not one parallel bundle / one object point (skipped)')
        return True
    ok = True
    for k in range(len(impl)):
        if not sp['domain'][k]:
            ctx.count('pred: sample outside domain (lost ray or image point outside the sphere)')
            continue
        ctx.count('pred: opd samples checked')
        if agree(impl[k], sp['opd'][k], sp['scale'], sp['atol']):
            continue
        key = known_key(sp) if agree(impl[k], sp['opd_n1'][k], sp['scale'], sp['atol']) else None
        if key is None and sp.get('rec') is not None:
            # Newton-Raphson surfaces stop their shared iteration on the whole batch (C02 F22b / C13 F22c): a ray on
            # which the iteration has not converged when it stops is recorded at a rounding- and batch-dependent
            # iterate, the library's batch and the one traced here are two such iterates - not a surface point
            from . import c02
            nsurf = sp['rec']['x'].shape[0]
            try:
                wand = any(c02.nr_wanders(sp['optic'], sp['rec'], j, r) for j in range(1, nsurf) for r in (0, k + 1))
            except Exception:  # noqa
                wand = False
            if wand:
                ctx.count('pred: sample on an unconverged Newton-Raphson iterate (soft; C02 F22b)')
                ctx.drift.append({'what': 'OPD sample on an unconverged Newton-Raphson iterate', 'case': case,
                                  'sample_index': k, 'impl': float(impl[k]), 'spec': float(sp['opd'][k])})
                continue
        ctx.fail(clause, dict(case, where=where, sample_index=k), float(impl[k]), float(sp['opd'][k]), finding_key=key)
        if key is None:
            ok = False
        break
    return ok


def spec_rms(sp):
    v = sp['opd']
    return float(np.sqrt(np.sum(v * v) / len(v))) if len(v) else math.nan


# ------------------------------------------------------------------ correspondence helpers
def cmp_code_or_spec(ctx, what, impl, code, spec, case, inside=None):
    """comparison with the `_code` variant of the model; agreement with `_spec` instead means the recorded
    defect was repaired upstream (noted, never an alarm).  Hard on the property's domain (`inside[k]`: the image
    point of sample k lies inside the reference sphere, so "the" crossing behind the image surface is unique);
    elsewhere (lost rays, blur larger than the sphere: which of two crossings is taken is the code's choice, not
    the property's) the comparison is soft (model drift)."""
    impl = [float(v) for v in impl]
    if len(impl) != len(code):
        ctx.disagreements.append({'what': what + ' (length)', 'impl': len(impl), 'model': len(code), 'case': case})
        return False
    if inside is None:
        inside = [True] * len(impl)
    ref = code
    if not all(close(a, b, RTOL, ATOL) for a, b in zip(impl, code)) and \
            all(close(a, b, RTOL, ATOL) for a, b in zip(impl, spec)):
        ctx.count('agrees with the _spec variant of the model (defect repaired upstream)')
        ref = spec
    ok = True
    for k, (a, b) in enumerate(zip(impl, ref)):
        if not ctx.cmp('%s[%d]' % (what, k), a, b, case, rtol=RTOL, atol=ATOL, hard=bool(inside[k])):
            ok = False
            break
    return ok


# ------------------------------------------------------------------ cases
def gen_cases(ctx):
    rng = ctx.rng
    quick = ctx.quick()
    out = []
    samples = [n for n, _ in lensgen.sample_classes()]
    kinds = ['wavefront'] * 6 + ['opd', 'fan', 'rmsfield', 'opddiff', 'opddiff']
    total = 150 if quick else 8000

    def field_list():
        k = rng.random()
        if k < 0.25:
            return [[0.0, 0.0]]
        if k < 0.5:
            return [[0.0, 1.0]]
        if k < 0.7:
            return [[0, rng.choice([0.7, -0.7, 0.5, -1.0])]]
        if k < 0.85:
            return [[0.0, round(rng.uniform(-1, 1), 6)]]
        return [[0.0, 0.0], [0.0, round(rng.uniform(0.1, 1), 6)]]

    def generic(case):
        kind = case['kind']
        if kind == 'wavefront':
            dist = rng.choice(DISTS)
            case.update(dist=dist, num_rays=num_rays_for(rng, dist, quick), fields=field_list(),
                        wis=sorted(set(rng.randint(0, 2) for _ in range(rng.choice([1, 1, 2])))),
                        seed=rng.randint(0, 10 ** 6))
        elif kind == 'opd':
            case.update(fields=field_list()[:1], wis=[rng.randint(0, 2)], num_rays=rng.randint(1, 6 if quick else 15),
                        view_first=rng.random() < 0.5, projection=rng.choice(['2d', '2d', '3d']))
        elif kind == 'fan':
            case.update(fields=field_list(), wis=sorted(set([rng.randint(0, 2), rng.randint(0, 2)])),
                        num_rays=rng.randint(2, 24))
        elif kind == 'rmsfield':
            case.update(num_fields=rng.randint(1, 5), wis='all', num_rays=rng.randint(1, 4),
                        dist=rng.choice(['hexapolar', 'uniform', 'ring', 'cross']))
            if case['dist'] == 'uniform':
                case['num_rays'] += 2
        else:
            gq = rng.random() < 0.7
            case.update(fields=field_list()[:1], wis=[rng.randint(0, 2)],
                        dist='gaussian_quad' if gq else rng.choice(['hexapolar', 'uniform', 'ring', 'line_y']),
                        num_rays=rng.randint(1, 6) if gq else rng.randint(3, 10))
        return case

    # the bundled designs: one plain wavefront case each plus one other kind
    for i, name in enumerate(samples):
        out.append(generic({'sample': name, 'kind': 'wavefront'}))
        if quick:
            if i % 2 == 0:
                out.append(generic({'sample': name, 'kind': rng.choice(kinds)}))
        else:
            for k in ['wavefront'] * 8 + ['opd', 'opd', 'fan', 'fan', 'rmsfield', 'opddiff', 'opddiff', 'opddiff']:
                out.append(generic({'sample': name, 'kind': k}))
    while len(out) < total:
        finite = rng.random() < 0.4
        kind = rng.random()
        d = lensgen.gen_lens(rng, finite_object=finite, allow_asphere=kind < 0.25,
                             field_types=('object_height',) if finite else ('angle',),
                             nsurf=rng.randint(1, 10), catalog=rng.random() < 0.1,
                             stop=rng.choice(['first', 'interior', 'last', 'any']),
                             apertures=rng.random() < 0.15, absorbing=rng.random() < 0.1)

        def medium(lo, hi):
            # a constant index, or a dispersive catalogue glass (the index then depends on the analysed wavelength)
            if rng.random() < 0.5:
                return {'kind': 'catalog', 'name': rng.choice(['N-BK7', 'SF11', 'N-SK16', 'F2', 'N-LAK12'])}
            return {'kind': 'ideal', 'n': lensgen.dyadic(rng, lo, hi, 6)}
        u = rng.random()
        if u < 0.07:      # immersed image (the medium behind the image surface is not air): finding F-C09-1
            d['surfaces'][-2]['material'] = medium(1.3, 1.8)
            d['surfaces'][-1]['material'] = dict(d['surfaces'][-2]['material'])
        elif u < 0.11:    # image plane is a glass/air interface (cover glass, as in the bundled UV microscope)
            d['surfaces'][-2]['material'] = medium(1.3, 1.8)
        elif u < 0.17 and not finite:    # object space not air: finding F-C09-2
            d['surfaces'][0]['material'] = medium(1.2, 1.6)
        if rng.random() < 0.08:
            # a flat but tilted image surface (detector not square to the axis): the image points no longer share a z
            d['surfaces'][-1][rng.choice(['rx', 'ry'])] = lensgen.dyadic(rng, 0.01, 0.08, 8) * rng.choice([1, -1])
        case = {'desc': d, 'kind': rng.choice(kinds), 'image_solve': rng.random() < 0.6}
        out.append(generic(case))
    return out


def pick_wavelengths(optic, wis):
    wl = optic.wavelengths.get_wavelengths()
    if wis == 'all':
        return list(wl)
    return [wl[i % len(wl)] for i in wis]


# ------------------------------------------------------------------ one case: implementation + driver lines
class Job:
    """what was observed on the implementation for one case and the driver lines that answer it"""

    def __init__(self, case):
        self.case = case
        self.lines = []        # (tag, line, info)
        self.obs = {}
        self.optic = None


def run_impl(ctx, case):
    from optiland.wavefront import Wavefront, OPD, OPDFan
    from optiland.analysis import RmsWavefrontErrorVsField
    from optiland.optimization.operand import RayOperand
    from optiland.distribution import GaussianQuadrature
    job = Job(case)
    optic = build(case)
    job.optic = optic
    kind = case['kind']
    wls = pick_wavelengths(optic, case['wis'])
    job.wls = wls
    if kind == 'rmsfield':
        an = RmsWavefrontErrorVsField(optic, num_fields=case['num_fields'], wavelengths='all',
                                      num_rays=case['num_rays'], distribution=case['dist'])
        job.obs['rms'] = np.array(an._wavefront_error, dtype=float)
        job.obs['field'] = np.array(an._field, dtype=float)
        wf = an
        wls = list(an.wavelengths)
        job.wls = wls
        job.lines.append(('linspace', 'wflinspace %s %s %d' % (fhex(0.0), fhex(1.0), case['num_fields']), None))
    elif kind == 'opd':
        f = tuple(case['fields'][0])
        wf = OPD(optic, f, wls[0], num_rings=case['num_rays'])
        if case.get('view_first'):
            # the map is drawn before the numbers are read: drawing must not change the stored samples
            import matplotlib.pyplot as plt
            try:
                wf.view(projection=case.get('projection', '2d'), num_points=16)
            except Exception as e:  # noqa
                job.obs['view_error'] = type(e).__name__
            plt.close('all')
        job.obs['rms'] = float(wf.rms())
    elif kind == 'fan':
        wf = OPDFan(optic, fields=[tuple(f) for f in case['fields']], wavelengths=wls, num_rays=case['num_rays'])
        job.obs['pupil_coord'] = np.array(wf.pupil_coord, dtype=float)
        job.lines.append(('cross', 'wfcross %d' % case['num_rays'], None))
        job.lines.append(('linspace', 'wflinspace %s %s %d' % (fhex(-1.0), fhex(1.0), case['num_rays']), None))
    elif kind == 'opddiff':
        f = case['fields'][0]
        val = RayOperand.OPD_difference(optic, f[0], f[1], case['num_rays'], wls[0], distribution=case['dist'])
        job.obs['opddiff'] = float(val)
        # the documented samples of the operand
        on_axis = (f[0] == f[1] == 0)
        if case['dist'] == 'gaussian_quad':
            dist = GaussianQuadrature(is_symmetric=on_axis)
            job.obs['gq_weights'] = np.array(dist.get_weights(case['num_rays']), dtype=float)
            dist.generate_points(num_rings=case['num_rays'])
            job.obs['gq_x'] = np.array(dist.x, dtype=float)
            job.obs['gq_y'] = np.array(dist.y, dtype=float)
            job.lines.append(('gq', 'wfgq %s %d' % (b01(on_axis), case['num_rays']), None))
        else:
            dist = case['dist']
        wf = Wavefront(optic, [tuple(f)], [wls[0]], case['num_rays'], dist)
        job.on_axis = on_axis
    else:
        f0 = case['fields'][0]
        dist = make_distribution(case['dist'], case['num_rays'], case.get('seed', 0), on_axis=(f0[0] == f0[1] == 0))
        wf = Wavefront(optic, [tuple(f) for f in case['fields']], wls, case['num_rays'], dist)
    job.fields = [tuple(f) for f in wf.fields]
    job.px = np.array(wf.distribution.x, dtype=float)
    job.py = np.array(wf.distribution.y, dtype=float)
    # the documented pupil samples are those of the *requested* distribution and ray count (built independently)
    req = case.get('dist') if kind not in ('opd', 'fan') else None
    if isinstance(req, str) and req not in ('random', 'gaussian_quad'):
        from optiland.distribution import create_distribution
        want = create_distribution(req)
        want.generate_points(case['num_rays'])
        wx, wy = np.array(want.x, dtype=float), np.array(want.y, dtype=float)
        job.obs['samples_requested'] = (req, case['num_rays'], bool(
            wx.shape == job.px.shape and np.array_equal(wx, job.px) and np.array_equal(wy, job.py)),
            int(job.px.size), int(wx.size))
    job.data = [[(np.array(wf.data[i][j][0], dtype=float).copy(), np.array(wf.data[i][j][1], dtype=float).copy())
                 for j in range(len(wls))] for i in range(len(job.fields))]
    for i, f in enumerate(job.fields):
        for j, w in enumerate(wls):
            line, info, chain = wfdata_line(optic, f, w, wf.distribution)
            job.lines.append(('wfdata', line, (i, j, info)))
            if chain is not None:
                job.lines.append(('wfchain', chain, (i, j)))
    if kind == 'fan':
        for i in range(len(job.fields)):
            for j in range(len(wls)):
                d = job.data[i][j][0]
                job.lines.append(('fan', 'wffan %d %d %s' % (case['num_rays'], len(d), ' '.join(fhex(v) for v in d)),
                                  (i, j)))
    if kind == 'opddiff':
        d = job.data[0][0][0]
        mode = 0 if case['dist'] != 'gaussian_quad' else (1 if job.on_axis else 2)
        job.lines.append(('opddiff', 'wfopddiff %d %d %d %s' % (mode, case['num_rays'], len(d),
                                                                  ' '.join(fhex(v) for v in d)), None))
    return job


def evaluate(ctx, job, outs):
    """compare with the model's answers, then evaluate the property's predicate"""
    case, optic = job.case, job.optic
    kind = case['kind']
    sr = job.obs.get('samples_requested')
    if sr is not None:
        if sr[2]:
            ctx.count('pred: samples are those of the requested distribution')
        else:
            ctx.fail('the analysis is evaluated on the documented pupil samples of the requested distribution '
                     '(%s, %d)' % (sr[0], sr[1]), case, {'samples_used': sr[3]}, {'samples_requested': sr[4]})
    reason = in_quantifier(optic)
    xpl = spec_xpl(optic)
    try:
        xpl_impl = scal(optic.paraxial.XPL())
    except Exception:  # noqa
        xpl_impl = None
    if xpl is not None and xpl_impl is not None and abs(xpl - xpl_impl) > 1e-7 * max(1.0, abs(xpl_impl)):
        # the paraxial module and the matrix specification locate the exit pupil differently (C04's subject; e.g. the
        # stop on the last surface with an index step at the image surface): take the implementation's pupil
        ctx.count('pred: exit pupil position taken from the implementation (differs from the matrix specification)')
        xpl = xpl_impl
    ans = {}
    for (tag, line, info), out in zip(job.lines, outs):
        ans.setdefault(tag, []).append((info, out))
    model_opds = {}
    for info, out in ans.get('wfdata', []):
        i, j, meta = info
        m = decode_wfdata(out)
        where = 'field %r wavelength %r' % (job.fields[i], job.wls[j])
        if m is None:
            ctx.disagreements.append({'what': 'driver error', 'model': out[:200], 'case': case})
            continue
        impl_opd, impl_int = job.data[i][j]
        cmp_code_or_spec(ctx, 'data[%d][%d].opd' % (i, j), impl_opd, m['code'], m['spec'], case, m['inside'])
        ctx.count('samples inside the domain (image point inside the reference sphere)', sum(m['inside']))
        ctx.count('samples outside the domain (soft comparison)', len(m['inside']) - sum(m['inside']))
        ctx.cmp_list('data[%d][%d].intensity' % (i, j), impl_int, m['intensity'], case)
        model_opds[(i, j)] = m
        ctx.count('samples per wavefront: %s' % ('1' if meta['n'] == 1 else '2-20' if meta['n'] <= 20 else
                                                  '21-100' if meta['n'] <= 100 else '>100'))
        if not all(math.isfinite(v) for v in impl_opd):
            ctx.count('wavefronts with non-finite samples')
        # ---- predicate
        if reason is not None or job.fields[i][0] != 0:
            ctx.count('outside quantifier: ' + (reason or 'Hx != 0'))
            continue
        if xpl is None:
            ctx.count('pred: exit pupil undefined in the matrix specification (skipped)')
            continue
        try:
            sp = spec_opd(optic, job.fields[i], job.wls[j], job.px, job.py, xpl)
        except Exception as e:  # noqa
            ctx.count('pred: spec_error:' + type(e).__name__)
            continue
        ctx.count('exit pupil: ' + ('virtual (behind the image surface)' if xpl > 0 else 'real (in front of the image surface)'))
        ok = check_opds(ctx, 'reported OPD = (chief path - ray path)/wavelength to the chief-ray reference sphere',
                        case, impl_opd, sp, where)
        # the chief ray's own OPD
        for k in range(len(impl_opd)):
            if job.px[k] == 0.0 and job.py[k] == 0.0 and math.isfinite(impl_opd[k]):
                ctx.count('pred: chief-ray sample present')
                if impl_opd[k] == 0.0:
                    ctx.count('pred: chief-ray sample exactly 0.0')
                if abs(impl_opd[k]) > (1e-9 if sp['atol'] == ATOL else sp['atol']):   # exact up to the batch effect above
                    ctx.fail('OPD of the chief ray is zero', dict(case, where=where, sample_index=k), float(impl_opd[k]), 0.0)
        # intensity is the image-surface intensity of the same samples
        if ok and kind in ('opd', 'rmsfield') and bool(np.all(sp['domain'])):
            r_spec = spec_rms(sp)
            r_n1 = float(np.sqrt(np.sum(sp['opd_n1'] ** 2) / len(sp['opd_n1'])))
            r_impl = job.obs['rms'] if kind == 'opd' else job.obs['rms'][i, j]
            if not agree(r_impl, r_spec, sp['scale'], sp['atol']):
                key = known_key(sp) if agree(r_impl, r_n1, sp['scale'], sp['atol']) else None
                ctx.fail('RMS wavefront error = sqrt(mean(OPD^2)) over the documented samples',
                         dict(case, where=where), float(r_impl), r_spec, finding_key=key)
            ctx.count('pred: rms checked')
    # ---- soft observable: the whole chain through the real-trace model of C02 (a tracing disagreement belongs
    # to C02 and is only logged as drift here)
    for info, out in ans.get('wfchain', []):
        i, j = info
        t = Toks(out)
        if t.error or t.tok() != 'ok':
            ctx.count('chain: model rejects / cannot encode')
            continue
        oc, it = t.floats(), t.floats()
        impl_opd = job.data[i][j][0]
        ctx.count('chain: wavefronts compared (soft)')
        if len(oc) == len(impl_opd):
            for k in range(len(oc)):
                if math.isfinite(oc[k]) and math.isfinite(impl_opd[k]):
                    if not ctx.cmp('chain opd[%d]' % k, impl_opd[k], oc[k], case, rtol=1e-7, atol=1e-4, hard=False):
                        break
    # ---- kind-specific observables
    if kind == 'opd' and (0, 0) in model_opds:
        m = model_opds[(0, 0)]
        cmp_code_or_spec(ctx, 'OPD.rms()', [job.obs['rms']], [m['rms_code']], [m['rms_spec']], case,
                         [all(m['inside'])])
    if kind == 'rmsfield':
        for (i, j), m in model_opds.items():
            cmp_code_or_spec(ctx, '_wavefront_error[%d,%d]' % (i, j), [job.obs['rms'][i, j]], [m['rms_code']],
                             [m['rms_spec']], case, [all(m['inside'])])
        t = Toks(ans['linspace'][0][1])
        hy = t.floats()
        ctx.cmp_list('RmsWavefrontErrorVsField fields Hy', job.obs['field'][:, 1], hy, case)
        ctx.cmp_list('RmsWavefrontErrorVsField fields Hx', job.obs['field'][:, 0], [0.0] * len(hy), case)
        ctx.cmp_list('Wavefront.fields', [v for f in job.fields for v in f], [v for h in hy for v in (0.0, h)], case)
        spec_h = [k / (case['num_fields'] - 1) if case['num_fields'] > 1 else 0.0 for k in range(case['num_fields'])]
        for a, b in zip(job.obs['field'][:, 1], spec_h):
            if abs(a - b) > 1e-12:
                ctx.fail('RMS-vs-field curve is sampled at Hy = linspace(0, 1, num_fields)', case, float(a), b)
    if kind == 'fan':
        n = case['num_rays']
        t = Toks(ans['cross'][0][1])
        cx, cy = t.floats(), t.floats()
        ctx.cmp_list('CrossDistribution.x', job.px, cx, case)
        ctx.cmp_list('CrossDistribution.y', job.py, cy, case)
        ctx.cmp_list('OPDFan.pupil_coord', job.obs['pupil_coord'], Toks(ans['linspace'][0][1]).floats(), case)
        for info, out in ans.get('fan', []):
            i, j = info
            t = Toks(out)
            fy, fx = t.floats(), t.floats()
            d = job.data[i][j][0]
            ctx.cmp_list('fan y slice data[:num_rays]', d[:n], fy, case)
            ctx.cmp_list('fan x slice data[num_rays:]', d[n:], fx, case)
        # predicate: the y-fan is the OPD at (0, t_k), the x-fan at (t_k, 0), t = pupil_coord (own linspace)
        if reason is None and xpl is not None:
            tt = np.array([-1.0 + 2.0 * k / (n - 1) if n > 1 else -1.0 for k in range(n)])
            for i, f in enumerate(job.fields):
                if f[0] != 0:
                    continue
                for j, w in enumerate(job.wls):
                    d = job.data[i][j][0]
                    try:
                        spy = spec_opd(optic, f, w, np.zeros(n), tt, xpl)
                        spx = spec_opd(optic, f, w, tt, np.zeros(n), xpl)
                    except Exception as e:  # noqa
                        ctx.count('pred: spec_error:' + type(e).__name__)
                        continue
                    check_opds(ctx, 'OPD fan (tangential) is the OPD at pupil points (0, Py), Py = linspace(-1,1,n)',
                               case, d[:n], spy, 'y-fan field %r w %r' % (f, w))
                    check_opds(ctx, 'OPD fan (sagittal) is the OPD at pupil points (Px, 0), Px = linspace(-1,1,n)',
                               case, d[n:], spx, 'x-fan field %r w %r' % (f, w))
                    ctx.count('pred: fans checked')
    if kind == 'opddiff':
        m = Toks(ans['opddiff'][0][1])
        ctx.cmp('OPD_difference', job.obs['opddiff'], m.flt(), case, rtol=RTOL, atol=ATOL)
        if 'gq' in ans:
            t = Toks(ans['gq'][0][1])
            gx, gy, gw, gww = t.floats(), t.floats(), t.floats(), t.floats()
            ctx.cmp_list('GaussianQuadrature.x', job.obs['gq_x'], gx, case)
            ctx.cmp_list('GaussianQuadrature.y', job.obs['gq_y'], gy, case)
            ctx.cmp_list('GaussianQuadrature.get_weights', job.obs['gq_weights'], gw, case)
        # predicate: mean |(W - mean W) * weight| over the documented samples, with the independent OPD
        f = job.fields[0]
        if reason is None and xpl is not None and f[0] == 0:
            try:
                if case['dist'] == 'gaussian_quad':
                    pts = spec_gq(job.on_axis, case['num_rays'])
                    sx = np.array([p[0] for p in pts])
                    sy = np.array([p[1] for p in pts])
                    sw = np.array([p[2] for p in pts])
                else:
                    sx, sy, sw = job.px, job.py, np.ones(len(job.px))
                sp = spec_opd(optic, f, job.wls[0], sx, sy, xpl)
                if sp['common_wavefront'] and bool(np.all(sp['domain'])):
                    vals = {}
                    for name in ('opd', 'opd_n1'):
                        o = sp[name]
                        vals[name] = float(np.mean(np.abs((o - np.mean(o)) * sw)))
                    if not agree(job.obs['opddiff'], vals['opd'], sp['scale'], sp['atol']):
                        key = known_key(sp) if agree(job.obs['opddiff'], vals['opd_n1'], sp['scale'], sp['atol']) else None
                        ctx.fail('OPD_difference = mean |(OPD - mean OPD) x quadrature weight| on the documented samples',
                                 case, job.obs['opddiff'], vals['opd'], finding_key=key)
                    ctx.count('pred: opd difference checked')
                else:
                    ctx.count('pred: opd difference outside domain')
            except Exception as e:  # noqa
                ctx.count('pred: spec_error:' + type(e).__name__)


def run(tier, seed, replay=None):
    ctx = Ctx('C09', tier, seed)
    ctx.stats['rule'] = ('24 bundled designs + random lenses (1-10 surfaces, mirrors, conics, aspheres, finite object with '
                         'object-height fields / infinite object with angle fields, stop anywhere, 60 % refocused by '
                         'image_solve, a few with the image or the object in a medium other than air) x fields along y '
                         '(Hy in [-1,1]) x 1-3 wavelengths x 8 pupil distributions x ray counts, through Wavefront, OPD, '
                         'OPDFan, RmsWavefrontErrorVsField and RayOperand.OPD_difference; non-trivial = the analysis '
                         'runs and returns at least one finite OPD; distinct by descriptor hash')
    aud = audit('C09')
    drv = Driver()
    cases = [replay] if replay else gen_cases(ctx)
    jobs, lines, budget = [], [], 0

    def flush():
        nonlocal jobs, lines, budget
        if not jobs:
            return
        outs = drv.batch(lines)
        pos = 0
        for job in jobs:
            k = len(job.lines)
            evaluate(ctx, job, outs[pos:pos + k])
            pos += k
        jobs, lines, budget = [], [], 0

    for case in cases:
        case = {k: v for k, v in case.items() if k not in ('where', 'sample_index')}
        try:
            job = run_impl(ctx, case)
        except Exception as e:  # noqa
            ctx.count('impl_error:' + type(e).__name__)
            ctx.case(case, nontrivial=False)
            continue
        optic = job.optic
        finite_vals = any(np.any(np.isfinite(d[0])) for row in job.data for d in row)
        ctx.case(case, nontrivial=finite_vals)
        ctx.count('kind=' + case['kind'])
        ctx.count('dist=' + str(case.get('dist', {'opd': 'hexapolar', 'fan': 'cross'}.get(case['kind']))))
        ctx.count('object=' + ('infinite' if bool(np.all(optic.object_surface.is_infinite)) else 'finite'))
        ctx.count('field_type=' + str(optic.field_type))
        ctx.count('lens=' + ('sample' if 'sample' in case else 'generated'))
        for f in job.fields:
            ctx.count('Hy ' + ('= 0' if f[1] == 0 else '> 0' if f[1] > 0 else '< 0'))
        jobs.append(job)
        lines += [l for _, l, _ in job.lines]
        budget += sum(len(l) for _, l, _ in job.lines)
        if budget > 40_000_000:
            flush()
    flush()
    return finish(ctx, aud,
                  partial=['floating-point rounding: theorems are over the reals; agreement to 1e-6 waves is numerical',
                           'fields with Hx != 0 and non-zero vignetting factors are outside the quantifier (DESIGN 7): '
                           'mirrored by the model, compared, but not subject to the predicate',
                           'griddata interpolation of OPD.view is not modelled'],
                  assumptions=['image-surface records, paraxial XPL/EPD, pupil coordinates of the distribution and '
                               'refractive indices are taken from the implementation (ray tracing: C02, paraxial data: '
                               'C04, ray launch: C03)',
                               'np.mean is modelled as a left-to-right sum (NumPy sums pairwise): agreement to rtol 1e-9'])
