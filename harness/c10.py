"""C10  Zernike families are correctly indexed, normalised, and recovered by fitting.

Order of a run:
  regen   gen/gen_zernike_tables.py dumps `.indices` of the three families of the tree under
          verification into lean/OptiModel/Gen/ZernikeTables.lean (rewritten only when changed);
  audit   lake build + forbidden-construct grep + `#print axioms` of every theorem of Props/C10.lean
          (the index theorems are statements about the regenerated literals);
  corr    hard observables, implementation vs Lean model at Float (native driver), exhaustive over
          all 3 x 120 indices: `.indices`, `_norm_constant`, `_radial_term` at the 33 radii k/32
          (scalar and array call; plus the model's exact rational value vs an exact `Fraction`
          evaluation of the published polynomial), `get_term` on a 17 x 17 polar grid, `poly` and
          `terms` for random coefficient vectors;
  spec    the property's own predicate on the implementation against an independent specification
          written here: published index rules (OSA/ANSI, Noll, Fringe), published radial polynomial in
          exact arithmetic, unit edge value, norm constants, orthonormality by exact quadrature
          (Gauss-Legendre in r, uniform in phi), linearity of `poly`, `ZernikeFit.coeffs` vs an
          independent least squares (numpy lstsq on unit-coefficient terms), recovery of the
          generating coefficients, linearity of the fit in the data, `ZernikeOPD` vs the sampled OPD.

Soft / not compared: the *sign convention* of the sine terms (the code evaluates sin(m*phi) with the
negative m, i.e. -sin(|m| phi)); no clause of C10 constrains it (noted in the evidence).
"""
import math, os, sys, subprocess
from fractions import Fraction
import numpy as np
from .core import fhex, Toks, Driver, Ctx, audit, finish, VERIF, REPO, close
from . import lensgen

FAMILIES = ('standard', 'fringe', 'noll')
RADII = [k / 32.0 for k in range(33)]


def zclass(fam):
    from optiland import zernike as Z
    return {'standard': Z.ZernikeStandard, 'fringe': Z.ZernikeFringe, 'noll': Z.ZernikeNoll}[fam]


# ------------------------------------------------------------------ regeneration of the Lean tables
def regenerate_tables():
    """returns list of problems (empty when the generator ran)"""
    env = dict(os.environ)
    env['OPTILAND_REPO'] = REPO
    p = subprocess.run([sys.executable, os.path.join(VERIF, 'gen', 'gen_zernike_tables.py')], env=env,
                       stdout=subprocess.PIPE, stderr=subprocess.STDOUT)
    if p.returncode != 0:
        return ['gen_zernike_tables.py failed: ' + p.stdout.decode(errors='replace')[-600:]]
    return []


# ------------------------------------------------------------------ independent specification
def valid(n, m):
    return n >= 0 and abs(m) <= n and (n - m) % 2 == 0


def spec_standard(count=120):
    """OSA/ANSI: j = (n(n+2)+m)/2; inverse n = ceil((-3+sqrt(9+8j))/2), m = 2j - n(n+2)"""
    out = []
    for j in range(count):
        n = 0
        while n * (n + 3) // 2 < j:      # largest index of row n is n(n+3)/2
            n += 1
        out.append((n, 2 * j - n * (n + 2)))
    return out


def spec_noll(count=120):
    """Noll (1976): rows by n, inside a row |m| ascending, even j <-> cosine (m>0), odd j <-> sine (m<0)"""
    out = []
    j = 0
    n = 0
    while len(out) < count:
        for am in range(n % 2, n + 1, 2):
            if am == 0:
                j += 1
                out.append((n, 0))
            else:
                pair = {}
                for _ in range(2):
                    j += 1
                    pair[j] = (n, am) if j % 2 == 0 else (n, -am)
                for jj in sorted(pair):
                    out.append(pair[jj])
        n += 1
    return out[:count]


def fringe_number(n, m):
    return (1 + (n + abs(m)) // 2) ** 2 - 2 * abs(m) + (1 if m < 0 else 0)


def spec_fringe(count=120):
    """Fringe / University of Arizona: ordered by the fringe number; all valid pairs with n <= 60 scanned"""
    cand = [(fringe_number(n, m), (n, m)) for n in range(61) for m in range(-n, n + 1) if valid(n, m)]
    cand.sort()
    nums = [c[0] for c in cand[:count]]
    assert nums == list(range(1, count + 1)), 'fringe rule is not a bijection onto 1..count'
    return [c[1] for c in cand[:count]]


SPEC_IDX = {'standard': spec_standard, 'noll': spec_noll, 'fringe': spec_fringe}


def binom(a, b):
    return math.comb(a, b) if 0 <= b <= a else 0


def spec_coeffs(n, m):
    """published radial polynomial: sum_k (-1)^k C(n-k,k) C(n-2k,(n-|m|)/2-k) r^(n-2k) -> [(exp, int coeff)]"""
    am = abs(m)
    return [(n - 2 * k, (-1) ** k * binom(n - k, k) * binom(n - 2 * k, (n - am) // 2 - k))
            for k in range((n - am) // 2 + 1)]


def spec_radial_exact(n, m, r):
    r = Fraction(r)
    return sum(c * r ** e for e, c in spec_coeffs(n, m))


def spec_cond(n, m, r):
    """sum |c| r^e : scale of the rounding error of any float evaluation of the monomial form"""
    return float(sum(abs(c) * Fraction(r) ** e for e, c in spec_coeffs(n, m)))


def spec_norm(fam, n, m):
    if fam == 'fringe':
        return 1.0
    return math.sqrt((2 * n + 2) / (2 if m == 0 else 1))


def gauss_legendre_01(k):
    x, w = np.polynomial.legendre.leggauss(k)
    return 0.5 * (x + 1), 0.5 * w


# ------------------------------------------------------------------ sample point sets
def sample_points(kind, rng, npts):
    """returns x, y (numpy arrays) inside the unit disk"""
    if kind == 'hexapolar':
        from optiland.distribution import create_distribution
        rings = 1
        while 1 + 3 * rings * (rings + 1) < npts:
            rings += 1
        d = create_distribution('hexapolar')
        d.generate_points(rings)
        return np.array(d.x, dtype=float), np.array(d.y, dtype=float)
    if kind == 'uniform':
        k = 3
        while True:
            g = np.linspace(-1, 1, k)
            X, Y = np.meshgrid(g, g)
            keep = X ** 2 + Y ** 2 <= 1.0
            if keep.sum() >= npts:
                return X[keep].astype(float), Y[keep].astype(float)
            k += 1
    xs, ys = [], []
    while len(xs) < npts:
        x, y = rng.uniform(-1, 1), rng.uniform(-1, 1)
        if x * x + y * y <= 1.0:
            xs.append(x)
            ys.append(y)
    return np.array(xs), np.array(ys)


def unit_design(z, N, r, phi):
    """design matrix from the implementation's own unit-coefficient terms"""
    cols = []
    for (n, m) in z.indices[:N]:
        cols.append(np.asarray(z.get_term(1.0, n, m, r, phi), dtype=float) * np.ones_like(r))
    return np.stack(cols, axis=1)


# ------------------------------------------------------------------ parts of the check
def part_indices(ctx, drv, only=None):
    lines = ['zidx ' + f for f in FAMILIES]
    outs = drv.batch(lines)
    for fam, out in zip(FAMILIES, outs):
        if only and only.get('family') != fam:
            continue
        case = {'kind': 'indices', 'family': fam}
        ctx.case(case)
        try:
            impl = [(int(n), int(m)) for (n, m) in zclass(fam)().indices]
        except Exception as e:  # noqa
            ctx.fail('%s.indices can be generated' % fam, case, type(e).__name__ + ': ' + str(e)[:200])
            continue
        t = Toks(out)
        k = t.nat()
        mod = [(int(t.tok()), int(t.tok())) for _ in range(k)]
        if impl != mod:
            bad = next((i for i in range(min(len(impl), len(mod))) if impl[i] != mod[i]), min(len(impl), len(mod)))
            ctx.disagreements.append({'what': '%s.indices[%d]' % (fam, bad), 'impl': str(impl[bad:bad + 1]),
                                      'model': str(mod[bad:bad + 1]), 'case': case})
        ctx.bitexact[1] += 1
        ctx.bitexact[0] += int(impl == mod)
        spec = SPEC_IDX[fam](120)
        if len(impl) != 120:
            ctx.fail('%s family enumerates exactly the first 120 indices' % fam, case, len(impl), 120)
        for i in range(min(len(impl), 120)):
            if impl[i] != spec[i]:
                ctx.fail('%s index table follows the published rule at position %d' % (fam, i),
                         dict(case, k=i), list(impl[i]), list(spec[i]))
                break
        if len(set(impl)) != len(impl):
            dup = next(p for p in impl if impl.count(p) > 1)
            ctx.fail('%s index table has no repetition' % fam, dict(case, pair=list(dup)), impl.count(dup), 1)
        ctx.count('indices compared', len(impl))


def all_indices():
    """(family, n, m, k) for every index the implementation reports, else the specification's"""
    out = []
    for fam in FAMILIES:
        try:
            idx = [(int(n), int(m)) for (n, m) in zclass(fam)().indices]
            if not all(valid(n, m) and n <= 40 for n, m in idx):
                raise ValueError('invalid pair')
        except Exception:  # noqa
            idx = SPEC_IDX[fam](120)
        out += [(fam, n, m, k) for k, (n, m) in enumerate(idx)]
    return out


def part_norm_radial(ctx, drv, items):
    lines = []
    for fam, n, m, k in items:
        lines.append('znorm %s %d %d' % (fam, n, m))
        lines.append('zrad %d %d %d %s' % (n, m, len(RADII), ' '.join(fhex(r) for r in RADII)))
        lines.append('zcoef %d %d' % (n, m))
        lines.append('zradq %d %d %d %d' % (n, m, 13, 32))
    outs = drv.batch(lines)
    rarr = np.array(RADII)
    for i, (fam, n, m, k) in enumerate(items):
        z = zclass(fam)()
        case = {'kind': 'term', 'family': fam, 'k': k, 'n': n, 'm': m}
        ctx.case(case)
        ctx.count('n=%d' % n)
        # ---- norm constant
        nc = float(z._norm_constant(n, m))
        ctx.cmp('_norm_constant', nc, Toks(outs[4 * i]).flt(), case)
        if not close(nc, spec_norm(fam, n, m), 1e-12, 0):
            ctx.fail('%s norm constant N(n,m): N^2/(2n+2) x azimuthal integral = pi (Fringe: 1)' % fam, case,
                     nc, spec_norm(fam, n, m))
        # ---- radial term: scalar and array calls vs model
        conds = [spec_cond(n, m, r) for r in RADII]
        mod = Toks(outs[4 * i + 1]).floats(len(RADII))
        try:
            sc = [float(z._radial_term(n, m, r)) for r in RADII]
            ar = np.asarray(z._radial_term(n, m, rarr), dtype=float)
        except Exception as e:  # noqa
            ctx.fail('radial term R_n^|m|(r) is defined for every term of the family (first 120 indices)', case,
                     type(e).__name__ + ': ' + str(e), 'a value')
            continue
        for j, r in enumerate(RADII):
            atol = 1e-13 * conds[j] + 1e-300
            ctx.cmp('_radial_term(r=%d/32) scalar' % j, sc[j], mod[j], case, atol=atol)
            ctx.cmp('_radial_term(r=%d/32) array' % j, ar[j], mod[j], case, atol=atol)
        # ---- model's rational coefficients = published polynomial (exact)
        t = Toks(outs[4 * i + 2])
        cnt = t.nat()
        mcoef = []
        for _ in range(cnt):
            e = int(t.tok()); num = int(t.tok()); den = int(t.tok())
            mcoef.append((e, Fraction(num, den)))
        if mcoef != [(e, Fraction(c)) for e, c in spec_coeffs(n, m)]:
            ctx.disagreements.append({'what': 'rational radial coefficients', 'impl': str(spec_coeffs(n, m)),
                                      'model': str(mcoef), 'case': case})
        t = Toks(outs[4 * i + 3])
        q = Fraction(int(t.tok()), int(t.tok()))
        if q != spec_radial_exact(n, m, Fraction(13, 32)):
            ctx.disagreements.append({'what': 'exact radial value at 13/32', 'impl': str(spec_radial_exact(n, m, Fraction(13, 32))),
                                      'model': str(q), 'case': case})
        # ---- predicate: implementation = published polynomial, unit edge value
        for j, r in enumerate(RADII):
            ex = float(spec_radial_exact(n, m, Fraction(j, 32)))
            if not (abs(sc[j] - ex) <= 2e-14 * conds[j] + 1e-300 and abs(ar[j] - ex) <= 2e-14 * conds[j] + 1e-300):
                ctx.fail('radial term equals the published polynomial R_n^|m|(r) at r=%d/32' % j,
                         dict(case, r=r), [sc[j], float(ar[j])], ex)
                break
        if not abs(sc[-1] - 1.0) <= 2e-14 * conds[-1]:
            ctx.fail('unit radial value at the pupil edge', case, sc[-1], 1.0)


def polar_grid(ctx):
    a0 = ctx.rng.uniform(0, 0.3)
    rs = np.linspace(0.0, 1.0, 17)
    ps = a0 + np.linspace(0.0, 2 * math.pi, 17)
    R, P = np.meshgrid(rs, ps, indexing='ij')
    return R.ravel(), P.ravel()


def part_terms(ctx, drv, items):
    R, P = polar_grid(ctx)
    pts = ' '.join(fhex(r) + ' ' + fhex(p) for r, p in zip(R, P))
    lines, coeffs = [], []
    for fam, n, m, k in items:
        c = ctx.rng.uniform(-2, 2)
        coeffs.append(c)
        lines.append('zterm %s %d %d %s %d %s' % (fam, n, m, fhex(c), len(R), pts))
    outs = drv.batch(lines)
    cond_cache = {}
    for (fam, n, m, k), c, out in zip(items, coeffs, outs):
        case = {'kind': 'get_term', 'family': fam, 'k': k, 'n': n, 'm': m, 'coeff': c}
        ctx.case(case)
        z = zclass(fam)()
        try:
            impl = np.asarray(z.get_term(c, n, m, R, P), dtype=float)
        except Exception as e:  # noqa
            ctx.fail('get_term is defined for every term of the family (first 120 indices)', case,
                     type(e).__name__ + ': ' + str(e), 'values')
            continue
        mod = Toks(out).floats(len(R))
        key = (n, abs(m))
        if key not in cond_cache:
            cond_cache[key] = np.array([spec_cond(n, m, Fraction(j, 16)) for j in range(17)])
        cd = np.repeat(cond_cache[key], 17)
        nrm = spec_norm(fam, n, m)
        ok = True
        for j in range(len(R)):
            if not ctx.cmp('get_term[grid %d]' % j, impl[j], mod[j], dict(case, r=float(R[j]), phi=float(P[j])),
                           atol=2e-13 * abs(c) * nrm * cd[j] + 1e-300):
                ok = False
                break
        # predicate: |get_term| = |c| N R |cos or sin (|m| phi)|, independent of the sign convention
        exr = np.array([float(spec_radial_exact(n, m, Fraction(j, 16))) for j in range(17)])
        az = np.cos(abs(m) * P) if m >= 0 else np.sin(abs(m) * P)
        exp_abs = np.abs(c * nrm * np.repeat(exr, 17) * az)
        bad = np.nonzero(np.abs(np.abs(impl) - exp_abs) > 1e-12 * abs(c) * nrm * cd + 1e-9 * exp_abs)[0]
        if len(bad):
            j = int(bad[0])
            ctx.fail('|get_term| = |coeff| x N x R_n^|m|(r) x |cos/sin(|m| phi)|',
                     dict(case, r=float(R[j]), phi=float(P[j])), float(impl[j]), float(exp_abs[j]))


def part_gram(ctx):
    """orthonormality by quadrature exact for the polynomial degrees involved"""
    rq, wq = gauss_legendre_01(26)          # exact to degree 51 >= 19+19+1
    K = 64                                   # exact for |m|+|m'| < 64
    pq = np.arange(K) * (2 * math.pi / K)
    R, P = np.meshgrid(rq, pq, indexing='ij')
    W = (np.repeat(wq * rq, K) * (2 * math.pi / K)).ravel()
    R = R.ravel(); P = P.ravel()
    for fam in FAMILIES:
        case = {'kind': 'gram', 'family': fam}
        ctx.case(case)
        z = zclass(fam)()
        try:
            idx = [(int(n), int(m)) for n, m in z.indices]
            Zm = np.stack([np.asarray(z.get_term(1.0, n, m, R, P), dtype=float) * np.ones_like(R) for n, m in idx], axis=1)
        except Exception as e:  # noqa
            ctx.fail('%s terms can be evaluated on the unit disk' % fam, case, type(e).__name__ + ': ' + str(e)[:200])
            continue
        G = (Zm * W[:, None]).T @ Zm / math.pi
        if fam == 'fringe':
            expd = np.array([(2.0 if m == 0 else 1.0) / (2 * n + 2) for n, m in idx])
            clause = 'Fringe polynomials are mutually orthogonal with unit amplitude: (1/pi) int Z_i Z_j = delta_ij eps_m/(2n+2)'
        else:
            expd = np.ones(len(idx))
            clause = '%s polynomials are orthonormal over the unit disk: (1/pi) int Z_i Z_j = delta_ij' % fam.capitalize()
        E = np.abs(G - np.diag(expd))
        ctx.count('gram entries', E.size)
        i, j = np.unravel_index(np.argmax(E), E.shape)
        ctx.stats['gram max err ' + fam] = float(E[i, j])
        if not E[i, j] <= 1e-8:
            ctx.fail(clause, dict(case, i=int(i), j=int(j), index_i=list(idx[i]), index_j=list(idx[j])),
                     float(G[i, j]), float(expd[i]) if i == j else 0.0)


def poly_cases(ctx):
    out = []
    n = 4 if ctx.quick() else 70
    for fam in FAMILIES:
        for N in [1, 36, 37, 120] + [ctx.rng.randint(1, 120) for _ in range(n)]:
            out.append({'kind': 'poly', 'family': fam, 'N': N, 'sub': ctx.rng.randrange(1 << 30)})
    return out


def run_poly(ctx, drv, cases):
    import random
    lines, keep = [], []
    for case in cases:
        rng = random.Random(case['sub'])
        fam, N = case['family'], case['N']
        c = [rng.uniform(-1, 1) for _ in range(N)]
        d = [rng.uniform(-1, 1) for _ in range(N)]
        # all magnitudes: nm-scale aberrations expressed in metres, mixed magnitudes, large values
        mag = rng.choice([1.0, 1.0, 1e-9, 1e-12, 1e5])
        c = [v * mag for v in c]
        d = [v * mag for v in d]
        if rng.random() < 0.3:
            c = [v * (1e-9 if rng.random() < 0.5 else 1.0) for v in c]
        a, b = rng.uniform(-2, 2), rng.uniform(-2, 2)
        x, y = sample_points('random', rng, 12)
        r = np.sqrt(x * x + y * y); phi = np.arctan2(y, x)
        pts = '%d ' % len(r) + ' '.join(fhex(u) + ' ' + fhex(v) for u, v in zip(r, phi))
        lines.append('zpoly %s %d %s %s' % (fam, N, ' '.join(fhex(v) for v in c), pts))
        lines.append('zterms %s %d %s %s %s' % (fam, N, ' '.join(fhex(v) for v in c), fhex(r[0]), fhex(phi[0])))
        keep.append((case, c, d, a, b, r, phi))
    outs = drv.batch(lines)
    for i, (case, c, d, a, b, r, phi) in enumerate(keep):
        fam, N = case['family'], case['N']
        ctx.case(case)
        ctx.count('poly N<=37' if N <= 37 else 'poly N>37')
        Z = zclass(fam)
        zc = Z(list(c))
        pc = np.asarray(zc.poly(r, phi), dtype=float)
        scale = sum(abs(v) for v in c) * 1e3
        ctx.cmp_list('poly', pc, Toks(outs[2 * i]).floats(len(r)), case, atol=1e-13 * scale)
        tl = zc.terms(float(r[0]), float(phi[0]))
        t = Toks(outs[2 * i + 1])
        k = t.nat()
        if len(tl) != N:
            ctx.fail('terms() returns one value per coefficient', case, len(tl), N)
        ctx.cmp_list('terms', [float(v) for v in tl], t.floats(k), case, atol=1e-13 * scale)
        # predicate: linearity in the coefficient vector
        pd = np.asarray(Z(list(d)).poly(r, phi), dtype=float)
        pm = np.asarray(Z([a * u + b * v for u, v in zip(c, d)]).poly(r, phi), dtype=float)
        err = np.abs(pm - (a * pc + b * pd))
        tol = 1e-11 * (np.abs(pc) + np.abs(pd)) + 1e-13 * scale + 1e-13 * sum(abs(v) for v in d) * 1e3
        if np.any(err > tol):
            j = int(np.argmax(err - tol))
            ctx.fail('poly is linear in the coefficient vector', dict(case, point=j), float(pm[j]),
                     float(a * pc[j] + b * pd[j]))


def fit_cases(ctx):
    ncase = 20 if ctx.quick() else 1000
    out = []
    for i in range(ncase):
        fam = FAMILIES[i % 3]
        N = ctx.rng.randint(1, 37) if i >= 6 else (1, 37, 36, 37, 2, 37)[i]
        kind = ('hexapolar', 'uniform', 'random')[ctx.rng.randrange(3)]
        out.append({'kind': 'fit', 'family': fam, 'N': N, 'points': kind, 'sub': ctx.rng.randrange(1 << 30)})
    return out


def run_fit(ctx, drv, cases):
    import random
    from optiland.zernike import ZernikeFit
    lines, keep = [], []
    for case in cases:
        rng = random.Random(case['sub'])
        fam, N = case['family'], case['N']
        npts = max(3 * N, N + 12) + rng.randrange(0, 40)
        x, y = sample_points(case['points'], rng, npts)
        r = np.sqrt(x * x + y * y); phi = np.arctan2(y, x)
        c = np.array([rng.uniform(-1, 1) for _ in range(N)])
        Z = zclass(fam)
        A = unit_design(Z(), N, r, phi)
        cond = np.linalg.cond(A)
        ctx.count('fit points=' + case['points'])
        ctx.count('fit N in %d..%d' % (10 * (N // 10), 10 * (N // 10) + 9))
        if not cond < 1e3:
            ctx.count('fit: ill-conditioned sample set skipped (out of domain)')
            ctx.case(case, nontrivial=False)
            continue
        data = np.asarray(Z(list(c)).poly(r, phi), dtype=float) * np.ones_like(r)
        noise = np.array([rng.uniform(-1, 1) for _ in range(len(r))])
        b = rng.uniform(-2, 2)
        try:
            # the three fit objects are alive together and are read only after all of them exist: a fit must
            # not share state with another fit of the same family
            o1 = ZernikeFit(x, y, data, fam, N)
            o2 = ZernikeFit(x, y, noise, fam, N)
            o3 = ZernikeFit(x, y, data + b * noise, fam, N)
            f1 = np.array(o1.coeffs, dtype=float)
            f2 = np.array(o2.coeffs, dtype=float)
            f3 = np.array(o3.coeffs, dtype=float)
        except Exception as e:  # noqa
            ctx.case(case)
            ctx.fail('ZernikeFit runs on exact data at %d well-spread points' % len(r), case,
                     type(e).__name__ + ': ' + str(e)[:200])
            continue
        ctx.count('fits run', 3)
        ctx.case(case)
        if not (f1.shape == f2.shape == f3.shape == (N,)):
            ctx.fail('a fit with N terms returns N coefficients', dict(case, N=N),
                     [list(f1.shape), list(f2.shape), list(f3.shape)], [N])
            continue
        # correspondence: the data are what the model's poly gives for the generating coefficients
        pts = '%d ' % len(r) + ' '.join(fhex(u) + ' ' + fhex(v) for u, v in zip(r, phi))
        lines.append('zpoly %s %d %s %s' % (fam, N, ' '.join(fhex(v) for v in c), pts))
        keep.append((case, data, float(np.abs(c).sum())))
        # independent least squares
        l1 = np.linalg.lstsq(A, data, rcond=None)[0]
        l2 = np.linalg.lstsq(A, noise, rcond=None)[0]
        tol = 1e-6 * max(1.0, cond / 10)
        if np.max(np.abs(f1 - c)) > tol:
            j = int(np.argmax(np.abs(f1 - c)))
            ctx.fail('fitting exact data recovers the generating coefficients', dict(case, term=j, npts=len(r)),
                     float(f1[j]), float(c[j]))
        elif np.max(np.abs(f1 - l1)) > tol:
            j = int(np.argmax(np.abs(f1 - l1)))
            ctx.fail('ZernikeFit.coeffs is the least-squares solution (exact data)', dict(case, term=j), float(f1[j]), float(l1[j]))
        if np.max(np.abs(f2 - l2)) > tol:
            j = int(np.argmax(np.abs(f2 - l2)))
            ctx.fail('ZernikeFit.coeffs is the least-squares solution (arbitrary data)', dict(case, term=j),
                     float(f2[j]), float(l2[j]))
        lin = f1 + b * f2
        if np.max(np.abs(f3 - lin)) > 3 * tol:
            j = int(np.argmax(np.abs(f3 - lin)))
            ctx.fail('fitting is linear in the data', dict(case, term=j, b=b), float(f3[j]), float(lin[j]))
    outs = drv.batch(lines)
    for (case, data, scale), out in zip(keep, outs):
        ctx.cmp_list('fit data = model poly(generating coefficients)', data, Toks(out).floats(len(data)), case,
                     atol=1e-10 * scale)


def opd_cases(ctx):
    names = [n for n, _ in lensgen.sample_classes()]
    out = []
    if ctx.quick():
        pick = ['objectives.CookeTriplet', 'objectives.DoubleGauss', 'simple.CementedAchromat', 'telescopes.HubbleTelescope']
        for i, n in enumerate(pick):
            if n in names:
                out.append({'kind': 'opd', 'sample': n, 'field': -1 if i % 2 == 0 else 0, 'family': FAMILIES[(i + 1) % 3],
                            'N': 37 if i % 2 == 0 else ctx.rng.randint(4, 37), 'rings': 6})
        # the same with a physical aperture on the stop surface that blocks the outer rays (the decomposition is of
        # the sampled OPD of *all* rays, blocked or not: the code fits data[0][0][0] as it is)
        for i, n in enumerate(pick[:3]):
            if n in names:
                out.append({'kind': 'opd', 'sample': n, 'field': 0, 'family': FAMILIES[i % 3], 'N': 37, 'rings': 6,
                            'stopdown': ctx.rng.choice([0.5, 0.75, 0.9])})
    else:
        for n in names:
            for fi in (0, 1, -1):
                for fam in FAMILIES:
                    out.append({'kind': 'opd', 'sample': n, 'field': fi, 'family': fam,
                                'N': ctx.rng.choice([37, 37, ctx.rng.randint(1, 37)]), 'rings': ctx.rng.choice([6, 9, 15])})
            out.append({'kind': 'opd', 'sample': n, 'field': 0, 'family': ctx.rng.choice(FAMILIES), 'N': 37,
                        'rings': ctx.rng.choice([6, 9]), 'stopdown': ctx.rng.choice([0.5, 0.75, 0.9])})
    return out


def run_opd(ctx, cases):
    from optiland.wavefront import ZernikeOPD
    built = {}
    for case in cases:
        name = case['sample']
        try:
            if case.get('stopdown'):
                from optiland.physical_apertures import RadialAperture
                optic = lensgen.build_case({'sample': name})
                si = optic.surface_group.stop_index
                ya, _ = optic.paraxial.marginal_ray()
                optic.surface_group.surfaces[si].aperture = RadialAperture(
                    r_max=case['stopdown'] * abs(float(np.ravel(ya)[si])))
                ctx.count('opd: stop surface carries a blocking aperture')
            else:
                if name not in built:
                    built[name] = lensgen.build_case({'sample': name})
                optic = built[name]
            fields = optic.fields.get_field_coords()
            fi = case['field']
            if fi >= len(fields):
                ctx.count('opd: field index out of range')
                continue
            field = fields[fi]
            w = optic.primary_wavelength
        except Exception as e:  # noqa
            ctx.count('opd: lens build error ' + type(e).__name__)
            continue
        try:
            zo = ZernikeOPD(optic, field, w, num_rings=case['rings'], zernike_type=case['family'], num_terms=case['N'])
        except Exception as e:  # noqa
            # out of domain when the sampled OPD itself is not finite (vignetted / failed rays, missing data)
            ctx.count('opd: not computable (%s) - out of domain' % type(e).__name__)
            ctx.case(case, nontrivial=False)
            continue
        # a second decomposition of the same family (another field) is created before the first one is read:
        # decompositions must not share state
        try:
            other = fields[(fi + 1) % len(fields)] if len(fields) > 1 else field
            zo_other = ZernikeOPD(optic, other, w, num_rings=case['rings'], zernike_type=case['family'],  # noqa
                                  num_terms=case['N'])
        except Exception:
            zo_other = None
        ctx.case(case)
        ctx.count('opd cases')
        x = np.asarray(zo.distribution.x, dtype=float); y = np.asarray(zo.distribution.y, dtype=float)
        zdat = np.asarray(zo.data[0][0][0], dtype=float)
        if not np.all(np.isfinite(zdat)):
            ctx.count('opd: non-finite samples - out of domain')
            continue
        r = np.sqrt(x * x + y * y); phi = np.arctan2(y, x)
        N = case['N']
        co = np.array(zo.coeffs, dtype=float)
        if len(co) != N:
            ctx.fail('ZernikeOPD returns num_terms coefficients', case, len(co), N)
            continue
        Z = zclass(case['family'])
        A = unit_design(Z(), N, r, phi)
        ls = np.linalg.lstsq(A, zdat, rcond=None)[0]
        cond = np.linalg.cond(A)
        scale = max(1.0, float(np.max(np.abs(zdat))))
        res_fit = float(np.sqrt(np.mean((np.asarray(Z(list(co)).poly(r, phi), dtype=float) - zdat) ** 2)))
        res_ls = float(np.sqrt(np.mean((A @ ls - zdat) ** 2)))
        ctx.count('opd residual<1e-3 waves' if res_ls < 1e-3 else 'opd residual>=1e-3 waves')
        if not res_fit <= res_ls * (1 + 1e-6) + 1e-7 * scale:
            ctx.fail('Zernike decomposition reproduces the sampled OPD up to the truncation residual', case,
                     res_fit, res_ls)
        elif cond < 1e3 and np.max(np.abs(co - ls)) > 1e-6 * scale * max(1.0, cond / 10):
            j = int(np.argmax(np.abs(co - ls)))
            ctx.fail('ZernikeOPD.coeffs is the least-squares decomposition of the sampled OPD', dict(case, term=j),
                     float(co[j]), float(ls[j]))


# ------------------------------------------------------------------ entry point
def run(tier, seed, replay=None):
    ctx = Ctx('C10', tier, seed)
    ctx.stats['rule'] = ('exhaustive over the 3 x 120 indices (indices, norm constant, radial term at r = k/32 scalar and '
                         'array, get_term on a 17x17 polar grid); Gram matrices of all 120 terms per family by exact '
                         'quadrature; random coefficient vectors for poly (N in 1..120); fits: N in 1..37, three families, '
                         'hexapolar/uniform/random sample sets, exact data + arbitrary data + combination; ZernikeOPD on '
                         'bundled sample lenses; a case is non-trivial when it was evaluated on its domain (well-conditioned '
                         'sample set, finite OPD); distinct by descriptor hash')
    problems = regenerate_tables()
    aud = audit('C10')
    aud['problems'] = problems + aud['problems']
    drv = Driver()
    ctx.notes.append('sine terms: the code evaluates sin(m*phi) with negative m, i.e. -sin(|m| phi); the sign convention '
                     'differs from the OSA/Noll publications but no clause of C10 constrains it (not compared)')
    if replay:
        k = replay.get('kind')
        if k == 'indices':
            part_indices(ctx, drv, only=replay)
        elif k in ('term', 'get_term'):
            items = [(replay['family'], replay['n'], replay['m'], replay.get('k', 0))]
            part_norm_radial(ctx, drv, items)
            part_terms(ctx, drv, items)
        elif k == 'gram':
            part_gram(ctx)
        elif k == 'poly':
            run_poly(ctx, drv, [{kk: replay[kk] for kk in ('kind', 'family', 'N', 'sub')}])
        elif k == 'fit':
            run_fit(ctx, drv, [{kk: replay[kk] for kk in ('kind', 'family', 'N', 'points', 'sub')}])
        elif k == 'opd':
            run_opd(ctx, [{kk: replay[kk] for kk in ('kind', 'sample', 'field', 'family', 'N', 'rings', 'stopdown')
                           if kk in replay}])
        else:
            print('unknown replay case', replay)
            return 2
    else:
        part_indices(ctx, drv)
        items = all_indices()
        part_norm_radial(ctx, drv, items)
        part_terms(ctx, drv, items)
        part_gram(ctx)
        run_poly(ctx, drv, poly_cases(ctx))
        run_fit(ctx, drv, fit_cases(ctx))
        run_opd(ctx, opd_cases(ctx))
    return finish(ctx, aud,
                  partial=['orthonormality is proved as the polar iterated integral (orthonormal_polar); the change of variables '
                           'to the area integral over the disk is not formalised',
                           'R_n^m(1)=1 and radial orthogonality are proved for every valid index with n <= 19 (all indices the '
                           'families produce), not for arbitrary n',
                           'fit: the normal-equation / minimiser specification is proved (fit_recovers, fit_recovers_min, '
                           'fit_spec_linear, lsq_normal_is_min); that scipy.optimize.least_squares returns that solution is '
                           'checked numerically against numpy lstsq only',
                           'ZernikeOPD reproduces the sampled OPD up to the truncation residual: numerical only'],
                  assumptions=['NumPy/libm pow, cos, sin agree with the C library used by the Lean driver within the stated tolerances',
                               'sample sets with design-matrix condition number >= 1e3 are outside "sufficiently many distinct '
                               'well-spread points" and are skipped (counted)',
                               'the OPD samples themselves are the subject of C09'])
