"""C11  PSF, Strehl ratio and MTF are correctly normalised transforms of the pupil.

Correspondence (hard observables): `FFTPSF(...).psf`, `.strehl_ratio()`, `FFTMTF(...).mtf`,
`.max_freq`, the x-data of the curves drawn by `FFTMTF.view()`, `GeometricMTF(...).mtf/.freq/
.diff_limited_mtf` against `Model/Psf.lean` at Float (native driver), the model being fed with the
implementation's own `Wavefront.data` (OPD in waves, intensity) resp. spot coordinates for the same
field / wavelength / sampling.  Where the tree is known to be wrong the model has a `code` and a
`spec` variant; agreement with either is accepted (DESIGN section 4).

Failing-input search predicate: the property's clauses evaluated on the implementation's outputs
against an independent NumPy specification written here (`spec_psf`, `spec_geo`)."""
import math, os, contextlib, io
from concurrent.futures import ThreadPoolExecutor
import numpy as np
from .core import fhex, b01, Toks, Driver, Ctx, audit, finish
from . import lensgen

INF = lensgen.INF
K_F17 = 'strehl-vignetted-mean'
K_F9 = 'mtf-freq-axis-grid-1000'
K_ODD = 'odd-pad-centre'
K_MASK = 'pupil-mask-mismatch'
K_GEOFNO = 'geometric-mtf-fno-finite-object'
K_GEOVIG = 'geometric-mtf-counts-blocked-rays'


# ------------------------------------------------------------------ lens families (JSON-able descriptors)
def d_parab(epd, R, ap=None, r_min=None, field=0.5):
    s1 = {'index': 1, 'radius': R, 'conic': -1.0, 'thickness': R / 2, 'material': {'kind': 'mirror'},
          'is_stop': True}
    if ap:
        s1['aperture'] = {'r_max': ap}
        if r_min:
            s1['aperture']['r_min'] = r_min
    return {'surfaces': [{'index': 0, 'radius': INF, 'thickness': INF, 'material': {'kind': 'air'}}, s1,
                         {'index': 2, 'radius': INF, 'thickness': 0, 'material': {'kind': 'air'}}],
            'aperture': ['EPD', epd], 'field_type': 'angle', 'fields': [[0.0], [field]],
            'wavelengths': [[0.55, 1]]}


def d_singlet(obj, epd, R1, R2, n, t, bfl, ap=None, field=2.0, k_abs=0.0):
    mat = {'kind': 'ideal', 'n': n}
    if k_abs:
        mat['k'] = k_abs
    s1 = {'index': 1, 'radius': R1, 'thickness': t, 'material': mat, 'is_stop': True}
    s2 = {'index': 2, 'radius': R2, 'thickness': bfl, 'material': {'kind': 'air'}}
    if ap:
        s2['aperture'] = {'r_max': ap}
    return {'surfaces': [{'index': 0, 'radius': INF, 'thickness': obj, 'material': {'kind': 'air'}}, s1, s2,
                         {'index': 3, 'radius': INF, 'thickness': 0, 'material': {'kind': 'air'}}],
            'aperture': ['EPD', epd], 'field_type': 'angle' if obj == INF else 'object_height',
            'fields': [[0.0], [field]], 'wavelengths': [[0.4861327, 0], [0.5875618, 1], [0.6562725, 0]]}


PSF_SAMPLES = ['eyepieces.EyepieceErfle', 'infrared.InfraredTriplet', 'infrared.InfraredTripletF4',
               'lithography.UVProjectionLens', 'microscopes.Objective60x', 'microscopes.UVReflectingMicroscope',
               'objectives.CookeTriplet', 'objectives.DoubleGauss', 'objectives.HeliarLens',
               'objectives.LensWithFieldCorrector', 'objectives.ObjectiveUS008879901', 'objectives.PetzvalLens',
               'objectives.ReverseTelephoto', 'objectives.Telephoto', 'objectives.TessarLens',
               'objectives.TripletTelescopeObjective', 'simple.AsphericSinglet', 'simple.CementedAchromat',
               'simple.Edmund_49_847', 'simple.SingletStopSurf2', 'simple.TelescopeDoublet',
               'telescopes.HubbleTelescope']


def build_optic(case):
    """the real Optic of a case: descriptor/sample, optional image solve, optional image-plane shift"""
    with contextlib.redirect_stdout(io.StringIO()):
        optic = lensgen.build_case(case['lens'])
    if case.get('solve'):
        optic.image_solve()
    dz = case.get('defocus_mm', 0.0)
    if dz:
        optic.surface_group.surfaces[-1].geometry.cs.z += dz
    return optic


def gen_lens_desc(rng):
    """one lens descriptor of a random family"""
    u = rng.random()
    if u < 0.22:
        R = -lensgen.dyadic(rng, 100, 400, 2)
        epd = lensgen.dyadic(rng, 8, 40, 2)
        ap = r_min = None
        v = rng.random()
        if v < 0.35:
            ap = epd / 2 * rng.choice([0.5, 0.625, 0.75, 0.875])
        elif v < 0.5:
            ap = epd
            r_min = epd / 2 * rng.choice([0.25, 0.375, 0.5])
        return {'desc': d_parab(epd, R, ap, r_min, field=lensgen.dyadic(rng, 0.05, 0.5, 6))}, 'parab', False
    if u < 0.5:
        obj = INF if rng.random() < 0.5 else lensgen.dyadic(rng, 60, 400, 2)
        n = lensgen.dyadic(rng, 1.45, 1.9, 6)
        R1 = lensgen.dyadic(rng, 25, 120, 2)
        R2 = -lensgen.dyadic(rng, 25, 200, 2) if rng.random() < 0.8 else INF
        epd = lensgen.dyadic(rng, 1, 8, 3)
        ap = epd / 2 * rng.choice([0.5, 0.75]) if rng.random() < 0.25 else None
        k_abs = 2e-5 if rng.random() < 0.3 else 0.0
        return {'desc': d_singlet(obj, epd, R1, R2, n, lensgen.dyadic(rng, 2, 6, 3), 50.0, ap,
                                  field=lensgen.dyadic(rng, 0.5, 4, 3), k_abs=k_abs)}, 'singlet', True
    if u < 0.85:
        return {'sample': rng.choice(PSF_SAMPLES)}, 'sample', False
    d = lensgen.gen_lens(rng, nsurf=rng.randint(2, 6), allow_mirror=False, finite_object=rng.random() < 0.3,
                         apertures=rng.random() < 0.3, absorbing=True)
    return {'desc': d}, 'random', True


def working_fno_spec(optic):
    """independent: 1 / (2 n' |u'|) of the paraxial marginal ray in image space"""
    _, ua = optic.paraxial.marginal_ray()
    n_img = float(np.ravel(optic.n(optic.primary_wavelength)[-1])[0]) if callable(getattr(optic, 'n', None)) else 1.0
    u = float(np.ravel(ua[-1])[0])
    return 1.0 / (2.0 * abs(n_img) * abs(u))


def gen_cases(ctx):
    rng = ctx.rng
    q = ctx.quick()
    n_psf = 64 if q else 700
    n_geo = 40 if q else 500
    n_big = 3 if q else 24
    cases = []
    tries = 0
    while len([c for c in cases if c['kind'] == 'psf']) < n_psf and tries < 20 * n_psf:
        tries += 1
        lens, fam, solve = gen_lens_desc(rng)
        # sampling
        if q:
            n = rng.choice([16, 16, 24, 32, 32, 48, 64, 17, 33, 21])
            # powers of two, round sizes and sizes with a large prime factor (FFT back-ends treat them differently)
            g = rng.choice([64, 64, 128, 128, 256, 94, 118, 122, 134, 166, 202, 254, 100, 150, 97, 127, 65])
        else:
            n = rng.choice([16, 20, 24, 32, 32, 40, 48, 64, 64, 96, 128, 17, 33, 65, 21, 31, 41])
            g = rng.choice([64, 64, 128, 128, 128, 256, 256, 100, 200, 94, 118, 122, 134, 142, 158, 166, 178,
                            202, 206, 214, 254, 97, 127])
        if g < n:
            g = 256
        waves = rng.choice([0.0, 0.0, 0.05, 0.25, 0.5, 1.0, 2.0, 5.0, 10.0, 20.0, 40.0]) * rng.choice([1, -1])
        case = {'kind': 'psf', 'lens': lens, 'family': fam, 'solve': solve, 'n': n, 'g': g,
                'Hy': rng.choice([0.0, 0.0, 0.7, 1.0]), 'wi': rng.randint(0, 2), 'defocus_waves': waves,
                'view_first': rng.random() < 0.4, 'projection': rng.choice(['2d', '2d', '3d']),
                'log': rng.random() < 0.3}
        if not finalize_case(ctx, case):
            continue
        cases.append(case)
    # stigmatic systems with a full, uniformly filled circular pupil: closed-form clause
    for _ in range(4 if q else 30):
        n = rng.choice([16, 24, 32, 48, 64] if q else [16, 20, 24, 32, 48, 64, 96, 128])
        g = rng.choice([gg for gg in (64, 128, 256) if gg >= 2 * n])
        case = {'kind': 'psf', 'lens': {'desc': d_parab(lensgen.dyadic(rng, 8, 40, 2), -lensgen.dyadic(rng, 100, 400, 2))},
                'family': 'parab-stigmatic', 'solve': False, 'n': n, 'g': g, 'Hy': 0.0, 'wi': 0, 'defocus_waves': 0.0}
        if finalize_case(ctx, case):
            cases.append(case)
    tries = 0
    while len([c for c in cases if c['kind'] == 'geo']) < n_geo and tries < 20 * n_geo:
        tries += 1
        lens, fam, solve = gen_lens_desc(rng)
        case = {'kind': 'geo', 'lens': lens, 'family': fam, 'solve': solve,
                'n': rng.choice([16, 24, 32, 50, 64] if q else [16, 24, 32, 50, 64, 100, 128]),
                'num_points': rng.choice([16, 32, 64, 100] if q else [16, 32, 64, 100, 256]),
                'dist': rng.choice(['uniform', 'hexapolar']), 'scale': rng.random() < 0.8,
                'Hy': rng.choice([0.0, 0.7, 1.0]), 'wi': rng.randint(0, 2),
                'defocus_waves': rng.choice([0.25, 1.0, 2.0, 5.0, 20.0]) * rng.choice([1, -1])}
        if case['dist'] == 'hexapolar':
            case['n'] = rng.choice([4, 6, 9, 12])
        if not finalize_case(ctx, case):
            continue
        cases.append(case)
    # large grids: identities only (no model DFT)
    for _ in range(n_big):
        lens, fam, solve = gen_lens_desc(rng)
        case = {'kind': 'psf', 'big': True, 'lens': lens, 'family': fam, 'solve': solve,
                'n': rng.choice([64, 128] if q else [64, 128, 200, 256]),
                'g': rng.choice([512, 334] if q else [512, 1000, 1024, 2048, 334, 1006, 1018, 502]),
                'Hy': rng.choice([0.0, 1.0]), 'wi': 0, 'defocus_waves': rng.choice([0.0, 0.5, 3.0])}
        if finalize_case(ctx, case):
            cases.append(case)
    return cases


def finalize_case(ctx, case):
    """turn the requested defocus (waves, peak) into a shift of the image surface; reject lenses that
    cannot be built or have no real image / finite F-number (counted)"""
    try:
        c0 = dict(case)
        c0['defocus_mm'] = 0.0
        optic = build_optic(c0)
        wls = optic.wavelengths.get_wavelengths()
        case['wl'] = float(wls[case['wi'] % len(wls)])
        fno = working_fno_spec(optic)
        if not (math.isfinite(fno) and 0.3 < fno < 2000):
            ctx.count('rejected:fno')
            return False
        if not optic.object_surface.is_infinite:
            mag = float(np.ravel(optic.paraxial.magnification())[0])
            if not mag < 0:
                ctx.count('rejected:virtual-image')     # no real image: PSF/MTF not defined
                return False
        case['defocus_mm'] = float(8.0 * case['wl'] * 1e-3 * fno * fno * case['defocus_waves'])
        return True
    except Exception as e:  # noqa
        ctx.count('rejected:build:' + type(e).__name__)
        return False


# ------------------------------------------------------------------ comparison helper (vectorised ctx.cmp_list)
def arr_close(a, b, rtol, atol):
    a = np.asarray(a, dtype=float)
    b = np.asarray(b, dtype=float)
    if a.shape != b.shape:
        return False, None
    fin = np.isfinite(a) & np.isfinite(b)
    ok = np.where(fin, np.abs(a - b) <= atol + rtol * np.maximum(np.abs(a), np.abs(b)),
                  (np.isnan(a) & np.isnan(b)) | ((a == b) & ~np.isnan(a) & ~np.isnan(b)))
    if ok.all():
        return True, None
    return False, int(np.argmin(ok.ravel()))


def cmp_arr(ctx, what, impl, model, case, rtol=1e-9, atol=1e-12, alt=None, alt_name='spec'):
    """hard observable; `alt` = the model's other variant (agreement with either is accepted)"""
    impl = np.asarray(impl, dtype=float)
    model = np.asarray(model, dtype=float)
    ctx.bitexact[1] += impl.size
    if impl.shape == model.shape:
        ctx.bitexact[0] += int(np.sum((impl.view(np.int64) == model.view(np.int64)) if impl.size else 0))
    ok, idx = arr_close(impl, model, rtol, atol)
    if ok:
        return 'code'
    if alt is not None:
        ok2, _ = arr_close(impl, np.asarray(alt, dtype=float), rtol, atol)
        if ok2:
            ctx.count('agrees-with-%s-variant:%s' % (alt_name, what))
            return alt_name
    rec = {'what': what, 'case': case}
    if idx is None:
        rec.update({'impl': 'shape %s' % (impl.shape,), 'model': 'shape %s' % (model.shape,)})
    else:
        rec.update({'index': idx, 'impl': repr(float(impl.ravel()[idx])), 'model': repr(float(model.ravel()[idx]))})
    ctx.disagreements.append(rec)
    return None


def pbatch(lines, workers=4):
    """the driver on several cores: the lines are independent commands"""
    if len(lines) < 4:
        return Driver().batch(lines)
    workers = max(1, min(workers, os.cpu_count() or 1, len(lines)))
    # longest first, round robin
    order = sorted(range(len(lines)), key=lambda i: -len(lines[i]))
    parts = [order[k::workers] for k in range(workers)]
    outs = [None] * len(lines)
    with ThreadPoolExecutor(workers) as ex:
        res = list(ex.map(lambda p: Driver().batch([lines[i] for i in p]), parts))
    for p, r in zip(parts, res):
        for i, o in zip(p, r):
            outs[i] = o
    return outs


# ------------------------------------------------------------------ independent specification
def diff_limit_closed(ratio):
    r = np.clip(np.asarray(ratio, dtype=float), 0.0, 1.0)
    phi = np.arccos(r)
    return 2.0 / np.pi * (phi - np.cos(phi) * np.sin(phi))


def spec_psf(w, inten, dx, dy, n, G):
    """The property, in NumPy: pupil = amplitude * exp(2 pi i W) at the raster positions of the rays
    (amplitude normalised over the transmitted samples), embedded in a G x G array, |DFT|^2 scaled so
    that the unaberrated pupil peaks at 100."""
    w = np.asarray(w, dtype=float)
    inten = np.asarray(inten, dtype=float)
    col = np.rint((np.asarray(dx) + 1.0) / 2.0 * (n - 1)).astype(int)
    row = np.rint((np.asarray(dy) + 1.0) / 2.0 * (n - 1)).astype(int)
    S = int(np.count_nonzero(inten))
    M = int(inten.size)
    amp = inten / (inten.sum() / S)
    P = np.zeros((n, n), dtype=complex)
    P0 = np.zeros((n, n), dtype=float)
    P[row, col] = amp * (np.cos(2 * np.pi * w) + 1j * np.sin(2 * np.pi * w))
    P0[row, col] = amp
    before = (G - n) // 2
    after = G - n - before
    Pp = np.pad(P, ((before, after), (before, after)))
    P0p = np.pad(P0, ((before, after), (before, after)))
    F = np.fft.fftshift(np.fft.fft2(Pp))
    F0 = np.fft.fftshift(np.fft.fft2(P0p))
    psf = (F.real ** 2 + F.imag ** 2) / float(S) ** 2 * 100.0
    psf0 = (F0.real ** 2 + F0.imag ** 2) / float(S) ** 2 * 100.0
    c = G // 2
    M0 = np.abs(np.fft.fftshift(np.fft.fft2(psf0)))
    return {'psf': psf, 'psf0': psf0, 'S': S, 'M': M, 'strehl': psf[c, c] / 100.0, 'c': c,
            'dl_tan': M0[c:, c] / M0[c, c], 'dl_sag': M0[c, c:] / M0[c, c],
            'energy_pupil': float(np.sum(amp ** 2)) * G * G / float(S) ** 2 * 100.0}


def spec_geo(xi, inten, num_points, freq, transmitted_only):
    """modulus of the Fourier transform of the spot's line spread (histogram with num_points+1 bins)"""
    xi = np.asarray(xi, dtype=float)
    if transmitted_only:
        xi = xi[np.asarray(inten) != 0]
    A, edges = np.histogram(xi, bins=num_points + 1)
    x = 0.5 * (edges[1:] + edges[:-1])
    ft = np.array([np.sum(A * np.exp(2j * np.pi * v * x)) for v in freq])
    return np.abs(ft) / np.sum(A)


# ------------------------------------------------------------------ FFT PSF / MTF cases
def axis_of_view(m):
    """x-data of the curves drawn by FFTMTF.view()"""
    from unittest.mock import patch
    import matplotlib.pyplot as plt
    with patch('matplotlib.pyplot.show'):
        m.view()
    ax = plt.gca()
    xs = [np.asarray(l.get_xdata(), dtype=float) for l in ax.lines[:2]]
    plt.close('all')
    return xs


def view_axis(ctx, rec, m):
    """frequencies against which view() draws the curves; [] when view() cannot draw them"""
    case = rec['case']
    try:
        rec['axis'] = axis_of_view(m)
    except Exception as e:  # noqa
        import matplotlib.pyplot as plt
        plt.close('all')
        rec['axis'] = []
        odd = (case['g'] - case['n']) % 2 == 1
        known = odd and isinstance(e, ValueError) and len(rec['mtf'][0]) != case['g'] // 2
        ctx.fail('MTF curves are reported against spatial frequencies', case,
                 'FFTMTF.view() raises %s: %s' % (type(e).__name__, str(e)[:160]),
                 'a frequency for every sample of the curve', finding_key=K_ODD if known else None)


def psf_view_extent(optic, field, wl, n, g):
    """(pixels, x-extent in micrometres) of the image drawn by FFTPSF.view(); None when view() fails.
    A fresh object is used: _plot_2d may write into the array it is given."""
    from unittest.mock import patch
    import matplotlib.pyplot as plt
    from optiland.psf import FFTPSF
    try:
        p = FFTPSF(optic, field, wl, n, g)
        b = p._find_bounds(0.05)
        pixels = p.psf[b[0]:b[2], b[1]:b[3]].shape[1]
        with patch('matplotlib.pyplot.show'):
            p.view()
        ext = plt.gca().images[0].get_extent()
        plt.close('all')
        return (int(pixels), float(ext[1] - ext[0]))
    except Exception:  # noqa
        plt.close('all')
        return None


def mask_counts(n):
    x = np.linspace(-1, 1, n)
    X, Y = np.meshgrid(x, x)
    r2 = X ** 2 + Y ** 2
    return int((r2 <= 1).sum()), int((np.sqrt(r2) <= 1).sum())


def run_psf_impl(ctx, case):
    """implementation side of one FFT case; returns a record or None (out of domain)"""
    from optiland.psf import FFTPSF
    from optiland.mtf import FFTMTF
    from optiland.wavefront import Wavefront
    optic = build_optic(case)
    field = (0.0, float(case['Hy']))
    wl, n, g = case['wl'], case['n'], case['g']
    rec = {'case': case, 'optic': optic}
    try:
        wf = Wavefront(optic, fields=[field], wavelengths=[wl], num_rays=n, distribution='uniform')
        w, inten = np.array(wf.data[0][0][0], dtype=float), np.array(wf.data[0][0][1], dtype=float)
    except Exception as e:  # noqa
        ctx.count('out-of-domain:wavefront-error:' + type(e).__name__)
        return None
    if not (np.all(np.isfinite(w)) and np.all(np.isfinite(inten))) or not np.any(inten != 0) or np.any(inten < 0):
        ctx.count('out-of-domain:non-finite-or-empty-wavefront')
        return None
    rec.update({'w': w, 'inten': inten, 'dx': np.array(wf.distribution.x), 'dy': np.array(wf.distribution.y)})
    try:
        p = FFTPSF(optic, field, wl, n, g)
    except Exception as e:  # noqa
        a, b = mask_counts(n)
        if isinstance(e, ValueError) and a != b and len(w) == a:
            ctx.fail('the FFT PSF exists for every pupil sampling 16-256', case,
                     'FFTPSF raises %s: %s' % (type(e).__name__, str(e)[:160]),
                     'a PSF array; %d rays are traced (x^2+y^2 <= 1) but the pupil mask sqrt(x^2+y^2) <= 1 '
                     'selects %d raster points' % (a, b), finding_key=K_MASK)
            rec['mask_error'] = True
            return rec
        ctx.fail('the FFT PSF exists', case, 'FFTPSF raises %s: %s' % (type(e).__name__, str(e)[:200]), 'a PSF array')
        return None
    pw, pi = np.asarray(p.data[0][0][0], dtype=float), np.asarray(p.data[0][0][1], dtype=float)
    if not (np.array_equal(pw, w) and np.array_equal(pi, inten)):
        ctx.fail('FFTPSF uses the wavefront of the same field / wavelength / sampling', case,
                 'FFTPSF.data differs from Wavefront(...).data', None)
    if case.get('view_first'):
        # the PSF is drawn before it is read: drawing must not change the stored array
        import matplotlib.pyplot as plt
        try:
            p.view(projection=case.get('projection', '2d'), log=bool(case.get('log')), num_points=16)
        except Exception as e:  # noqa
            ctx.count('psf view() raised ' + type(e).__name__)
        plt.close('all')
        ctx.count('psf read after view()')
    rec['psf'] = np.array(p.psf, dtype=float)
    rec['strehl'] = float(p.strehl_ratio())
    if not case.get('big'):
        try:
            m = FFTMTF(optic, fields=[field], wavelength=wl, num_rays=n, grid_size=g)
            rec['mtf'] = [np.array(m.mtf[0][0], dtype=float), np.array(m.mtf[0][1], dtype=float)]
            rec['max_freq'] = float(m.max_freq)
        except Exception as e:  # noqa
            ctx.fail('the FFT MTF exists', case, 'FFTMTF raises %s: %s' % (type(e).__name__, str(e)[:200]), 'MTF curves')
            return None
        view_axis(ctx, rec, m)
    else:
        # the MTF of a large grid: straight from the implementation's own routine on the same PSF
        try:
            m = FFTMTF.__new__(FFTMTF)
            m.optic, m.fields, m.wavelength, m.num_rays, m.grid_size = optic, [field], wl, n, g
            m.FNO = m._get_fno()
            m.max_freq = 1 / (wl * 1e-3 * m.FNO)
            m.psf = [p.psf]
            m.mtf = m._generate_mtf_data()
            rec['mtf'] = [np.array(m.mtf[0][0], dtype=float), np.array(m.mtf[0][1], dtype=float)]
            rec['max_freq'] = float(m.max_freq)
        except Exception as e:  # noqa
            ctx.fail('the FFT MTF exists', case, 'FFTMTF raises %s: %s' % (type(e).__name__, str(e)[:200]), 'MTF curves')
            return None
        view_axis(ctx, rec, m)
    if ctx.evaluations_hint % 4 == 0:
        rec['extent'] = psf_view_extent(optic, field, wl, n, g)
    ctx.evaluations_hint += 1
    par = optic.paraxial
    rec['units'] = {'fno': float(par.FNO()), 'inf': bool(optic.object_surface.is_infinite),
                    'xpd': float(np.ravel(par.XPD())[0]), 'epd': float(np.ravel(par.EPD())[0]),
                    'mag': float(np.ravel(par.magnification())[0])}
    return rec


def psf_line(variant_mean, variant_size, rec):
    c = rec['case']
    return ('psf %s %s %d %d %d ' % (variant_mean, variant_size, c['n'], c['g'], len(rec['w'])) +
            ' '.join(fhex(v) for v in rec['w']) + ' ' + ' '.join(fhex(v) for v in rec['inten']))


def units_line(rec):
    c, u = rec['case'], rec['units']
    pixels = rec['extent'][0] if rec.get('extent') else c['g']
    return 'mtfunits %d %d %s %s %s %s %s %s %d' % (c['n'], c['g'], fhex(c['wl']), fhex(u['fno']), b01(u['inf']),
                                                  fhex(u['xpd']), fhex(u['epd']), fhex(u['mag']), pixels)


def parse_psf(out):
    t = Toks(out)
    if t.error:
        return {'error': out[:200]}
    st = t.tok()
    if st == 'mismatch':
        return {'mismatch': t.nat()}
    nin, gp = t.nat(), t.nat()
    norm, sC, sS = t.flt(), t.flt(), t.flt()
    psf = np.array(t.floats(gp * gp)).reshape(gp, gp)
    res = {'nin': nin, 'gp': gp, 'norm': norm, 'strehl_code': sC, 'strehl_spec': sS, 'psf': psf,
           'specmask': st == 'ok-specmask'}
    for tag in ('code', 'spec'):
        c0 = t.nat()
        ln = t.nat()
        res['c0_' + tag] = c0
        res['tan_' + tag] = np.array(t.floats(ln))
        res['sag_' + tag] = np.array(t.floats(ln))
    return res


def parse_units(out):
    t = Toks(out)
    if t.error:
        return {'error': out[:200]}
    fw, mf, sc, ss, ext = t.floats(5)
    k = t.nat()
    return {'fnow': fw, 'max_freq': mf, 'step_code': sc, 'step_spec': ss, 'extent': ext,
            'axis_code': np.array(t.floats(k)), 'axis_spec': np.array(t.floats(k))}


def psf_predicate(ctx, rec):
    """the clauses of C11 on the implementation's outputs"""
    case = rec['case']
    n, g, wl = case['n'], case['g'], case['wl']
    psf, strehl = rec['psf'], rec['strehl']
    inten = rec['inten']
    desc = lambda **kw: dict({'n': n, 'g': g}, **kw)  # noqa
    # shape / centre
    odd = (g - n) % 2 == 1
    G = psf.shape[0]
    if psf.shape != (g, g):
        ctx.fail('the PSF is a grid_size x grid_size array whose central pixel is grid_size//2', case,
                 desc(shape=list(psf.shape)), [g, g],
                 finding_key=K_ODD if (odd and psf.shape == (g - 1, g - 1)) else None)
    sp = spec_psf(rec['w'], inten, rec['dx'], rec['dy'], n, G)
    S, M = sp['S'], sp['M']
    vign = S < M
    ctx.count('pupil:vignetted' if vign else 'pupil:full')
    if float(np.max(inten[inten != 0]) - np.min(inten[inten != 0])) > 1e-9:
        ctx.count('pupil:apodised')
    pv = float(np.max(rec['w']) - np.min(rec['w']))
    ctx.count('opd-pv:' + ('<0.01' if pv < 0.01 else '<0.25' if pv < 0.25 else '<1' if pv < 1 else '<5' if pv < 5
                           else '<20' if pv < 20 else '>=20'))
    # non-negative
    if not float(psf.min()) >= -1e-10:
        ctx.fail('the PSF is non-negative', case, float(psf.min()), '>= 0')
    # squared modulus of the DFT of the pupil, unaberrated peak = 100
    factor = 1.0
    ok, idx = arr_close(psf, sp['psf'], 1e-7, 1e-8)
    if not ok:
        f17 = (M / S) ** 2
        ok17, _ = arr_close(psf, sp['psf'] * f17, 1e-7, 1e-8)
        if vign and ok17:
            factor = f17
            ctx.fail('the PSF equals |DFT(pupil)|^2 scaled so that the unaberrated pupil peaks at 100', case,
                     desc(peak_of_unaberrated_pupil=100.0 * f17, samples_in_disk=M, transmitted=S), 100.0,
                     finding_key=K_F17)
        else:
            i = idx if idx is not None else 0
            ctx.fail('the PSF equals |DFT(pupil)|^2 scaled so that the unaberrated pupil peaks at 100', case,
                     desc(pixel=[int(i // G), int(i % G)], value=float(psf.ravel()[i])), float(sp['psf'].ravel()[i]))
    # energy independent of the aberration (Parseval)
    e_impl, e_ref = float(psf.sum()), float(sp['psf0'].sum()) * factor
    if not abs(e_impl - e_ref) <= 1e-9 * abs(e_ref):
        ctx.fail('the PSF carries the same total energy whatever the aberration', case, e_impl, e_ref)
    # Strehl
    cval = float(psf[G // 2, G // 2]) / 100.0
    if not abs(strehl - cval) <= 1e-12 + 1e-9 * abs(cval):
        known = odd and psf.shape == (g - 1, g - 1) and abs(strehl - float(psf[g // 2, g // 2]) / 100.0) <= 1e-12
        ctx.fail('the Strehl ratio is the central (zero-frequency) value of the PSF / 100', case,
                 desc(strehl_ratio=strehl, central_pixel=G // 2), cval, finding_key=K_ODD if known else None)
    if not strehl <= 1.0 + 1e-9:
        pix = float(psf[min(g // 2, G - 1), min(g // 2, G - 1)]) / 100.0
        known = (vign and factor != 1.0 and strehl <= factor * (1 + 1e-9) and
                 (abs(strehl - cval) <= 1e-9 * strehl or abs(strehl - pix) <= 1e-9 * strehl))
        ctx.fail('the Strehl ratio never exceeds one', case,
                 desc(strehl_ratio=strehl, samples_in_disk=M, transmitted=S), '<= 1',
                 finding_key=K_F17 if known else None)
    # MTF
    tan, sag = rec['mtf']
    shifted = odd and psf.shape == (g - 1, g - 1) and g // 2 != (g - 1) // 2   # slices start one bin beyond zero frequency
    for name, cur, dl in (('tangential', tan, sp['dl_tan']), ('sagittal', sag, sp['dl_sag'])):
        if not (len(cur) > 0 and abs(cur[0] - 1.0) <= 1e-12):
            ctx.fail('every MTF curve starts at one (%s)' % name, case, float(cur[0]) if len(cur) else None, 1.0,
                     finding_key=K_ODD if shifted else None)
        if not (np.all(cur >= -1e-12) and np.all(cur <= 1.0 + 1e-12)):
            ctx.fail('every MTF curve stays within [0, 1] (%s)' % name, case,
                     [float(cur.min()), float(cur.max())], '[0, 1]')
        k = min(len(cur), len(dl))
        exc = cur[:k] - dl[:k]
        if not np.all(exc <= 1e-9):
            j = int(np.argmax(exc))
            ctx.fail('no MTF curve exceeds the diffraction-limited curve (%s)' % name, case,
                     desc(sample=j, mtf=float(cur[j])), float(dl[j]), finding_key=K_ODD if shifted else None)
    # closed form for an unaberrated, unvignetted, uniformly filled circular pupil
    # (needs a PSF sampled at Nyquist or better, grid >= 2 num_rays; below that the FFT of the PSF is aliased)
    if (not vign) and pv < 1e-3 and float(inten.max() - inten.min()) < 1e-6 and G >= 2 * n:
        ctx.count('closed-form-checked')
        kk = np.arange(len(tan))
        bound = 1.2 / n
        for name, cur in (('tangential', tan), ('sagittal', sag)):
            dev = np.abs(cur - diff_limit_closed(kk / n))
            if not np.all(dev <= bound):
                j = int(np.argmax(dev))
                ctx.fail('unaberrated circular pupil: MTF = (2/pi)(phi - cos phi sin phi) within sampling error '
                         '%.4f (%s)' % (bound, name), case, desc(sample=j, mtf=float(cur[j])),
                         float(diff_limit_closed(j / n)), finding_key=K_ODD if shifted else None)
    # cut-off frequency and frequency axis
    fnow = working_fno_spec(rec['optic'])
    cutoff = 1.0 / (wl * 1e-3 * fnow)
    if not abs(rec['max_freq'] - cutoff) <= 1e-9 * cutoff:
        ctx.fail('the cut-off frequency is 1 / (wavelength x working F-number)', case, rec['max_freq'], cutoff)
    for xs in rec['axis']:
        kk = np.arange(len(xs))
        want = kk * (cutoff / n)          # sample num_rays <-> cut-off
        ok, idx = arr_close(xs, want, 1e-9, 1e-12)
        if not ok:
            okc, _ = arr_close(xs, want * (g / 1000.0), 1e-9, 1e-12)
            j = min(n, len(xs) - 1)
            ctx.fail('MTF curves are reported against frequencies whose cut-off (sample num_rays) is '
                     '1 / (wavelength x working F-number)', case,
                     desc(sample=j, frequency_reported=float(xs[j])), float(want[j]),
                     finding_key=K_F9 if (okc and g != 1000) else None)
            break


def first_match(impl, candidates, rtol, atol):
    """index of the first candidate array that agrees with impl, else None"""
    for i, c in enumerate(candidates):
        ok, _ = arr_close(impl, c, rtol, atol)
        if ok:
            return i
    return None


def compare_psf(ctx, rec, mods, units):
    """hard observables against the model.  mods[0] = the model of the tree (`code` variants); further
    entries = the same model with the `spec` variant of the amplitude mean and / or of the padding
    (requested only when mods[0] disagrees); agreement with any of them is accepted (DESIGN section 4)."""
    case = rec['case']
    mod = mods[0]
    if 'error' in mod or 'mismatch' in mod:
        ctx.disagreements.append({'what': 'model answer', 'model': str(mod)[:200], 'case': case})
        return
    if rec.get('mask_error'):
        if mod.get('specmask'):
            # the model's code mask (sqrt(x^2+y^2) <= 1) does not select as many points as there are rays
            ctx.count('mask-mismatch: implementation raises, model code-mask rejects')
        else:
            ctx.disagreements.append({'what': 'implementation raised, model did not', 'case': case})
        return
    if mod.get('specmask'):
        ctx.count('agrees-with-spec-variant:pupil-mask')
    good = [m for m in mods if 'psf' in m]
    peak = max(100.0, float(np.nanmax(rec['psf'])))

    def check(what, impl, cands, rtol, atol):
        r = cmp_arr(ctx, what, impl, cands[0], case, rtol=rtol, atol=atol)
        if r is None:
            j = first_match(impl, cands[1:], rtol, atol)
            if j is not None:
                ctx.disagreements.pop()
                ctx.count('agrees-with-spec-variant:' + what)
    check('psf', rec['psf'], [m['psf'] for m in good], 1e-7, 1e-10 * peak)
    check('strehl', [rec['strehl']], [[m[k]] for m in good for k in ('strehl_code', 'strehl_spec')], 1e-7, 1e-12)
    for i, nm in ((0, 'tan'), (1, 'sag')):
        check('mtf.' + nm, rec['mtf'][i], [m['%s_%s' % (nm, v)] for m in good for v in ('code', 'spec')], 1e-7, 1e-9)
    if units is not None and 'error' not in units:
        ctx.cmp('max_freq', rec['max_freq'], units['max_freq'], case)
        for xs in rec['axis']:
            cmp_arr(ctx, 'view().xdata', xs, units['axis_code'][:len(xs)], case, rtol=1e-9, atol=1e-12,
                    alt=units['axis_spec'][:len(xs)])
        if rec.get('extent'):
            # FFTPSF._get_psf_units is only visible through the extent of the drawn image: soft observable
            ctx.cmp('view().extent [_get_psf_units]', rec['extent'][1], units['extent'], case, hard=False)
    elif units is not None:
        ctx.disagreements.append({'what': 'model answer (units)', 'model': str(units)[:200], 'case': case})


def big_identities(ctx, rec):
    """grids above 256: no model DFT; the proved identities are evaluated on the implementation's arrays"""
    case = rec['case']
    psf = rec['psf']
    S = int(np.count_nonzero(rec['inten']))
    M = len(rec['inten'])
    G = psf.shape[0]
    # Parseval: sum psf = G^2 sum |P|^2 * 100 / norm,  norm = S^2; amplitude in the code (F17) or spec variant
    inten = rec['inten']
    amps = {'code': inten / inten.mean(), 'spec': inten / (inten.sum() / S)}
    tot = float(psf.sum())
    wants = {k: G * G * float(np.sum(a ** 2)) * 100.0 / float(S) ** 2 for k, a in amps.items()}
    which = 'code' if abs(tot - wants['code']) <= 1e-9 * abs(wants['code']) else 'spec'
    if which == 'spec' and S < M:
        ctx.count('agrees-with-spec-variant:sum(psf)')
    ctx.cmp('sum(psf) [parseval2]', tot, wants[which], case, rtol=1e-9)
    # peak bound: psf <= (sum |P|)^2 * 100 / S^2
    bound = float(np.sum(np.abs(amps[which]))) ** 2 * 100.0 / float(S) ** 2
    if not float(psf.max()) <= bound * (1 + 1e-9):
        ctx.disagreements.append({'what': 'psf <= (sum|P|)^2*100/norm [triangle inequality]', 'impl': float(psf.max()),
                                  'model': bound, 'case': case})
    ctx.count('big-grid-identity-cases')


# ------------------------------------------------------------------ geometric MTF cases
def run_geo_impl(ctx, case):
    from optiland.mtf import GeometricMTF
    optic = build_optic(case)
    field = (0.0, float(case['Hy']))
    try:
        gm = GeometricMTF(optic, fields=[field], wavelength=case['wl'], num_rays=case['n'],
                          distribution=case['dist'], num_points=case['num_points'], scale=case['scale'])
    except Exception as e:  # noqa
        try:
            from optiland.analysis import SpotDiagram
            sd = SpotDiagram(optic, [field], [case['wl']], case['n'], case['dist'])
            finite = all(np.all(np.isfinite(np.asarray(v, dtype=float))) for v in sd.data[0][0][:2])
        except Exception:  # noqa
            finite = False
        if finite:
            ctx.fail('the geometric MTF exists for a finite spot', case,
                     'GeometricMTF raises %s: %s' % (type(e).__name__, str(e)[:160]), 'MTF curves')
        else:
            ctx.count('out-of-domain:non-finite-spot:' + type(e).__name__)
        return None
    x, y, inten = [np.array(v, dtype=float) for v in gm.data[0][0]]
    if not (np.all(np.isfinite(x)) and np.all(np.isfinite(y))):
        ctx.count('out-of-domain:non-finite-spot')
        return None
    for v in (x, y):
        if not (v.max() - v.min()) > 1e-9 * max(1.0, abs(v.max())):
            ctx.count('out-of-domain:degenerate-spot-extent')
            return None
    dl = gm.diff_limited_mtf
    dl = np.full(case['num_points'], float(dl)) if np.ndim(dl) == 0 else np.array(dl, dtype=float)
    return {'case': case, 'optic': optic, 'x': x, 'y': y, 'inten': inten,
            'mtf': [np.array(gm.mtf[0][0], dtype=float), np.array(gm.mtf[0][1], dtype=float)],
            'freq': np.array(gm.freq, dtype=float), 'dl': dl, 'max_freq': float(gm.max_freq)}


def geo_line(rec, coords):
    c = rec['case']
    return 'geomtf %d %s %s %d %s' % (c['num_points'], fhex(rec['max_freq']), b01(c['scale']), len(coords),
                                      ' '.join(fhex(v) for v in coords))


def parse_geo(out, k):
    t = Toks(out)
    if t.error or out.startswith('empty'):
        return {'error': out[:200]}
    np_ = t.nat()
    return {'mtf': np.array(t.floats(np_)), 'dl': np.array(t.floats(np_)), 'freq': np.array(t.floats(np_))}


def geo_predicate(ctx, rec):
    case = rec['case']
    wl = case['wl']
    optic = rec['optic']
    fnow = working_fno_spec(optic)
    cutoff = 1.0 / (wl * 1e-3 * fnow)
    finite_obj = not optic.object_surface.is_infinite
    if not abs(rec['max_freq'] - cutoff) <= 1e-9 * cutoff:
        par_cut = 1.0 / (wl * 1e-3 * float(optic.paraxial.FNO()))
        known = finite_obj and abs(rec['max_freq'] - par_cut) <= 1e-12 * par_cut
        ctx.fail('geometric MTF: the cut-off frequency is 1 / (wavelength x working F-number)', case,
                 {'max_freq': rec['max_freq'], 'object': 'finite' if finite_obj else 'infinite'}, cutoff,
                 finding_key=K_GEOFNO if known else None)
    freq = rec['freq']
    want_f = np.linspace(0.0, rec['max_freq'], case['num_points'])
    ok, idx = arr_close(freq, want_f, 1e-12, 0.0)
    if not ok:
        ctx.fail('geometric MTF: frequencies run from 0 to the cut-off', case, float(freq[idx or 0]),
                 float(want_f[idx or 0]))
    scale = diff_limit_closed(freq / rec['max_freq']) if case['scale'] else np.ones_like(freq)
    blocked = bool(np.any(rec['inten'] == 0))
    ctx.count('spot:has-blocked-rays' if blocked else 'spot:all-transmitted')
    for i, (name, coords) in enumerate((('tangential', rec['y']), ('sagittal', rec['x']))):
        cur = rec['mtf'][i]
        want = spec_geo(coords, rec['inten'], case['num_points'], freq, transmitted_only=True) * scale
        ok, idx = arr_close(cur, want, 1e-8, 1e-10)
        if not ok:
            alt = spec_geo(coords, rec['inten'], case['num_points'], freq, transmitted_only=False) * scale
            ok2, _ = arr_close(cur, alt, 1e-8, 1e-10)
            j = idx or 0
            ctx.fail("the geometric MTF is the modulus of the Fourier transform of the spot's line spread (%s)" % name,
                     case, {'sample': j, 'mtf': float(cur[j]), 'rays': len(coords),
                            'blocked_rays': int(np.sum(rec['inten'] == 0))}, float(want[j]),
                     finding_key=K_GEOVIG if (ok2 and blocked) else None)
        if not abs(cur[0] - 1.0) <= 1e-12:
            ctx.fail('every MTF curve starts at one (geometric %s)' % name, case, float(cur[0]), 1.0)
        if not (np.all(cur >= -1e-12) and np.all(cur <= 1 + 1e-12)):
            ctx.fail('every MTF curve stays within [0, 1] (geometric %s)' % name, case,
                     [float(cur.min()), float(cur.max())], '[0, 1]')
        if case['scale']:
            true_dl = diff_limit_closed(freq / cutoff)
            exc = cur - true_dl
            if not np.all(exc <= 1e-9):
                j = int(np.argmax(exc))
                known = finite_obj and abs(rec['max_freq'] - cutoff) > 1e-9 * cutoff and np.all(cur <= rec['dl'] + 1e-9)
                ctx.fail('no MTF curve exceeds the diffraction-limited curve (geometric %s)' % name, case,
                         {'sample': j, 'frequency': float(freq[j]), 'mtf': float(cur[j])}, float(true_dl[j]),
                         finding_key=K_GEOFNO if known else None)


def compare_geo(ctx, rec, mods, alts=None):
    case = rec['case']
    for i, nm in ((0, 'tan'), (1, 'sag')):
        m = mods[i]
        if 'error' in m:
            ctx.disagreements.append({'what': 'model answer (geomtf)', 'model': m['error'], 'case': case})
            continue
        alt = alts[i]['mtf'] if alts is not None and 'mtf' in alts[i] else None
        cmp_arr(ctx, 'geo.mtf.' + nm, rec['mtf'][i], m['mtf'], case, rtol=1e-8, atol=1e-10, alt=alt)
        cmp_arr(ctx, 'geo.freq', rec['freq'], m['freq'], case, rtol=1e-12, atol=0.0)
        cmp_arr(ctx, 'geo.diff_limited_mtf', rec['dl'], m['dl'], case, rtol=1e-9, atol=1e-12)


# ------------------------------------------------------------------ driver
def run(tier, seed, replay=None):
    if replay is not None and replay.get('kind') not in ('psf', 'geo'):
        seed = int(replay.get('seed', seed))      # an obligation-broken record: re-run its tier/seed
        tier = replay.get('tier', tier)
        replay = None
    ctx = Ctx('C11', tier, seed)
    ctx.evaluations_hint = 0
    ctx.stats['rule'] = ('lens families: paraboloid mirrors (stigmatic on axis; optional stop-down aperture or central '
                         'obstruction), singlets at infinite and finite conjugates (optionally absorbing / stopped '
                         'down), 22 bundled samples, random generated lenses; image solve + defocus of 0-40 waves; '
                         'fields on axis / 0.7 / 1.0; pupil sampling 16-128 incl. odd values, grid 64-256 for the '
                         'model DFT (larger grids: proved identities only); GeometricMTF with uniform and hexapolar '
                         'sampling; distinct by case-descriptor hash; non-trivial = the wavefront is finite')
    aud = audit('C11')
    cases = [replay] if replay else gen_cases(ctx)
    recs_psf, recs_geo = [], []
    for case in cases:
        try:
            rec = run_psf_impl(ctx, case) if case['kind'] == 'psf' else run_geo_impl(ctx, case)
        except Exception as e:  # noqa
            ctx.count('harness-error:' + type(e).__name__)
            ctx.notes.append('harness error on %s: %r' % (case.get('family'), e))
            rec = None
        if rec is None:
            ctx.case(case, nontrivial=False)
            continue
        if case['kind'] != 'psf' and not np.any(np.asarray(rec['inten']) != 0):
            # every ray of the spot is blocked: no light, no line spread, no MTF (0/0) - outside the domain
            ctx.count('out-of-domain:geometric-mtf-of-a-fully-blocked-bundle')
            continue
        (recs_psf if case['kind'] == 'psf' else recs_geo).append(rec)
    # one pass through the driver
    lines, slots = [], []
    for rec in recs_psf:
        if rec['case'].get('big'):
            continue
        slots.append((rec, len(lines)))
        lines.append(psf_line('code', 'code', rec))
        if 'units' in rec:
            lines.append(units_line(rec))
    gslots = []
    for rec in recs_geo:
        gslots.append((rec, len(lines)))
        lines.append(geo_line(rec, rec['y']))
        lines.append(geo_line(rec, rec['x']))
        rec['blocked'] = bool(np.any(rec['inten'] == 0)) and bool(np.any(rec['inten'] != 0))
        if rec['blocked']:      # spec variant: the line spread of the transmitted rays only
            keep = rec['inten'] != 0
            lines.append(geo_line(rec, rec['y'][keep]))
            lines.append(geo_line(rec, rec['x'][keep]))
    outs = pbatch(lines)
    # second pass (spec variants) only where the code variant disagrees and a spec variant differs
    for rec, li in slots:
        case = rec['case']
        ctx.case({k: v for k, v in case.items()}, nontrivial=True)
        ctx.count('family:' + case['family'])
        ctx.count('n=%d' % case['n'])
        ctx.count('grid=%d' % case['g'])
        ctx.count('object:' + ('finite' if not rec['optic'].object_surface.is_infinite else 'infinite'))
        mod = parse_psf(outs[li])
        units = parse_units(outs[li + 1]) if 'units' in rec else None
        mods = [mod]
        if 'psf' in mod and not rec.get('mask_error'):
            vign = np.count_nonzero(rec['inten']) < len(rec['inten'])
            odd = (case['g'] - case['n']) % 2 == 1
            peak = max(100.0, float(np.nanmax(rec['psf'])))
            ok = (arr_close(rec['psf'], mod['psf'], 1e-7, 1e-10 * peak)[0] and
                  arr_close([rec['strehl']], [mod['strehl_code']], 1e-7, 1e-12)[0] and
                  arr_close(rec['mtf'][0], mod['tan_code'], 1e-7, 1e-9)[0])
            if not ok and (vign or odd):
                combos = [(a, b) for a in (('code', 'spec') if vign else ('code',))
                          for b in (('code', 'spec') if odd else ('code',))][1:]
                mods += [parse_psf(o) for o in pbatch([psf_line(a, b, rec) for a, b in combos])]
        compare_psf(ctx, rec, mods, units)
        if not rec.get('mask_error'):
            psf_predicate(ctx, rec)
    for rec in recs_psf:
        if rec['case'].get('big') and not rec.get('mask_error'):
            ctx.case({k: v for k, v in rec['case'].items()}, nontrivial=True)
            ctx.count('family:' + rec['case']['family'])
            ctx.count('grid=%d' % rec['case']['g'])
            big_identities(ctx, rec)
            psf_predicate(ctx, rec)
    for rec, li in gslots:
        case = rec['case']
        ctx.case({k: v for k, v in case.items()}, nontrivial=True)
        ctx.count('geo:family:' + case['family'])
        ctx.count('geo:dist=' + case['dist'])
        alts = None
        if rec.get('blocked'):
            alts = [parse_geo(outs[li + 2], case['num_points']), parse_geo(outs[li + 3], case['num_points'])]
        compare_geo(ctx, rec, [parse_geo(outs[li], case['num_points']), parse_geo(outs[li + 1], case['num_points'])],
                    alts)
        geo_predicate(ctx, rec)
    return finish(ctx, aud,
                  partial=['strehl_le_one: proved for the normalisation over the transmitted samples (strehl_le_one_spec), '
                           'which is what the repaired tree (55d199a, F17) computes; the `_code` variant of the pinned '
                           'tree is kept with its negation witness strehl_code_exceeds_one and strehl_le_one_partial',
                           'closed form (2/pi)(phi - cos phi sin phi) for the circular pupil: approximation statement, '
                           'numerical with bound 1.2/num_rays for grid >= 2 num_rays',
                           'the scatter of the ray list into the raster (ranks) and np.histogram binning are data '
                           'plumbing tied by the correspondence only'],
                  assumptions=['np.fft.fft2 equals the defining DFT sum to rounding (compared at rtol 1e-7)',
                               'Wavefront.data (OPD, intensity) is taken from the implementation (property C09)',
                               'paraxial marginal ray of the implementation defines the working F-number (C04)'])
