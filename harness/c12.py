"""C12  Geometric analyses are faithful functions of the traced rays.

For every lens (24 bundled samples + generated lenses) every analysis class is run on the
implementation; the harness traces the rays *independently* with `optic.trace` / `optic.trace_generic`
at the documented samples (fields, wavelengths, pupil distribution, reference wavelength) and

  * correspondence (hard observables): feeds those records to the Lean model (`Model/Analysis.lean`
    at Float, native driver, commands `an-*`) and compares the model's outputs with the analysis
    objects' `.data` / methods (rtol 1e-9); where the tree is known to be wrong the model carries
    `_code` and `_spec` variants and agreement with either is accepted;
  * predicate (failing-input search, independent of the Lean model): the same recomputation in
    plain NumPy from the independent records, plus: encircled energy non-decreasing and ending at
    the total transmitted energy; field curvature vs an independent Coddington recursion along the
    chief ray (first-order limit, error O(delta^2)); distortion = 100 (y_chief - y_ref)/y_ref with
    y_ref the paraxial image height on the actual image surface (own y-nu trace).

Soft observables (logged, never a violation): nothing is compared through private attributes except
`RmsSpotSizeVsField._spot_size` (soft).
"""
import math, os, random, time
import numpy as np
from .core import Driver, Ctx, audit, finish, fhex
from . import lensgen, c04, specgeom

REC = ('x', 'y', 'z', 'L', 'M', 'N', 'intensity')
KEY_SPOT = 'spot-centroid-explicit-wavelengths'
KEY_FAN = 'rayfan-explicit-wavelengths'
KEY_DIST = 'distortion-object-height-tan'
KEY_GRID = 'grid-distortion-object-height'
KEY_YYBAR = 'yybar-wavelength-ignored'


# ------------------------------------------------------------------ encoding
def hexes(a):
    a = np.ascontiguousarray(np.asarray(a, dtype=float).ravel(), dtype='>f8')
    h = a.tobytes().hex()
    return [h[i:i + 16] for i in range(0, len(h), 16)]


def flist(a):
    t = hexes(a)
    return [str(len(t))] + t


def recs_tokens(arr):
    """arr [n][7] -> length-prefixed list of ray records"""
    arr = np.asarray(arr, dtype=float).reshape(-1, 7)
    return [str(arr.shape[0])] + hexes(arr)


def parse_groups(line):
    t = line.split()
    if t and t[0] in ('error', 'bad-op'):
        return ('error', line[:200])
    out, i = {}, 0
    while i < len(t):
        name = t[i]
        i += 1
        if t[i] == 'none':
            out[name] = None
            i += 1
            continue
        n = int(t[i])
        i += 1
        out[name] = np.frombuffer(bytes.fromhex(''.join(t[i:i + n])), dtype='>f8').astype(float) if n else \
            np.zeros(0)
        i += n
    return out


# ------------------------------------------------------------------ implementation access
def all_records(optic):
    """records of the last trace: array [nsurf][nray][7]"""
    cols = []
    for s in optic.surface_group.surfaces:
        cols.append(np.stack([np.array(np.atleast_1d(getattr(s, f)), dtype=float) for f in REC], axis=-1))
    return np.array(cols)


class Tracer:
    """independent traces, cached per lens (a trace is a deterministic function of its arguments)"""

    def __init__(self, optic):
        self.o = optic
        self.cache = {}
        self.n = 0

    def dist(self, Hx, Hy, w, num, dist):
        key = ('d', float(Hx), float(Hy), float(w), int(num), dist)
        if key not in self.cache:
            self.n += 1
            try:
                self.o.trace(Hx, Hy, w, num, dist)
                self.cache[key] = all_records(self.o)
            except Exception as e:  # noqa
                self.cache[key] = ('error', type(e).__name__)
        return self.cache[key]

    def generic(self, Hx, Hy, Px, Py, w):
        arrs = [np.array(v, dtype=float) for v in (Hx, Hy, Px, Py)]
        key = ('g', float(w)) + tuple(a.tobytes() for a in arrs) + tuple(a.shape for a in arrs)
        if key not in self.cache:
            self.n += 1
            try:
                args = [a.copy() if a.ndim else float(a) for a in arrs]
                self.o.trace_generic(*args, w)
                self.cache[key] = all_records(self.o)
            except Exception as e:  # noqa
                self.cache[key] = ('error', type(e).__name__)
        return self.cache[key]


def iserr(v):
    return isinstance(v, tuple) and len(v) == 2 and isinstance(v[0], str) and v[0] == 'error'


def guard(fn):
    try:
        return fn()
    except Exception as e:  # noqa
        return ('error', type(e).__name__)


class FakeAx:
    def __init__(self):
        self.plots = []

    def plot(self, *a, **k):
        self.plots.append(a)
        return [None]

    def __getattr__(self, name):
        return lambda *a, **k: None


class FakeFig:
    def __getattr__(self, name):
        return lambda *a, **k: None


class fake_pyplot:
    """run a `view()` with a recording canvas (no figure is rendered)"""

    def __enter__(self):
        import matplotlib.pyplot as plt
        self.plt = plt
        self.axes = []
        self.saved = (plt.subplots, plt.show)

        def subplots(*a, **k):
            ax = FakeAx()
            self.axes.append(ax)
            return FakeFig(), ax
        plt.subplots = subplots
        plt.show = lambda *a, **k: None
        return self

    def __exit__(self, *exc):
        self.plt.subplots, self.plt.show = self.saved
        return False


# ------------------------------------------------------------------ documented sample sets (own code)
def own_field_coords(optic):
    fs = optic.fields.fields
    mx = max(math.sqrt(f.x ** 2 + f.y ** 2) for f in fs)
    if mx == 0:
        return [(0, 0)]
    return [(float(f.x / mx), float(f.y / mx)) for f in fs]


def own_wavelengths(optic):
    return [w.value for w in optic.wavelengths.wavelengths]


def own_primary(optic):
    for i, w in enumerate(optic.wavelengths.wavelengths):
        if w.is_primary:
            return i, w.value
    return None, None


def max_field(optic):
    return max(math.sqrt(f.x ** 2 + f.y ** 2) for f in optic.fields.fields)


def odd(n):
    return n + 1 if n % 2 == 0 else n


# ------------------------------------------------------------------ NumPy specification of each analysis
def np_spot(data, ref):
    """data[f][w] = (x, y, i); ref[f] = (x, y) of the reference spot -> centroid, rms, geo"""
    cen, rms, geo = [], [], []
    for fd, r in zip(data, ref):
        cx, cy = np.mean(r[0]), np.mean(r[1])
        cen += [cx, cy]
        for (x, y, _) in fd:
            r2 = (x - cx) ** 2 + (y - cy) ** 2
            rms.append(np.sqrt(np.mean(r2)) if len(r2) else np.nan)
            geo.append(np.max(np.sqrt(r2)) if len(r2) else np.nan)
    return np.array(cen), np.array(rms), np.array(geo)


def np_ee(data, num_points):
    """data[f][0] = (x, y, e) -> r, concatenated curves, totals"""
    cen = [(np.mean(fd[0][0]), np.mean(fd[0][1])) for fd in data]
    radii = [[np.sqrt((x - c[0]) ** 2 + (y - c[1]) ** 2) for (x, y, _) in fd] for fd, c in zip(data, cen)]
    rmax = np.max(np.array([[np.max(r) for r in fr] for fr in radii])) * 1.2
    rs = np.linspace(0, rmax, num_points)
    curves, totals, amb = [], [], []
    for fd, fr in zip(data, radii):
        for (x, y, e), rad in zip(fd, fr):
            curves.append(np.array([np.nansum(e[rad <= r]) for r in rs]))
            # a ray whose radius equals a sample radius to rounding: counting it or not is not determined
            amb.append(np.array([bool(np.any(np.abs(rad - r) <= 1e-12 + 1e-9 * abs(r))) for r in rs]))
            totals.append(np.nansum(e))
    return rs, curves, totals, amb


def np_distortion(kind, angle_formula, mf, hy, yr):
    if angle_formula:
        th = np.radians(mf)
        const = yr[0] / np.tan(1e-10 * th)
        yp = const * np.tan(hy * th) if kind == 'f-tan' else const * hy * th
    else:
        yp = yr[0] / 1e-10 * hy
    return 100 * (yr - yp) / yp


def np_grid(kind, angle_formula, mf, n, y0, xr, yr):
    m = np.sqrt(2) / 2
    ext = np.linspace(-m, m, n)
    Hx, Hy = np.meshgrid(ext, ext)
    if angle_formula:
        th = np.radians(mf)
        if kind == 'f-tan':
            const = y0 / np.tan(1e-10 * th)
            xp, yp = const * np.tan(Hx * th), const * np.tan(Hy * th)
        else:
            const = y0 / (1e-10 * th)
            xp, yp = const * Hx * th, const * Hy * th
        xp = xp[::-1, ::-1]
    else:
        const = y0 / 1e-10
        xp, yp = const * Hx, const * Hy
    xr = xr.reshape(n, n)
    yr = yr.reshape(n, n)
    delta = np.sqrt((xp - xr) ** 2 + (yp - yr) ** 2)
    rp = np.sqrt(xp ** 2 + yp ** 2)
    with np.errstate(all='ignore'):
        mx = np.max(100 * delta / rp)
    return xp.ravel(), yp.ravel(), mx


def np_fc(rt, rs):
    def inter(a1, c1, A1, C1, a2, c2, A2, C2):
        with np.errstate(all='ignore'):
            t = (A2 * c1 - A2 * c2 - C2 * a1 + C2 * a2) / (A1 * C2 - A2 * C1)
            return t * C1
    y, z, M, N = rt[:, 1], rt[:, 2], rt[:, 4], rt[:, 5]
    tan = inter(y[::2], z[::2], M[::2], N[::2], y[1::2], z[1::2], M[1::2], N[1::2])
    x, z, L, N = rs[:, 0], rs[:, 2], rs[:, 3], rs[:, 5]
    sag = inter(x[::2], z[::2], L[::2], N[::2], x[1::2], z[1::2], L[1::2], N[1::2])
    return tan, sag


# ------------------------------------------------------------------ independent paraxial / Coddington
def parax_elements(optic, w):
    """element list in the format of c04.spec_elements, at wavelength w, vertex curvature including the
    r^2 term of an even asphere"""
    out = []
    sigma = 1.0
    for s in optic.surface_group.surfaces[1:]:
        g = s.geometry
        R = float(g.radius)
        c = 0.0 if np.isinf(R) else 1.0 / R
        if type(g).__name__ == 'EvenAsphere' and len(g.c) > 0:
            c += 2 * float(g.c[0])
        n1 = sigma * float(np.ravel(s.material_pre.n(w))[0])
        if s.is_reflective:
            sigma = -sigma
            n2 = -n1
        else:
            n2 = sigma * float(np.ravel(s.material_post.n(w))[0])
        out.append({'c': c, 'n1': n1, 'n2': n2, 'z': float(np.ravel(g.cs.z)[0]), 'stop': s.is_stop,
                    'image_class': type(s).__name__ == 'ImageSurface'})
    return out


def rot_symmetric(optic):
    for s in optic.surface_group.surfaces:
        cs = s.geometry.cs
        if any(float(np.ravel(v)[0]) != 0 for v in (cs.x, cs.y, cs.rx, cs.ry)):
            return False
        if type(s.geometry).__name__ not in ('Plane', 'StandardGeometry', 'EvenAsphere'):
            return False
    return True


def parax_image_height(optic, w, hy):
    """paraxial image height on the image surface, at wavelength w, of the ray that the generator calls the
    chief ray: through the centre of the (primary-wavelength) paraxial entrance pupil, for normalised fields hy"""
    els = parax_elements(optic, w)
    z1 = els[0]['z']
    Y1, _ = c04.spec_trace(els, 1.0, 0.0, z1)
    Y2, _ = c04.spec_trace(els, 0.0, 1.0, z1)
    yi1, yi2 = Y1[-1], Y2[-1]
    epl = z1 + float(np.ravel(optic.paraxial.EPL())[0])       # entrance pupil position (global z)
    mf = max_field(optic)
    out = []
    for h in hy:
        if optic.field_type == 'angle':
            T = math.tan(math.radians(h * mf))
            out.append((z1 - epl) * T * yi1 + T * yi2)
        else:
            zo = float(np.ravel(optic.object_surface.geometry.cs.z)[0])
            H = h * mf
            if epl == zo:
                return None
            u = -H / (epl - zo)
            out.append((H + u * (z1 - zo)) * yi1 + u * yi2)
    return np.array(out)


def profile_derivs(g, r):
    """z'(r), z''(r) of a surface of revolution (plane / conic / even asphere)"""
    name = type(g).__name__
    if name == 'Plane':
        return 0.0, 0.0
    R = float(g.radius)
    c = 0.0 if np.isinf(R) else 1.0 / R
    k = float(getattr(g, 'k', 0.0))
    q = 1 - (1 + k) * c * c * r * r
    if q <= 0:
        return None
    z1 = c * r / math.sqrt(q)
    z2 = c / q ** 1.5
    if name == 'EvenAsphere':
        for i, a in enumerate(g.c):
            p = 2 * (i + 1)
            z1 += p * a * r ** (p - 1)
            z2 += p * (p - 1) * a * r ** (p - 2)
    return z1, z2


def coddington(optic, w, rec):
    """independent Coddington recursion along one chief ray in the meridional plane.
    rec [nsurf][7].  Returns (z-offset tangential, z-offset sagittal) from the image-surface point, or None."""
    surfs = optic.surface_group.surfaces
    n = len(surfs)
    if not np.all(np.isfinite(rec[:, :6])):
        return None
    if optic.object_surface.is_infinite:
        Ws = Wt = 0.0
    else:
        d0 = float(np.linalg.norm(rec[1, :3] - rec[0, :3]))
        if d0 == 0:
            return None
        Ws = Wt = -1.0 / d0
    for j in range(1, n):
        s = surfs[j]
        P = rec[j, :3]
        din = rec[j - 1, 3:6]
        dout = rec[j, 3:6]
        if j > 1:
            d = float((P - rec[j - 1, :3]) @ din)          # signed distance along the ray
            for_s = 1 - d * Ws
            for_t = 1 - d * Wt
            if for_s == 0 or for_t == 0:
                return None
            Ws, Wt = Ws / for_s, Wt / for_t
        if type(s).__name__ == 'ImageSurface':
            continue                                        # the image surface proper does not refract
        g = s.geometry
        r = math.hypot(P[0], P[1])
        dz = profile_derivs(g, r)
        if dz is None:
            return None
        # domain of the recursion (C02's business, findings F22/F23): the recorded point lies on the prescribed
        # sag sheet and was reached by going forward
        zt, _ = specgeom.shape(g, float(P[0]), float(P[1]))
        if zt is None or abs(P[2] - float(np.ravel(g.cs.z)[0]) - zt) > 1e-8 * max(1.0, abs(zt)):
            return 'off-surface'
        if j > 1 and float((P - rec[j - 1, :3]) @ din) < 0:
            return 'backward'
        if type(g).__name__ == 'StandardGeometry' and not np.isinf(float(g.radius)):
            # F23 (C02): quadratic coefficient a = L^2 + M^2 + (1+k) N^2 close to 0 loses up to 1e-5 mm, far more
            # than the separation of the parabasal pair
            if abs(din[0] ** 2 + din[1] ** 2 + (1 + float(g.k)) * din[2] ** 2) < 1e-3:
                return 'conic-quadratic-cancellation'
        z1, z2 = dz
        if r > 0:
            gx, gy = z1 * P[0] / r, z1 * P[1] / r
            cs_ = z1 / r / math.sqrt(1 + z1 * z1)
        else:
            gx = gy = 0.0
            cs_ = z2
        ct_ = z2 / (1 + z1 * z1) ** 1.5
        nrm = np.array([-gx, -gy, 1.0]) / math.sqrt(1 + gx * gx + gy * gy)
        sg = 1.0 if float(din @ nrm) > 0 else -1.0
        ct_, cs_ = sg * ct_, sg * cs_
        ci = abs(float(din @ nrm))
        co = abs(float(dout @ nrm))
        n1 = float(np.ravel(s.material_pre.n(w))[0])
        n2 = float(np.ravel(s.material_post.n(w))[0])
        if ci == 0 or co == 0:
            return None
        if s.is_reflective:
            Ws = Ws - 2 * cs_ * ci
            Wt = Wt - 2 * ct_ / ci
        else:
            pw = n2 * co - n1 * ci
            Ws = (n1 * Ws + pw * cs_) / n2
            Wt = (n1 * ci * ci * Wt + pw * ct_) / (n2 * co * co)
    if Ws == 0 or Wt == 0:
        return None
    N = rec[n - 1, 5]
    return (1.0 / Wt) * N, (1.0 / Ws) * N


# ------------------------------------------------------------------ a "check": one analysis on one lens
class Check:
    """outputs of one analysis: impl / numpy spec / known-wrong value, driver line, predicate failures"""

    def __init__(self, an, cfg):
        self.an = an
        self.cfg = cfg
        self.line = None
        self.items = []      # (name, impl, spec, wrong(key, value)|None, model_spec_name, model_code_name, tol)
        self.fails = []      # (clause, observed, expected, finding_key)
        self.counts = {}
        self.skip = None

    def item(self, name, impl, spec, wrong=None, mspec=None, mcode=None, rtol=1e-9, atol=1e-12, soft_spec=False,
             mask=None):
        """mask: entries excluded from every comparison (ill-conditioned: a ray exactly on a counting boundary)"""
        self.items.append((name, impl, spec, wrong, mspec or name, mcode or mspec or name, rtol, atol, soft_spec, mask))

    def fail(self, clause, observed, expected=None, key=None):
        self.fails.append((clause, observed, expected, key))

    def count(self, k, n=1):
        self.counts[k] = self.counts.get(k, 0) + n


def arr(v):
    return np.asarray(v, dtype=float).ravel()


def resolve_wls(optic, mode, rnd):
    """-> (argument for the analysis, resolved list)"""
    own = own_wavelengths(optic)
    pi, pv = own_primary(optic)
    if mode == 'all':
        return 'all', own
    if mode == 'perm':
        l = own[:]
        if len(l) > 1:
            k = rnd.randrange(1, len(l))
            l = l[k:] + l[:k]
        return l, l
    if mode == 'sub':
        others = [w for w in own if w != pv]
        rnd.shuffle(others)
        l = others[:rnd.randint(0, max(0, len(others) - 1))]
        l.insert(rnd.randint(0, len(l)), pv)
        return l, l
    if mode == 'extra':      # own primary plus wavelengths the lens does not list, primary not first
        l = [round(pv * 0.93, 6), pv, round(pv * 1.09, 6)][:rnd.randint(2, 3)]
        return l, l
    if mode == 'foreign':    # primary wavelength absent from the list
        l = [round(pv * 0.95, 6), round(pv * 1.07, 6)][:rnd.randint(1, 2)]
        return l, l
    raise ValueError(mode)


def resolve_fields(optic, mode, rnd):
    if mode == 'all':
        return 'all', own_field_coords(optic)
    hs = sorted({round(rnd.uniform(0, 1), 3) for _ in range(rnd.randint(1, 2))})
    l = [(0.0, h) for h in hs]
    return l, l


def spot_tuple(rec):
    """image-surface record -> (x, y, i)"""
    return rec[-1][:, 0], rec[-1][:, 1], rec[-1][:, 6]


def trace_grid(tr, fields, wls, num, dist):
    """records [f][w] or the first error"""
    out = []
    for f in fields:
        row = []
        for w in wls:
            r = tr.dist(f[0], f[1], w, num, dist)
            if iserr(r):
                return r
            row.append(r)
        out.append(row)
    return out


# -------- SpotDiagram / RmsSpotSizeVsField
def check_spot(optic, tr, cfg, rnd, cls_name='SpotDiagram'):
    from optiland.analysis import SpotDiagram, RmsSpotSizeVsField
    ck = Check(cls_name, cfg)
    warg, wls = resolve_wls(optic, cfg['wl_mode'], rnd)
    pidx, pval = own_primary(optic)
    num, dist = cfg['num'], cfg['dist']
    if cls_name == 'SpotDiagram':
        farg, fields = resolve_fields(optic, cfg['field_mode'], rnd)
        obj = guard(lambda: SpotDiagram(optic, fields=farg, wavelengths=warg, num_rings=num, distribution=dist))
    else:
        nf = cfg['num_fields']
        fields = [(0, Hy) for Hy in np.linspace(0, 1, nf)]
        obj = guard(lambda: RmsSpotSizeVsField(optic, num_fields=nf, wavelengths=warg, num_rings=num,
                                               distribution=dist))
    cfg['wls'] = [float(w) for w in wls]
    cfg['fields'] = [[float(f[0]), float(f[1])] for f in fields]
    recs = trace_grid(tr, fields, wls, num, dist)
    in_list = pval in wls
    j = wls.index(pval) if in_list else None
    ck.count('wl_mode=' + cfg['wl_mode'])
    code_index_error = pidx >= len(wls)
    if iserr(recs):
        ck.count('independent trace error:' + recs[1])
        if not iserr(obj):
            ck.fail(cls_name + ' returns data although the rays cannot be traced', 'no error', recs)
        ck.skip = 'trace-error'
        return ck
    data = [[spot_tuple(r) for r in row] for row in recs]
    # reference spots for the spec
    if in_list:
        ref = [(fd[j][0], fd[j][1]) for fd in data]
        ref_recs = []
    else:
        rr = trace_grid(tr, fields, [pval], num, dist)
        if iserr(rr):
            ck.skip = 'trace-error'
            return ck
        ref = [(spot_tuple(r[0])[0], spot_tuple(r[0])[1]) for r in rr]
        ref_recs = [r[0][-1] for r in rr]
    s_cen, s_rms, s_geo = np_spot(data, ref)
    if code_index_error:
        w_cen = w_rms = w_geo = ('error', 'IndexError')
    else:
        w_cen, w_rms, w_geo = np_spot(data, [(fd[pidx][0], fd[pidx][1]) for fd in data])
    # driver line
    t = ['an-spot', str(pidx), fhex(pval)] + flist(wls) + [str(len(fields)), str(len(wls))]
    for row in recs:
        for r in row:
            t += recs_tokens(r[-1])
    t += [str(len(ref_recs))]
    for r in ref_recs:
        t += recs_tokens(r)
    ck.line = ' '.join(t)
    if iserr(obj):
        # RmsSpotSizeVsField computes the radii in its constructor
        if cls_name != 'SpotDiagram' and code_index_error and obj[1] == 'IndexError':
            ck.item('rms', obj, s_rms, (KEY_SPOT, w_rms), 'rms_spec', 'rms_code', soft_spec=not in_list)
        else:
            ck.fail(cls_name + ' raises although the rays can be traced', obj, 'data')
        return ck
    # data = the traced records
    impl_data = guard(lambda: np.concatenate([np.concatenate([arr(c) for c in wd]) for fd in obj.data for wd in fd]))
    spec_data = np.concatenate([np.concatenate([arr(c) for c in wd]) for fd in data for wd in fd])
    ck.item('data', impl_data, spec_data, None, '-', '-')
    cen = guard(lambda: arr([v for c in obj.centroid() for v in c]))
    rms = guard(lambda: arr([v for r in obj.rms_spot_radius() for v in r]))
    geo = guard(lambda: arr([v for r in obj.geometric_spot_radius() for v in r]))
    soft = not in_list
    ck.item('centroid', cen, s_cen, (KEY_SPOT, w_cen), 'centroid_spec', 'centroid_code', soft_spec=soft)
    ck.item('rms', rms, s_rms, (KEY_SPOT, w_rms), 'rms_spec', 'rms_code', soft_spec=soft)
    ck.item('geo', geo, s_geo, (KEY_SPOT, w_geo), 'geo_spec', 'geo_code', soft_spec=soft)
    if cls_name != 'SpotDiagram' and hasattr(obj, '_spot_size'):
        ck.item('_spot_size', guard(lambda: arr(obj._spot_size)), s_rms, (KEY_SPOT, w_rms), 'rms_spec', 'rms_code',
                soft_spec=soft)
    # property clauses on the implementation's own numbers
    if not iserr(rms) and not iserr(geo) and len(rms) == len(geo):
        fin = np.isfinite(rms) & np.isfinite(geo)
        if np.any(rms[fin] < 0) or np.any(geo[fin] < 0):
            ck.fail('spot radii are non-negative', [rms.tolist(), geo.tolist()])
        if np.any(rms[fin] > geo[fin] * (1 + 1e-12) + 1e-300):
            ck.fail('rms spot radius <= geometric spot radius', [rms.tolist(), geo.tolist()])
    return ck


# -------- EncircledEnergy
def check_ee(optic, tr, cfg, rnd):
    from optiland.analysis import EncircledEnergy
    ck = Check('EncircledEnergy', cfg)
    farg, fields = resolve_fields(optic, cfg['field_mode'], rnd)
    pidx, pval = own_primary(optic)
    if cfg['wl_mode'] == 'primary':
        warg, w = 'primary', pval
    else:
        w = round(pval * cfg['wl_factor'], 6)
        warg = w
    num, dist, npnt = cfg['num'], cfg['dist'], cfg['num_points']
    if dist == 'random':
        num = 64
    cfg['fields'] = [[float(f[0]), float(f[1])] for f in fields]

    def run():
        ee = EncircledEnergy(optic, fields=farg, wavelength=warg, num_rays=num, distribution=dist, num_points=npnt)
        with fake_pyplot() as fp:
            ee.view()
        plots = fp.axes[0].plots if fp.axes else []
        return ee, plots
    res = guard(run)
    if dist == 'random':
        # not reproducible: only the property's own clauses, on the implementation's data
        if iserr(res):
            ck.count('random: error ' + res[1])
            return ck
        ee, plots = res
        for k, p in enumerate(plots):
            r, e = arr(p[0]), arr(p[1])
            tot = float(np.nansum(arr(ee.data[k][0][2])))
            if np.all(np.isfinite(r)):
                if np.any(np.diff(e) < -1e-12 * max(1.0, float(np.nanmax(np.abs(e))))):   # rounding of the sum allowed
                    ck.fail('encircled energy is non-decreasing in radius (random distribution)', e.tolist())
                if abs(e[-1] - tot) > 1e-9 * max(1.0, abs(tot)):
                    ck.fail('encircled energy reaches the total transmitted energy (random distribution)',
                            float(e[-1]), tot)
                ck.count('random: curves checked')
            else:
                ck.count('random: non-finite radius')
        return ck
    recs = trace_grid(tr, fields, [w], num, dist)
    if iserr(recs):
        if not iserr(res):
            ck.fail('EncircledEnergy returns data although the rays cannot be traced', 'no error', recs)
        ck.skip = 'trace-error'
        return ck
    data = [[spot_tuple(r) for r in row] for row in recs]
    with np.errstate(all='ignore'):
        rs, curves, totals, amb = np_ee(data, npnt)
    t = ['an-ee', str(npnt), str(len(fields)), '1']
    for row in recs:
        t += recs_tokens(row[0][-1])
    ck.line = ' '.join(t)
    if iserr(res):
        ck.fail('EncircledEnergy raises although the rays can be traced', res, 'curves')
        return ck
    ee, plots = res
    impl_data = guard(lambda: np.concatenate([np.concatenate([arr(c) for c in wd]) for fd in ee.data for wd in fd]))
    ck.item('data', impl_data, np.concatenate([np.concatenate([arr(c) for c in wd]) for fd in data for wd in fd]),
            None, '-', '-')
    if len(plots) != len(curves):
        ck.fail('one encircled-energy curve per field', len(plots), len(curves))
        return ck
    ck.item('r', arr(plots[0][0]) if plots else np.zeros(0), rs, None, 'r', 'r')
    impl_curves = np.concatenate([arr(p[1]) for p in plots]) if plots else np.zeros(0)
    ck.item('ee', impl_curves, np.concatenate(curves) if curves else np.zeros(0), None, 'ee', 'ee',
            mask=np.concatenate(amb) if amb else None)
    for k, p in enumerate(plots):
        r, e = arr(p[0]), arr(p[1])
        if not np.all(np.isfinite(r)):
            ck.count('non-finite radius axis (a ray missed the image)')
            continue
        if np.any(np.diff(e) < -1e-12 * max(1.0, float(np.nanmax(np.abs(e))))):   # rounding of the sum allowed
            ck.fail('encircled energy is non-decreasing in radius', e.tolist())
        if abs(e[-1] - totals[k]) > 1e-9 * max(1.0, abs(totals[k])):
            ck.fail('encircled energy reaches the total transmitted energy', float(e[-1]), float(totals[k]))
        ck.count('curves with monotone/total clauses checked')
    return ck


# -------- RayFan and PupilAberration (share the line_x / line_y traces)
def fan_records(tr, fields, wls, n):
    out = []
    for f in fields:
        row = []
        for w in wls:
            rx = tr.dist(f[0], f[1], w, n, 'line_x')
            ry = tr.dist(f[0], f[1], w, n, 'line_y')
            if iserr(rx):
                return rx
            if iserr(ry):
                return ry
            row.append((rx, ry))
        out.append(row)
    return out


def check_fan(optic, tr, cfg, rnd):
    from optiland.analysis import RayFan
    ck = Check('RayFan', cfg)
    farg, fields = resolve_fields(optic, cfg['field_mode'], rnd)
    warg, wls = resolve_wls(optic, cfg['wl_mode'], rnd)
    pidx, pval = own_primary(optic)
    n = odd(cfg['num_points'])
    cfg['wls'] = [float(w) for w in wls]
    cfg['fields'] = [[float(f[0]), float(f[1])] for f in fields]
    ck.count('wl_mode=' + cfg['wl_mode'])
    obj = guard(lambda: RayFan(optic, fields=farg, wavelengths=warg, num_points=cfg['num_points']))
    recs = fan_records(tr, fields, wls, n)
    if iserr(recs):
        if not iserr(obj):
            ck.fail('RayFan returns data although the rays cannot be traced', 'no error', recs)
        ck.skip = 'trace-error'
        return ck
    in_list = pval in wls
    if in_list:
        j = wls.index(pval)
        ref = [(row[j][0][-1][n // 2, 0], row[j][1][-1][n // 2, 1]) for row in recs]
    else:
        rr = fan_records(tr, fields, [pval], n)
        if iserr(rr):
            ck.skip = 'trace-error'
            return ck
        ref = [(row[0][0][-1][n // 2, 0], row[0][1][-1][n // 2, 1]) for row in rr]
    spec = []
    inten = []
    for row, o in zip(recs, ref):
        for rx, ry in row:
            spec.append(rx[-1][:, 0] - o[0])
            spec.append(ry[-1][:, 1] - o[1])
            inten.append(rx[-1][:, 6])
            inten.append(ry[-1][:, 6])
    spec = np.concatenate(spec)
    inten = np.concatenate(inten)
    t = ['an-fan', str(n), fhex(pval)] + flist(wls) + [str(len(fields)), str(len(wls))]
    for row in recs:
        for rx, ry in row:
            t += recs_tokens(rx[-1]) + recs_tokens(ry[-1])
    t += [str(len(ref))]
    for o in ref:
        t += [fhex(o[0]), fhex(o[1])]
    ck.line = ' '.join(t)
    wrong = (KEY_FAN, ('error', 'KeyError')) if not in_list else None
    if iserr(obj):
        ck.item('fan', obj, spec, wrong, 'fan_spec', 'fan_code', soft_spec=False)
        return ck

    def flat():
        out, it = [], []
        for f in fields:
            for w in wls:
                d = obj.data[f'{f}'][f'{w}']
                out += [arr(d['x']), arr(d['y'])]
                it += [arr(d['intensity_x']), arr(d['intensity_y'])]
        return np.concatenate(out), np.concatenate(it)
    fl = guard(flat)
    if iserr(fl):
        ck.fail('RayFan.data has an entry for every field and wavelength', fl)
        return ck
    ck.item('fan', fl[0], spec, wrong, 'fan_spec', 'fan_code', soft_spec=not in_list)
    ck.item('intensity', fl[1], inten, None, '-', '-')
    P = np.linspace(-1, 1, n)
    ck.item('Px', arr(obj.data['Px']), P, None, '-', '-')
    ck.item('Py', arr(obj.data['Py']), P, None, '-', '-')
    return ck


def check_pupil(optic, tr, cfg, rnd):
    from optiland.analysis import PupilAberration
    ck = Check('PupilAberration', cfg)
    farg, fields = resolve_fields(optic, cfg['field_mode'], rnd)
    warg, wls = resolve_wls(optic, cfg['wl_mode'], rnd)
    pidx, pval = own_primary(optic)
    n = odd(cfg['num_points'])
    cfg['wls'] = [float(w) for w in wls]
    cfg['fields'] = [[float(f[0]), float(f[1])] for f in fields]
    obj = guard(lambda: PupilAberration(optic, fields=farg, wavelengths=warg, num_points=cfg['num_points']))
    stop = next((i for i, s in enumerate(optic.surface_group.surfaces) if s.is_stop), None)
    recs = fan_records(tr, fields, wls, n)

    def parax():
        P = np.linspace(-1, 1, n)
        optic.paraxial.trace(0, 1, pval)
        d = float(np.ravel(optic.surface_group.surfaces[stop].y)[0])
        optic.paraxial.trace(0, P, pval)
        return d, np.array(np.ravel(optic.surface_group.surfaces[stop].y), dtype=float)
    px = guard(parax)
    if iserr(recs) or iserr(px) or stop is None:
        if not iserr(obj) and iserr(recs):
            ck.fail('PupilAberration returns data although the rays cannot be traced', 'no error', recs)
        ck.skip = 'trace-error'
        return ck
    d, pref = px
    # independent paraxial reference: the on-axis pupil ray is linear in Py, height d at the stop for Py = 1
    ya = guard(lambda: float(np.ravel(optic.paraxial.marginal_ray()[0])[stop]))
    P = np.linspace(-1, 1, n)
    spec = []
    for row in recs:
        for rx, ry in row:
            with np.errstate(all='ignore'):
                ex = (pref - rx[stop][:, 0]) / d * 100
                ey = (pref - ry[stop][:, 1]) / d * 100
            ex[rx[stop][:, 6] == 0] = np.nan
            ey[ry[stop][:, 6] == 0] = np.nan
            spec += [ex, ey]
    spec = np.concatenate(spec)
    t = ['an-pupil', fhex(d)] + flist(pref)
    lines = []
    for row in recs:
        for rx, ry in row:
            lines.append(' '.join(t + recs_tokens(rx[stop]) + recs_tokens(ry[stop])))
    ck.line = lines
    if iserr(obj):
        ck.fail('PupilAberration raises although the rays can be traced', obj, 'data')
        return ck

    def flat():
        out = []
        for f in fields:
            for w in wls:
                dd = obj.data[f'{f}'][f'{w}']
                out += [arr(dd['x']), arr(dd['y'])]
        return np.concatenate(out)
    fl = guard(flat)
    if iserr(fl):
        ck.fail('PupilAberration.data has an entry for every field and wavelength', fl)
        return ck
    ck.item('pupil', fl, spec, None, 'pupil', 'pupil', atol=1e-10)
    ck.item('Px', arr(obj.data['Px']), P, None, '-', '-')
    ck.item('Py', arr(obj.data['Py']), P, None, '-', '-')
    if rot_symmetric(optic) and not iserr(ya) and math.isfinite(ya) and math.isfinite(d):
        if abs(ya - d) > 1e-9 * max(1.0, abs(d)) or np.any(np.abs(pref - P * d) > 1e-9 * max(1.0, abs(d))):
            ck.fail('paraxial pupil reference is Py times the marginal-ray height at the stop',
                    [d, pref.tolist()], [ya, (P * ya).tolist()])
    return ck


# -------- Distortion / GridDistortion
def check_dist(optic, tr, cfg, rnd):
    from optiland.analysis import Distortion
    ck = Check('Distortion', cfg)
    warg, wls = resolve_wls(optic, cfg['wl_mode'], rnd)
    cfg['wls'] = [float(w) for w in wls]
    n, kind = cfg['num_points'], cfg['type']
    angle = optic.field_type == 'angle'
    ck.count('field=' + str(optic.field_type))
    mf = float(max_field(optic))
    obj = guard(lambda: Distortion(optic, wavelengths=warg, num_points=n, distortion_type=kind))
    hy = np.linspace(1e-10, 1, n)
    recs = []
    for w in wls:
        r = tr.generic(np.zeros(n), hy, 0.0, 0.0, w)
        if iserr(r):
            if not iserr(obj):
                ck.fail('Distortion returns data although the rays cannot be traced', 'no error', r)
            ck.skip = 'trace-error'
            return ck
        recs.append(r)
    with np.errstate(all='ignore'):
        spec = np.concatenate([np_distortion(kind, angle, mf, hy, r[-1][:, 1]) for r in recs])
        wrong = None if angle else (KEY_DIST, np.concatenate([np_distortion(kind, True, mf, hy, r[-1][:, 1])
                                                              for r in recs]))
    ck.line = [' '.join(['an-dist', kind, '1' if angle else '0', fhex(mf)] + flist(hy) + recs_tokens(r[-1]))
               for r in recs]
    if iserr(obj):
        ck.fail('Distortion raises although the rays can be traced', obj, 'data')
        return ck
    impl = guard(lambda: np.concatenate([arr(d) for d in obj.data]))
    ck.item('dist', impl, spec, wrong, 'dist_spec', 'dist_code', atol=1e-9)
    # distortion against the paraxial image height on the actual image surface (own y-nu trace)
    if rot_symmetric(optic) and not iserr(impl) and len(impl) == len(spec):
        for k, (w, r) in enumerate(zip(wls, recs)):
            yp = guard(lambda: parax_image_height(optic, w, hy))
            yr = r[-1][:, 1]
            if yp is None or iserr(yp) or not np.all(np.isfinite(yp)) or not np.all(np.isfinite(yr)):
                ck.count('paraxial reference: not available')
                continue
            if kind == 'f-theta' and angle:
                # f-theta reference: paraxial height scaled from tan to the angle itself
                th = np.radians(mf)
                yp = yp / np.tan(hy * th) * (hy * th)
            elif kind == 'f-theta':
                pass
            if np.any(yp == 0):
                ck.count('paraxial reference: zero image height')
                continue
            exp = 100 * (yr - yp) / yp
            got = impl[k * n:(k + 1) * n]
            tol = 2e-4 + 1e-5 * np.abs(exp)
            bad = np.abs(got - exp) > tol
            ck.count('paraxial reference: compared')
            if np.any(bad):
                i = int(np.argmax(bad))
                wr = wrong[1][k * n:(k + 1) * n] if wrong else None
                key = KEY_DIST if (wr is not None and np.allclose(got, wr, rtol=1e-9, atol=1e-9, equal_nan=True)) else None
                ck.fail('distortion = 100 (y_chief - y_paraxial)/y_paraxial on the image surface (%s, Hy=%g)'
                        % (kind, hy[i]), float(got[i]), float(exp[i]), key)
    return ck


def check_grid(optic, tr, cfg, rnd):
    from optiland.analysis import GridDistortion
    ck = Check('GridDistortion', cfg)
    pidx, pval = own_primary(optic)
    if cfg['wl_mode'] == 'primary':
        warg, w = 'primary', pval
    else:
        w = round(pval * cfg['wl_factor'], 6)
        warg = w
    n, kind = cfg['num_points'], cfg['type']
    angle = optic.field_type == 'angle'
    mf = float(max_field(optic))
    obj = guard(lambda: GridDistortion(optic, wavelength=warg, num_points=n, distortion_type=kind))
    m = np.sqrt(2) / 2
    ext = np.linspace(-m, m, n)
    Hx, Hy = np.meshgrid(ext, ext)
    r0 = tr.generic(0.0, 1e-10, 0.0, 0.0, w)
    r = tr.generic(Hx.flatten(), Hy.flatten(), 0.0, 0.0, w)
    if iserr(r0) or iserr(r):
        if not iserr(obj):
            ck.fail('GridDistortion returns data although the rays cannot be traced', 'no error', r0)
        ck.skip = 'trace-error'
        return ck
    y0 = r0[-1][0, 1]
    xr, yr = r[-1][:, 0], r[-1][:, 1]
    with np.errstate(all='ignore'):
        sxp, syp, smax = np_grid(kind, angle, mf, n, y0, xr, yr)
        wr = None if angle else np_grid(kind, True, mf, n, y0, xr, yr)
    ck.line = ' '.join(['an-grid', kind, '1' if angle else '0', fhex(mf), str(n)] +
                       recs_tokens(r0[-1][0:1])[1:] + recs_tokens(r[-1]))
    if iserr(obj):
        ck.fail('GridDistortion raises although the rays can be traced', obj, 'data')
        return ck
    d = obj.data
    ck.item('xr', guard(lambda: arr(d['xr'])), xr, None, 'xr_spec', 'xr_code')
    ck.item('yr', guard(lambda: arr(d['yr'])), yr, None, 'yr_spec', 'yr_code')
    ck.item('xp', guard(lambda: arr(d['xp'])), sxp, (KEY_GRID, wr[0]) if wr else None, 'xp_spec', 'xp_code')
    ck.item('yp', guard(lambda: arr(d['yp'])), syp, (KEY_GRID, wr[1]) if wr else None, 'yp_spec', 'yp_code')
    ck.item('max_distortion', guard(lambda: arr([d['max_distortion']])), arr([smax]),
            (KEY_GRID, arr([wr[2]])) if wr else None, 'max_spec', 'max_code', atol=1e-9)
    if not math.isfinite(smax):
        ck.count('max_distortion non-finite (0/0 at the centre of an odd grid, or a lost ray)')
    return ck


# -------- FieldCurvature
def check_fc(optic, tr, cfg, rnd):
    from optiland.analysis import FieldCurvature
    ck = Check('FieldCurvature', cfg)
    warg, wls = resolve_wls(optic, cfg['wl_mode'], rnd)
    cfg['wls'] = [float(w) for w in wls]
    n = cfg['num_points']
    delta = 1e-5
    obj = guard(lambda: FieldCurvature(optic, wavelengths=warg, num_points=n))
    Hx = np.zeros(2 * n)
    Hy = np.repeat(np.linspace(0, 1, n), 2)
    P = np.tile(np.array([-delta, delta]), n)
    Z = np.zeros(2 * n)
    spec, lines, per_w = [], [], []
    for w in wls:
        rt = tr.generic(Hx, Hy, Z, P, w)
        rs = tr.generic(Hx, Hy, P, Z, w)
        if iserr(rt) or iserr(rs):
            if not iserr(obj):
                ck.fail('FieldCurvature returns data although the rays cannot be traced', 'no error', rt)
            ck.skip = 'trace-error'
            return ck
        tan, sag = np_fc(rt[-1], rs[-1])
        spec += [tan, sag]
        per_w.append((tan, sag))
        lines.append(' '.join(['an-fc'] + recs_tokens(rt[-1]) + recs_tokens(rs[-1])))
    spec = np.concatenate(spec)
    ck.line = lines
    if iserr(obj):
        ck.fail('FieldCurvature raises although the rays can be traced', obj, 'data')
        return ck
    impl = guard(lambda: np.concatenate([np.concatenate([arr(d[0]), arr(d[1])]) for d in obj.data]))
    ck.item('fc', impl, spec, None, 'fc', 'fc', atol=1e-12)
    # Coddington's equations along the chief ray (first-order limit of the parabasal pair)
    if rot_symmetric(optic) and not iserr(impl) and len(impl) == len(spec):
        hyk = np.linspace(0, 1, n)
        for k, w in enumerate(wls):
            rc = tr.generic(np.zeros(n), hyk, 0.0, 0.0, w)
            if iserr(rc):
                continue
            for i in range(n):
                cd = guard(lambda: coddington(optic, w, rc[:, i, :]))
                if isinstance(cd, str):
                    ck.count('coddington: chief-ray record outside C02\'s domain (%s)' % cd)
                    continue
                if cd is None or iserr(cd) or not all(math.isfinite(v) for v in cd):
                    ck.count('coddington: not available')
                    continue
                got_t = impl[k * 2 * n + i]
                got_s = impl[k * 2 * n + n + i]
                if not (math.isfinite(got_t) and math.isfinite(got_s)):
                    ck.count('coddington: implementation non-finite')
                    continue
                ck.count('coddington: compared')
                for nm, g_, e_ in (('tangential', got_t, cd[0]), ('sagittal', got_s, cd[1])):
                    tol = 2e-5 * max(1.0, abs(e_)) + 1e-4 * abs(e_) * min(1.0, abs(e_) * 1e-2)
                    if abs(g_ - e_) > tol:
                        ck.fail('%s field curvature agrees with Coddington\'s equations along the chief ray '
                                '(Hy=%g, w=%g)' % (nm, hyk[i], w), float(g_), float(e_))
    return ck


# -------- YYbar
def check_yybar(optic, tr, cfg, rnd):
    from optiland.analysis import YYbar
    ck = Check('YYbar', cfg)
    pidx, pval = own_primary(optic)
    own = own_wavelengths(optic)
    if cfg['wl_mode'] == 'primary' or len(own) < 2:
        warg, w = 'primary', pval
    else:
        w = [x for x in own if x != pval][0]
        warg = w

    def run():
        yy = YYbar(optic, wavelength=warg)
        with fake_pyplot() as fp:
            yy.view()
        return fp.axes[0].plots if fp.axes else []
    res = guard(run)
    rays = guard(lambda: (arr(optic.paraxial.marginal_ray()[0]), arr(optic.paraxial.chief_ray()[0])))
    if iserr(rays):
        ck.skip = 'paraxial-error'
        return ck
    ya, yb = rays
    ck.line = [' '.join(['an-yybar', 'code'] + flist(ya) + flist(yb))]
    spec = []
    for k in range(2, len(ya)):
        spec += [yb[k - 1], yb[k], ya[k - 1], ya[k]]
    spec = arr(spec)
    if iserr(res):
        ck.fail('YYbar raises although the paraxial rays can be traced', res, 'segments')
        return ck
    impl = guard(lambda: np.concatenate([np.concatenate([arr(p[0]), arr(p[1])]) for p in res]) if res else np.zeros(0))
    wrong = None
    spec_w = spec
    mask = None
    if w != pval:
        # what the documented `wavelength` argument requires: the same object-space marginal ray, traced at w
        def at_w():
            p = optic.paraxial
            y0, u0 = p.marginal_ray()
            if optic.object_surface.is_infinite:
                z = float(np.ravel(optic.surface_group.positions[1])[0])
                yy, _ = p._trace_generic(float(np.ravel(y0)[1]), 0.0, z, w)
            else:
                z = float(np.ravel(optic.surface_group.positions[0])[0])
                yy, _ = p._trace_generic(0.0, float(np.ravel(u0)[0]), z, w)
            return arr(yy)
        yw = guard(at_w)
        # the chief-ray abscissae at w depend on how the chief ray is re-aimed at w (not fixed by the property)
        mask = np.array([True, True, False, False] * (len(spec) // 4))
        if iserr(yw) or len(yw) != len(ya) or not np.all(np.isfinite(yw)):
            ck.count('wavelength != primary, marginal ray not finite (degenerate lens)')
        elif not iserr(yw) and len(yw) == len(ya) and np.all(np.isfinite(yw)) and \
                np.max(np.abs(yw - ya)) <= 1e-7 * max(1.0, np.max(np.abs(ya))):
            # the marginal heights do not depend on the wavelength here (e.g. the only dispersive element is a
            # plane-parallel plate) but the chief ray at w may: its abscissae are not fixed by the property
            mask = np.array([True, True, False, False] * (len(spec) // 4))
            ck.count('wavelength != primary, marginal ray not dispersive')
        elif not iserr(yw) and len(yw) == len(ya) and np.all(np.isfinite(yw)):
            # the diagram at w differs from the primary one; the code plots the primary one
            sw = []
            for k in range(2, len(ya)):
                sw += [yb[k - 1], yb[k], yw[k - 1], yw[k]]
            spec_w = arr(sw)
            ck.line.append(' '.join(['an-yybar', 'spec'] + flist(yw) + flist(yb)))
            wrong = (KEY_YYBAR, spec)
            ck.count('wavelength != primary, dispersive')
            # the chief-ray abscissae at w depend on how the chief ray is re-aimed at w (not fixed by the
            # property): only the marginal-ray ordinates are compared in this case
            mask = np.array([True, True, False, False] * (len(spec) // 4))
            if not iserr(impl) and len(impl) == len(spec) and vclose(impl, spec, 1e-9, 1e-12)[0]:
                mask = None          # the known-wrong value is recognised on all entries
    ck.item('segments', impl, spec_w, wrong, 'seg_spec' if len(ck.line) > 1 else 'seg_code', 'seg_code', soft_spec=False,
            mask=mask if w != pval else None)
    return ck


# -------- RayOperand
def check_oper(optic, tr, cfg, rnd):
    from optiland.optimization.operand.ray import RayOperand
    ck = Check('RayOperand', cfg)
    nsurf = len(optic.surface_group.surfaces)
    k = cfg['surface'] % (2 * nsurf) - nsurf          # in [-nsurf, nsurf)
    cfg['surface_number'] = k
    own = own_wavelengths(optic)
    pidx, pval = own_primary(optic)
    w = own[cfg['wl_index'] % len(own)] if cfg['wl_index'] >= 0 else round(pval * 1.04, 6)
    Hy, Px, Py = cfg['Hy'], cfg['Px'], cfg['Py']
    names = ['x_intercept', 'y_intercept', 'z_intercept', 'L', 'M', 'N']
    impl = guard(lambda: arr([getattr(RayOperand, nm)(optic, k, 0.0, Hy, Px, Py, w) for nm in names]))
    r = tr.generic(0.0, Hy, Px, Py, w)
    lines = []
    if iserr(r):
        if not iserr(impl):
            ck.fail('RayOperand returns a value although the ray cannot be traced', 'no error', r)
        ck.skip = 'trace-error'
        return ck
    lines.append(' '.join(['an-oper', str(k), str(nsurf)] + sum([recs_tokens(r[j]) for j in range(nsurf)], [])))
    ck.item('oper', impl, r[k][0, :6], None, 'oper', 'oper')
    # rms spot size, one wavelength
    num, dist = cfg['num'], cfg['dist']
    ks = cfg['rms_surface']
    rms1 = guard(lambda: arr([RayOperand.rms_spot_size(optic, ks, 0.0, Hy, num, w, dist)]))
    r1 = tr.dist(0.0, Hy, w, num, dist)
    if not iserr(r1):
        x, y = r1[ks][:, 0], r1[ks][:, 1]
        s1 = np.sqrt(np.mean((x - np.mean(x)) ** 2 + (y - np.mean(y)) ** 2))
        lines.append(' '.join(['an-oprms'] + recs_tokens(r1[ks])))
        ck.item('rms1', rms1, arr([s1]), None, 'rms1', 'rms1')
    # rms spot size, all wavelengths
    rmsa = guard(lambda: arr([RayOperand.rms_spot_size(optic, ks, 0.0, Hy, num, 'all', dist)]))
    ra = [tr.dist(0.0, Hy, ww, num, dist) for ww in own]
    if not any(iserr(v) for v in ra):
        xs = [v[ks][:, 0] for v in ra]
        ys = [v[ks][:, 1] for v in ra]
        mx, my = np.mean(xs[pidx]), np.mean(ys[pidx])
        r2 = np.concatenate([(xx - mx) ** 2 + (yy - my) ** 2 for xx, yy in zip(xs, ys)])
        sa = np.sqrt(np.mean(r2))
        lines.append(' '.join(['an-oprmsall', str(pidx), str(len(own))] + sum([recs_tokens(v[ks]) for v in ra], [])))
        ck.item('rmsall', rmsa, arr([sa]), None, 'rmsall', 'rmsall')
    ck.line = lines
    return ck


# ------------------------------------------------------------------ one lens = one case
ANALYSES = ['spot_all', 'spot_exp', 'ee', 'fan', 'pupil', 'dist_tan', 'dist_theta', 'grid_tan', 'grid_theta',
            'fc', 'rmsf', 'yybar', 'oper']


def draw_cfg(rng, quick):
    """all random choices of one case, drawn in the main process from ctx.rng"""
    dists = ['hexapolar'] * 6 + ['uniform', 'cross', 'ring']
    wl_modes = ['all', 'perm', 'sub', 'extra', 'foreign']

    def num_for(d):
        return {'hexapolar': rng.randint(2, 4), 'uniform': rng.randint(5, 9), 'cross': rng.randint(5, 12),
                'ring': rng.randint(6, 24)}[d]
    d1 = rng.choice(dists)
    n1 = num_for(d1)
    d2 = rng.choice(dists)
    cfg = {
        'seed': rng.randint(0, 2 ** 31),
        'spot_all': {'wl_mode': 'all', 'field_mode': 'all', 'num': n1, 'dist': d1},
        'spot_exp': {'wl_mode': rng.choice(wl_modes[1:]), 'field_mode': rng.choice(['all', 'explicit', 'explicit']),
                     'num': num_for(d2), 'dist': d2},
        'ee': {'field_mode': rng.choice(['all', 'explicit']), 'wl_mode': rng.choice(['primary', 'primary', 'other']),
               'wl_factor': rng.choice([0.94, 1.06]), 'num': n1, 'dist': d1 if rng.random() < 0.85 else 'random',
               'num_points': rng.randint(4, 40)},
        'fan': {'field_mode': rng.choice(['all', 'explicit']), 'wl_mode': rng.choice(wl_modes),
                'num_points': rng.randint(3, 12)},
        'dist_tan': {'wl_mode': rng.choice(['all', 'sub', 'foreign']), 'num_points': rng.randint(3, 9), 'type': 'f-tan'},
        'grid_tan': {'wl_mode': rng.choice(['primary', 'other']), 'wl_factor': rng.choice([0.94, 1.06]),
                     'num_points': rng.randint(2, 6), 'type': 'f-tan'},
        'fc': {'wl_mode': rng.choice(['all', 'sub', 'foreign']), 'num_points': rng.randint(2, 7)},
        'rmsf': {'wl_mode': rng.choice(wl_modes), 'num_fields': rng.randint(2, 4), 'num': rng.randint(2, 3),
                 'dist': 'hexapolar'},
        'yybar': {'wl_mode': rng.choice(['primary', 'other'])},
        'oper': {'surface': rng.randint(0, 10 ** 6), 'wl_index': rng.randint(-1, 2), 'Hy': round(rng.uniform(0, 1), 3),
                 'Px': round(rng.uniform(-0.6, 0.6), 3), 'Py': round(rng.uniform(-0.6, 0.6), 3),
                 'num': rng.randint(2, 3), 'dist': rng.choice(['hexapolar', 'hexapolar', 'cross']),
                 'rms_surface': -1 if rng.random() < 0.7 else -2},
    }
    cfg['pupil'] = dict(cfg['fan']) if rng.random() < 0.7 else \
        {'field_mode': rng.choice(['all', 'explicit']), 'wl_mode': rng.choice(wl_modes), 'num_points': rng.randint(3, 12)}
    cfg['dist_theta'] = dict(cfg['dist_tan'], type='f-theta')
    cfg['grid_theta'] = dict(cfg['grid_tan'], type='f-theta')
    return cfg


def gen_cases(ctx):
    out = []
    for name, _ in lensgen.sample_classes():
        out.append({'sample': name, 'cfg': draw_cfg(ctx.rng, ctx.quick())})
    n = 36 if ctx.quick() else 2976
    for i in range(n):
        rng = ctx.rng
        u = rng.random()
        d = lensgen.gen_lens(rng, allow_asphere=u < 0.25, allow_tilt=0.9 < u, catalog=rng.random() < 0.7,
                             apertures=rng.random() < 0.2, coatings=rng.random() < 0.15,
                             nsurf=rng.randint(1, 6) if rng.random() < 0.7 else rng.randint(7, 12),
                             max_field_deg=12.0)
        # diversify the wavelength list and the position of the primary wavelength
        if rng.random() < 0.6:
            pool = [0.4358343, 0.4861327, 0.5460740, 0.5875618, 0.6562725, 0.7065188]
            k = rng.randint(1, 4)
            ws = rng.sample(pool, k)
            p = rng.randrange(k)
            d['wavelengths'] = [[w, 1 if i == p else 0] for i, w in enumerate(ws)]
        if rng.random() < 0.1 and len(d['fields']) > 1:      # vignetting factors on the outer field
            d['fields'][-1] = [d['fields'][-1][0], 0.0, lensgen.dyadic(rng, 0, 0.3, 4), lensgen.dyadic(rng, 0, 0.3, 4)]
        out.append({'desc': d, 'cfg': draw_cfg(rng, ctx.quick())})
    return out


CHECKS = {
    'spot_all': lambda o, t, c, r: check_spot(o, t, c, r),
    'spot_exp': lambda o, t, c, r: check_spot(o, t, c, r),
    'rmsf': lambda o, t, c, r: check_spot(o, t, c, r, 'RmsSpotSizeVsField'),
    'ee': check_ee, 'fan': check_fan, 'pupil': check_pupil, 'dist_tan': check_dist, 'dist_theta': check_dist,
    'grid_tan': check_grid, 'grid_theta': check_grid, 'fc': check_fc, 'yybar': check_yybar, 'oper': check_oper,
}


def work(case):
    """runs in a worker process: build the lens, run every analysis, return picklable results"""
    t0 = time.time()
    res = {'case': case, 'checks': [], 'meta': {}, 'error': None}
    try:
        optic = lensgen.build_case(case)
    except Exception as e:  # noqa
        res['error'] = 'build_error:' + type(e).__name__
        return res
    surfs = optic.surface_group.surfaces
    res['meta'] = {'nsurf': len(surfs), 'field_type': str(optic.field_type),
                   'obj': 'inf' if optic.object_surface.is_infinite else 'finite',
                   'nw': len(optic.wavelengths.wavelengths), 'nf': len(optic.fields.fields),
                   'pidx': optic.wavelengths.primary_index,
                   'mirror': any(s.is_reflective for s in surfs), 'rotsym': rot_symmetric(optic),
                   'vig': bool(np.any(optic.fields.vx != 0) or np.any(optic.fields.vy != 0))}
    tr = Tracer(optic)
    rnd = random.Random(case['cfg']['seed'])
    only = case.get('only')
    for an in ANALYSES:
        if only and an not in only:
            continue
        cfg = dict(case['cfg'][an])
        try:
            ck = CHECKS[an](optic, tr, cfg, rnd)
        except Exception as e:  # noqa
            import traceback
            ck = Check(an, cfg)
            ck.skip = 'harness-error:' + type(e).__name__ + ':' + traceback.format_exc()[-400:]
        ck.slot = an
        res['checks'].append(ck)
    res['traces'] = tr.n
    res['wall'] = time.time() - t0
    return res


# ------------------------------------------------------------------ judging (main process)
def vclose(a, b, rtol, atol):
    a = np.asarray(a, dtype=float)
    b = np.asarray(b, dtype=float)
    if a.shape != b.shape:
        return False, -1
    with np.errstate(all='ignore'):
        same = (a == b) | (np.isnan(a) & np.isnan(b))
        ok = same | (np.isfinite(a) & np.isfinite(b) & (np.abs(a - b) <= atol + rtol * np.maximum(np.abs(a), np.abs(b))))
    if np.all(ok):
        return True, -1
    return False, int(np.argmin(ok))


def bit_equal(a, b):
    a = np.ascontiguousarray(a, dtype=float)
    b = np.ascontiguousarray(b, dtype=float)
    return int(np.sum((a.view(np.uint64) == b.view(np.uint64)) | (np.isnan(a) & np.isnan(b))))


def brief(v, i=-1):
    if iserr(v):
        return list(v)
    if v is None:
        return None
    v = np.asarray(v, dtype=float).ravel()
    if i >= 0 and i < len(v):
        return {'index': i, 'value': repr(float(v[i])), 'n': int(len(v))}
    return {'n': int(len(v)), 'head': [repr(float(x)) for x in v[:6]]}


def small_case(case, ck):
    c = {k: v for k, v in case.items() if k != 'cfg'}
    c['cfg'] = case['cfg']
    c['only'] = [ck.slot]
    return c


def judge(ctx, case, ck, model):
    """predicate (impl vs NumPy spec) and correspondence (impl vs Lean model) for one check"""
    an = ck.an
    for (clause, obs, exp, key) in ck.fails:
        ctx.fail('%s: %s' % (an, clause), small_case(case, ck), obs, exp, finding_key=key)
    for k, v in ck.counts.items():
        ctx.count('%s: %s' % (an, k), v)
    if ck.skip:
        ctx.count('%s: skipped (%s)' % (an, ck.skip.split(':')[0] if ck.skip.startswith('harness') else ck.skip))
        if ck.skip.startswith('harness-error'):
            ctx.notes.append('%s %s' % (an, ck.skip[:300]))
            ctx.disagreements.append({'what': an + ' harness error', 'model': ck.skip[:300], 'case': small_case(case, ck)})
        return
    for (name, impl, spec, wrong, mspec, mcode, rtol, atol, soft_spec, mask) in ck.items:
        what = '%s.%s' % (an, name)
        if mask is not None and not iserr(impl) and np.shape(impl) == np.shape(mask):
            impl = np.where(mask, 0.0, impl)
            spec = np.where(mask, 0.0, spec) if np.shape(spec) == np.shape(mask) else spec
            if wrong is not None and not iserr(wrong[1]) and np.shape(wrong[1]) == np.shape(mask):
                wrong = (wrong[0], np.where(mask, 0.0, wrong[1]))
            ctx.count('%s: entries excluded from the comparison (not determined / on a counting boundary)' % an,
                      int(np.sum(mask)))
        else:
            mask = None
        # ---- predicate: implementation against the NumPy recomputation
        if iserr(impl):
            if wrong is not None and iserr(wrong[1]) and wrong[1][1] == impl[1]:
                ctx.fail('%s is computable for an explicit wavelength list' % what, small_case(case, ck),
                         list(impl), brief(spec), finding_key=wrong[0])
                verdict = 'known'
            else:
                ctx.fail('%s raises although the rays can be traced' % what, small_case(case, ck), list(impl), brief(spec))
                verdict = 'bad'
        else:
            ok, i = vclose(impl, spec, rtol, atol)
            if ok:
                verdict = 'spec'
                ctx.count('%s: equals recomputation' % an)
            elif wrong is not None and not iserr(wrong[1]) and vclose(impl, wrong[1], rtol, atol)[0]:
                if soft_spec:
                    verdict = 'soft'        # reference wavelength not in the given list: no unique requirement
                    ctx.count('%s: primary wavelength not in list (reference not determined by the property)' % an)
                else:
                    ctx.fail('%s equals the recomputation from independently traced rays' % what,
                             small_case(case, ck), brief(impl, i), brief(spec, i), finding_key=wrong[0])
                    verdict = 'known'
            elif soft_spec:
                verdict = 'soft'
                ctx.count('%s: primary wavelength not in list (reference not determined by the property)' % an)
            else:
                ctx.fail('%s equals the recomputation from independently traced rays' % what, small_case(case, ck),
                         brief(impl, i), brief(spec, i))
                verdict = 'bad'
        # ---- correspondence: implementation against the Lean model
        if mspec == '-' or model is None:
            continue
        if iserr(model):
            ctx.disagreements.append({'what': what + ' (driver)', 'model': model[1], 'case': small_case(case, ck)})
            continue
        ms, mc = model.get(mspec, 'missing'), model.get(mcode, 'missing')
        if isinstance(ms, str) or isinstance(mc, str):
            ctx.disagreements.append({'what': what + ' (group missing)', 'model': sorted(model), 'case': small_case(case, ck)})
            continue
        if mask is not None:
            ms = np.where(mask, 0.0, ms) if ms is not None and np.shape(ms) == np.shape(mask) else ms
            mc = np.where(mask, 0.0, mc) if mc is not None and np.shape(mc) == np.shape(mask) else mc
        if iserr(impl):
            if mc is None or ms is None:
                ctx.bitexact[0] += 1
                ctx.bitexact[1] += 1
            else:
                ctx.disagreements.append({'what': what, 'impl': list(impl), 'model': brief(mc), 'case': small_case(case, ck)})
            continue
        agree = False
        for m in (ms, mc):
            if m is not None and vclose(impl, m, rtol, atol)[0]:
                ctx.bitexact[0] += bit_equal(impl, m)
                ctx.bitexact[1] += len(impl)
                agree = True
                break
        if not agree:
            m = mc if mc is not None else ms
            ok, i = vclose(impl, m, rtol, atol) if m is not None else (False, -1)
            ctx.bitexact[1] += len(impl)
            # soft: the reference wavelength is absent from the given list, so neither variant of the model is
            # binding (logged as model drift, DESIGN 3.4)
            (ctx.drift if soft_spec else ctx.disagreements).append(
                {'what': what, 'impl': brief(impl, i), 'model': brief(m, i), 'case': small_case(case, ck)})


def merge_models(outs):
    """several driver answers for one check (one per wavelength / field pair) -> one dict, concatenated"""
    acc = {}
    for o in outs:
        g = parse_groups(o)
        if iserr(g):
            return g
        for k, v in g.items():
            if v is None:
                acc[k] = None
            elif k in acc and acc[k] is not None:
                acc[k] = np.concatenate([acc[k], v])
            else:
                acc[k] = v
    return acc


def sample_set_check(ctx, drv):
    """the documented sample sets of the model against NumPy (bit-exact expected)"""
    ns = [1, 2, 3, 4, 5, 8, 10, 64, 128, 256]
    outs = drv.batch(['an-samples %d' % n for n in ns])
    for n, o in zip(ns, outs):
        g = parse_groups(o)
        m = np.sqrt(2) / 2
        ext = np.linspace(-m, m, n)
        Hx, Hy = np.meshgrid(ext, ext)
        exp = {'odd': [odd(n)], 'fan': np.linspace(-1, 1, odd(n)), 'dist': np.linspace(1e-10, 1, n), 'ext': ext,
               'gridhx': Hx.flatten(), 'gridhy': Hy.flatten(), 'fchy': np.repeat(np.linspace(0, 1, n), 2),
               'fcp': np.tile(np.array([-1e-5, 1e-5]), n), 'rmshy': np.linspace(0, 1, n)}
        for k, v in exp.items():
            v = arr(v)
            ok, i = vclose(g[k], v, 1e-15, 1e-300)
            ctx.bitexact[1] += len(v)
            if ok:
                ctx.bitexact[0] += bit_equal(g[k], v)
            else:
                ctx.disagreements.append({'what': 'sample set %s(n=%d)' % (k, n), 'impl': brief(v, i), 'model': brief(g[k], i),
                                          'case': {'samples': n}})
    # the library's own pupil distributions at the documented parameters
    from optiland.distribution import create_distribution
    for n in (3, 5, 9):
        for nm, ex, ey in (('line_x', np.linspace(-1, 1, n), np.zeros(n)), ('line_y', np.zeros(n), np.linspace(-1, 1, n))):
            d = create_distribution(nm)
            d.generate_points(n)
            if not (np.array_equal(d.x, ex) and np.array_equal(d.y, ey)):
                ctx.fail('distribution %s is linspace(-1, 1, n) on its axis' % nm, {'samples': n, 'distribution': nm},
                         [d.x.tolist(), d.y.tolist()], [ex.tolist(), ey.tolist()])
    ctx.case({'sample-sets': ns}, True)


def process(ctx, drv, results):
    lines, owner = [], []
    for ri, res in enumerate(results):
        for ci, ck in enumerate(res['checks']):
            ls = ck.line if isinstance(ck.line, list) else ([ck.line] if ck.line else [])
            for l in ls:
                lines.append(l)
                owner.append((ri, ci))
    outs = drv.batch(lines)
    per = {}
    for o, (ri, ci) in zip(outs, owner):
        per.setdefault((ri, ci), []).append(o)
    for ri, res in enumerate(results):
        case = res['case']
        if res['error']:
            ctx.count(res['error'])
            continue
        m = res['meta']
        ctx.count('nsurf=%d' % m['nsurf'])
        ctx.count('field=' + m['field_type'])
        ctx.count('obj=' + m['obj'])
        ctx.count('wavelengths=%d primary_index=%s' % (m['nw'], m['pidx']))
        for k in ('mirror', 'rotsym', 'vig'):
            if m[k]:
                ctx.count('lens:' + k)
        ctx.count('independent traces', res.get('traces', 0))
        for ci, ck in enumerate(res['checks']):
            model = merge_models(per[(ri, ci)]) if (ri, ci) in per else None
            desc = {k: v for k, v in case.items() if k != 'cfg'}
            desc['analysis'] = ck.slot
            desc['cfg'] = ck.cfg
            ctx.case(desc, nontrivial=ck.skip is None)
            ctx.count('analysis:' + ck.an)
            judge(ctx, case, ck, model)


def run(tier, seed, replay=None):
    ctx = Ctx('C12', tier, seed)
    ctx.stats['rule'] = ('24 bundled samples + generated lenses (1-12 surfaces, mirrors, conics, aspheres, catalogue '
                         'glasses, apertures, coatings, angle/object-height fields, 1-4 wavelengths with the primary at '
                         'any index) x every analysis class (SpotDiagram with the lens\'s own and with explicit lists, '
                         'EncircledEnergy, RayFan, PupilAberration, Distortion and GridDistortion in both types, '
                         'FieldCurvature, RmsSpotSizeVsField, YYbar, RayOperand.*); a case = one analysis on one lens; '
                         'non-trivial = the rays could be traced independently; distinct by descriptor hash')
    aud = audit('C12')
    drv = Driver()
    if replay:
        cases = [replay]
    else:
        sample_set_check(ctx, drv)
        cases = gen_cases(ctx)
    nproc = int(os.environ.get('VERIF_JOBS', '0') or 0) or min(8, os.cpu_count() or 1)
    chunk = 48
    if len(cases) <= 2 or nproc <= 1:
        for i in range(0, len(cases), chunk):
            process(ctx, drv, [work(c) for c in cases[i:i + chunk]])
    else:
        import multiprocessing as mp
        with mp.get_context('fork').Pool(nproc) as pool:
            for i in range(0, len(cases), chunk):
                process(ctx, drv, pool.map(work, cases[i:i + chunk], chunksize=1))
    return finish(ctx, aud,
                  partial=['coddington_partial: agreement of the parabasal-pair intersection with Coddington\'s equations is a '
                           'first-order limit (error O(delta^2)); numerical only, against an independent recursion along the chief ray',
                           'distortion vs the paraxial image height on the actual image surface: numerical (own y-nu trace); the '
                           'theorem distortion_def states the code\'s small-field reference',
                           'explicit wavelength lists that do not contain the primary wavelength: the property does not determine '
                           'the reference; only "no crash" is required there'],
                  assumptions=['rays are traced by the implementation itself (optic.trace / optic.trace_generic); their '
                               'correctness is the subject of C02/C03',
                               'np.mean is modelled as a sequential sum (NumPy sums pairwise): a few ulp, inside rtol 1e-9',
                               'refractive indices for the paraxial / Coddington references are taken from the implementation (C18)'])
