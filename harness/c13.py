"""C13  Tracing and analysis are repeatable and free of side effects.

Three streams of generated cases, all run against the real optiland code in-process:

A  `inter`  random interleavings (length 2-30) of Optic.trace, Optic.trace_generic, every Paraxial
            query, Paraxial.trace, every Aberrations query, Wavefront / OPD / ZernikeOPD, FFTPSF,
            FFTMTF, GeometricMTF and every class of optiland.analysis, on sample and generated
            lenses (vignetting factors, simple / Fresnel coatings, polarization on and off), with
            scalar, list and ndarray arguments.  The property's clauses are evaluated on the
            implementation alone:
              (a) the same call repeated returns bit-identical results (`tobytes`);
              (b) caller-owned arrays / lists are byte-identical after the call;
              (c) the result equals the result of the same call on a never-used copy of the lens
                  (independence of history), records included;
              (d) `c01.snap` and a canonicalised `to_dict()` are identical before and after.
B  `calls`  interleavings of the call-level operations, run also through the Lean state machine
            `Model/Effects.lean` (`fxseq`): returned values, record slot shapes after every call and
            the contents of persistent caller arrays must agree with the model (variant `code`
            = in-place product, variant `spec` = no write).
C  `batch`  one ray in a batch vs the same ray alone: bit-identical for closed-form geometries,
            within the Newton-Raphson tolerance otherwise; both tied to `traceLens` through
            `rtrace` (the batch-independence theorem instantiated at Float is checked bit for bit).
"""
import os
for _v in ('OPENBLAS_NUM_THREADS', 'OMP_NUM_THREADS', 'MKL_NUM_THREADS'):
    os.environ.setdefault(_v, '1')
import math, copy, json, random, contextlib, io, multiprocessing, hashlib
import numpy as np
from .core import fhex, b01, Toks, Driver, Ctx, audit, finish
from . import lensgen, realenc, c01, c02, c04
from .lensgen import dyadic

F3_KEY = 'trace-generic-inplace-vignetting'
PARAX_Q = ['f1', 'f2', 'F1', 'F2', 'P1', 'P2', 'N1', 'N2', 'EPL', 'EPD', 'XPL', 'XPD', 'FNO', 'magnification',
           'invariant', 'marginal_ray', 'chief_ray']
ABERR_Q = ['seidels', 'third_order', 'TSC', 'SC', 'CC', 'TCC', 'TAC', 'AC', 'TPC', 'PC', 'DC', 'TAchC', 'LchC', 'TchC']
REC_FIELDS = realenc.FIELDS + ('u',)
SKIP_SAMPLES_B = ('objectives.TelescopeObjective48Inch',)     # F16: cannot be ray-traced


# ------------------------------------------------------------------------------------ lens setup
def build_setup(setup):
    """setup = {'sample'|'desc', 'vig': [[vx,vy]..], 'coat': [[frac,T,R]..], 'pol': name, 'fresnel': bool}"""
    o = lensgen.build_case(setup)
    if setup.get('forder') and len(o.fields.fields) > 1:      # a sample lens whose fields were added in another order
        fs = o.fields.fields
        o.fields.fields = [fs[i % len(fs)] for i in setup['forder'][:len(fs)]] \
            if sorted(i % len(fs) for i in setup['forder'][:len(fs)]) == list(range(len(fs))) else fs[::-1]
    for k, f in enumerate(o.fields.fields):
        if k < len(setup.get('vig', [])):
            f.vx, f.vy = setup['vig'][k]
    n = len(o.surface_group.surfaces)
    if setup.get('coat') and n > 2:
        from optiland.coatings import SimpleCoating
        for frac, T, R in setup['coat']:
            o.surface_group.surfaces[1 + int(frac * (n - 2)) % (n - 2)].coating = SimpleCoating(T, R)
    if setup.get('pol'):
        from optiland.rays import create_polarization
        o.set_polarization(create_polarization(setup['pol']))
        if setup.get('fresnel'):
            o.surface_group.set_fresnel_coatings()
    return o


def gen_setup(rng, samples, plain=False, nr_tol=False):
    """plain: only what Model/Real.lean covers (no polarization, no Chebyshev/polynomial)"""
    if rng.random() < 0.4:
        s = {'sample': rng.choice(samples)}
        if rng.random() < 0.3:
            s['forder'] = rng.choice([[1, 0, 2], [2, 1, 0], [0, 2, 1], [2, 0, 1], [1, 2, 0]])
        if rng.random() < 0.25:
            s['coat'] = [[rng.random(), dyadic(rng, 0.5, 1, 6), dyadic(rng, 0, 0.25, 6)] for _ in range(rng.randint(1, 3))]
    else:
        kind = rng.random()
        d = lensgen.gen_lens(rng, nsurf=rng.randint(1, 6), allow_asphere=kind < 0.35,
                             poly=(0.35 <= kind < 0.5) and not plain, allow_tilt=rng.random() < 0.15,
                             catalog=rng.random() < 0.1, apertures=rng.random() < 0.2,
                             coatings=rng.random() < 0.3, absorbing=rng.random() < 0.1)
        if nr_tol:
            for sf in d['surfaces']:
                if sf.get('surface_type') in ('even_asphere', 'polynomial', 'chebyshev') and rng.random() < 0.8:
                    sf['tol'] = rng.choice([1e-2, 1e-3, 1e-4, 1e-6, 1e-10])
        if len(d['fields']) == 1 and rng.random() < 0.6:     # several field points, so that vignetting interpolates
            y = d['fields'][0][0]
            d['fields'] = [[0.0], [y * 0.5], [y]]
            if rng.random() < 0.5:      # entered out of order: no non-editing call may reorder the lens's field list
                rng.shuffle(d['fields'])
        s = {'desc': d}
    if rng.random() < 0.5:
        s['vig'] = [[dyadic(rng, 0, 0.4, 4) if rng.random() < 0.8 else 0.0,
                     dyadic(rng, 0, 0.4, 4) if rng.random() < 0.8 else 0.0] for _ in range(3)]
    if not plain and rng.random() < 0.25:
        s['pol'] = rng.choice(['unpolarized', 'H', 'V', 'L+45', 'RCP'])
        s['fresnel'] = rng.random() < 0.5
    return s


# ------------------------------------------------------------------------------------ canonical forms
def canon(o, depth=0):
    """JSON-like canonical form of to_dict() output (objects by class name and attributes)"""
    if depth > 12:
        return '<deep>'
    if isinstance(o, dict):
        return {str(k): canon(v, depth + 1) for k, v in sorted(o.items(), key=lambda kv: str(kv[0]))}
    if isinstance(o, (list, tuple)):
        return [canon(v, depth + 1) for v in o]
    if isinstance(o, np.ndarray):
        return ['nd', str(o.dtype), list(o.shape), o.tobytes().hex()]
    if isinstance(o, (float, np.floating)):
        return float(o).hex()
    if isinstance(o, (bool, np.bool_)):
        return bool(o)
    if isinstance(o, (int, np.integer)):
        return int(o)
    if o is None or isinstance(o, str):
        return o
    if hasattr(o, '__dict__'):
        return [type(o).__name__, canon({k: v for k, v in vars(o).items()
                                          if k not in ('optic', 'jones')}, depth + 1)]
    return repr(o)


def lens_snapshot(o):
    """what clause (d) protects: prescription, fields, wavelengths, aperture"""
    d = o.to_dict()
    out = {k: canon(d.get(k)) for k in ('aperture', 'fields', 'wavelengths', 'surface_group', 'pickups', 'solves')}
    try:
        s = c01.snap(o)
        out['snap'] = canon(s)
    except Exception as e:  # noqa
        out['snap'] = 'error:' + type(e).__name__
    out['field_type'] = o.field_type
    out['telecentric'] = o.obj_space_telecentric
    return out


def snap_diff(a, b, path=''):
    if type(a) != type(b):
        return path or '.'
    if isinstance(a, dict):
        for k in sorted(set(a) | set(b)):
            if k not in a or k not in b:
                return path + '/' + k
            d = snap_diff(a[k], b[k], path + '/' + k)
            if d:
                return d
        return None
    if isinstance(a, list):
        if len(a) != len(b):
            return path + '(len)'
        for i, (x, y) in enumerate(zip(a, b)):
            d = snap_diff(x, y, path + '[%d]' % i)
            if d:
                return d
        return None
    return None if a == b else (path or '.')


def recstate(o):
    """the records component: bytes of every record array of every surface"""
    return [tuple((np.asarray(getattr(s, f)).shape, np.asarray(getattr(s, f)).tobytes()) for f in REC_FIELDS)
            for s in o.surface_group.surfaces]


def rec_empty(rs):
    return all(all(sh == (0,) for sh, _ in s) for s in rs)


def rec_shapes(o):
    out = []
    for s in o.surface_group.surfaces:
        nx, ny, nu = np.size(s.x), np.size(s.y), np.size(s.u)
        if nx == 0 and ny == 0 and nu == 0:
            out.append((0, 0))
        elif nx > 0 and nu == 0 and ny == nx:
            out.append((1, nx))
        elif nu > 0 and nx == 0 and ny == nu:
            out.append((2, nu))
        else:
            out.append((9, nx * 10000 + ny * 100 + nu))
    return out


def flatten(o, path='r'):
    """result -> list of (path, ndarray)"""
    from optiland.rays import RealRays
    if o is None:
        return []
    if isinstance(o, RealRays):
        return [(path + '.' + f, np.asarray(getattr(o, f))) for f in ('x', 'y', 'z', 'L', 'M', 'N', 'i', 'opd', 'w')]
    if isinstance(o, dict):
        out = []
        for k in sorted(o, key=str):
            out += flatten(o[k], path + '.' + str(k))
        return out
    if isinstance(o, (list, tuple)):
        out = []
        for i, v in enumerate(o):
            out += flatten(v, path + '[%d]' % i)
        return out
    return [(path, np.asarray(o))]


def same_arr(a, b):
    return a.dtype == b.dtype and a.shape == b.shape and a.tobytes() == b.tobytes()


def first_diff(r1, r2):
    """None when the flattened results are bit-identical"""
    if len(r1) != len(r2):
        return {'what': 'number of result arrays', 'a': len(r1), 'b': len(r2)}
    for (p1, a), (p2, b) in zip(r1, r2):
        if p1 != p2 or not same_arr(a, b):
            d = {'what': p1, 'shape_a': list(a.shape), 'shape_b': list(b.shape)}
            if a.shape == b.shape and a.dtype.kind in 'fc' and a.size:
                with np.errstate(all='ignore'):
                    diff = np.abs(np.ravel(a) - np.ravel(b))
                k = int(np.nanargmax(diff)) if not np.all(np.isnan(diff)) else 0
                d.update({'index': k, 'a': repr(np.ravel(a)[k]), 'b': repr(np.ravel(b)[k])})
            return d
    return None


# ------------------------------------------------------------------------------------ arguments
def mk(spec):
    t, v = spec
    if t == 'f':
        return float(v)
    if t == 'i':
        return int(v)
    if t == 'np':
        return np.float64(v)
    if t == 'a':
        return np.array(v, dtype=float)
    if t == 'ai':
        return np.array(v, dtype=int)
    if t == 'l':
        return list(v)
    raise ValueError(t)


def own(name, obj, owned):
    """register a caller-owned mutable argument"""
    if isinstance(obj, np.ndarray):
        owned.append((name, obj, obj.copy()))
    elif isinstance(obj, list):
        owned.append((name, obj, copy.deepcopy(obj)))
    return obj


def owned_changed(obj, orig):
    if isinstance(obj, np.ndarray):
        return not same_arr(obj, orig)
    return json.dumps(obj, default=repr) != json.dumps(orig, default=repr)


def make_dist(name, n, vx=0.0, vy=0.0):
    from optiland.distribution import create_distribution
    d = create_distribution(name)
    d.generate_points(n, vx, vy)
    return d


def flist(fields, owned, name='fields'):
    if isinstance(fields, str):
        return fields
    return own(name, [tuple(f) for f in fields], owned)


def wlist(w, owned, name='wavelengths'):
    if isinstance(w, str):
        return w
    return own(name, list(w), owned)


def exec_op(o, op):
    """run one public call; returns (flattened result, owned arguments)"""
    import matplotlib.pyplot as plt
    from optiland import analysis as A, wavefront as W, psf as PSF, mtf as MTF
    owned = []
    k = op['op']
    try:
        with contextlib.redirect_stdout(io.StringIO()):
            if k == 'trace':
                dist = op['dist']
                if op.get('as_obj'):
                    dist = make_dist(op['dist'], op['n'])
                    own('distribution.x', dist.x, owned)
                    own('distribution.y', dist.y, owned)
                res = o.trace(mk(op['Hx']), mk(op['Hy']), op['w'], op['n'], dist)
            elif k == 'trace_generic':
                args = [own(nm, mk(op[nm]), owned) for nm in ('Hx', 'Hy', 'Px', 'Py')]
                if op.get('alias'):
                    args[3] = args[2]
                res = o.trace_generic(args[0], args[1], args[2], args[3], op['w'])
            elif k == 'parax':
                res = getattr(o.paraxial, op['q'])()
            elif k == 'parax_trace':
                o.paraxial.trace(op['Hy'], own('Py', mk(op['Py']), owned), op['w'])
                res = None
            elif k == 'aberr':
                res = getattr(o.aberrations, op['q'])()
            elif k == 'wavefront':
                a = W.Wavefront(o, flist(op['fields'], owned), wlist(op['wavelengths'], owned), op['n'], op['dist'])
                res = a.data
            elif k == 'opd':
                a = W.OPD(o, tuple(op['field']), op['w'], op['n'])
                res = [a.data, a.rms()]
            elif k == 'zernike_opd':
                a = W.ZernikeOPD(o, tuple(op['field']), op['w'], op['n'], op['ztype'], op['terms'])
                res = [a.data, a.coeffs]
            elif k == 'fftpsf':
                a = PSF.FFTPSF(o, tuple(op['field']), op['w'], op['n'], op['grid'])
                res = [a.psf, a.strehl_ratio()]
            elif k == 'fftmtf':
                a = MTF.FFTMTF(o, flist(op['fields'], owned), op['w'], op['n'], op['grid'])
                res = [a.mtf, a.psf, a.max_freq]
            elif k == 'geomtf':
                a = MTF.GeometricMTF(o, flist(op['fields'], owned), op['w'], op['n'], op['dist'], op['points'],
                                     'cutoff', op['scale'])
                res = [a.mtf, a.freq, a.diff_limited_mtf]
            elif k == 'spot':
                a = A.SpotDiagram(o, flist(op['fields'], owned), wlist(op['wavelengths'], owned), op['n'], op['dist'])
                res = [a.data, a.centroid(), a.geometric_spot_radius(), a.rms_spot_radius()]
            elif k == 'encircled':
                a = A.EncircledEnergy(o, flist(op['fields'], owned), op['w'], op['n'], op['dist'], op['points'])
                res = [a.data, a.centroid()]
            elif k == 'rayfan':
                a = A.RayFan(o, flist(op['fields'], owned), wlist(op['wavelengths'], owned), op['points'])
                res = a.data
            elif k == 'yybar':
                A.YYbar(o, op['w']).view()
                res = None
            elif k == 'distortion':
                a = A.Distortion(o, wlist(op['wavelengths'], owned), op['points'], op['type'])
                res = a.data
            elif k == 'grid_distortion':
                a = A.GridDistortion(o, op['w'], op['points'], op['type'])
                res = a.data
            elif k == 'field_curvature':
                a = A.FieldCurvature(o, wlist(op['wavelengths'], owned), op['points'])
                res = a.data
            elif k == 'rms_spot_field':
                a = A.RmsSpotSizeVsField(o, op['nf'], wlist(op['wavelengths'], owned), op['n'], op['dist'])
                res = [a._spot_size, a._field]
            elif k == 'rms_wf_field':
                a = A.RmsWavefrontErrorVsField(o, op['nf'], wlist(op['wavelengths'], owned), op['n'], op['dist'])
                res = [a._wavefront_error, a._field]
            elif k == 'pupil_aberration':
                a = A.PupilAberration(o, flist(op['fields'], owned), wlist(op['wavelengths'], owned), op['points'])
                res = a.data
            else:
                raise KeyError(k)
        flat = flatten(res)
    except Exception as e:  # noqa
        flat = [('error', np.array(type(e).__name__))]
    if k == 'yybar':
        plt.close('all')
    return flat, owned


def is_random(op):
    return op.get('dist') == 'random'


# ------------------------------------------------------------------------------------ op generation
def lens_info(o):
    w = [float(v) for v in o.wavelengths.get_wavelengths()]
    try:
        fc = [[float(a), float(b)] for a, b in o.fields.get_field_coords()]
    except Exception:  # noqa
        fc = [[0.0, 0.0]]
    return {'w': w, 'primary': float(o.primary_wavelength), 'fields': fc}


def pick_field(rng, info):
    u = rng.random()
    if u < 0.6:
        return list(rng.choice(info['fields']))
    if u < 0.75:
        return [0.0, 0.0]
    return [0.0, dyadic(rng, 0, 1, 4)]


def pick_dist(rng, allow_random=True):
    name = rng.choice(['hexapolar', 'hexapolar', 'uniform', 'line_x', 'line_y', 'cross', 'ring'] +
                      (['random'] if allow_random else []))
    n = {'hexapolar': rng.randint(1, 3), 'uniform': rng.randint(3, 7), 'line_x': rng.randint(3, 15),
         'line_y': rng.randint(3, 15), 'cross': rng.randint(3, 9), 'ring': rng.randint(4, 12),
         'random': rng.randint(5, 30)}[name]
    return name, n


def scal_spec(rng, v):
    t = rng.choice(['f', 'f', 'np', 'i'])
    if t == 'i':
        return ['i', int(round(v))]
    return [t, float(v)]


def pupil_vals(rng, n):
    return [dyadic(rng, -1, 1, 5) * 0.7 for _ in range(n)]


def gen_tg(rng, info):
    H = pick_field(rng, info)
    w = rng.choice(info['w'])
    u = rng.random()
    n = rng.randint(1, 10)
    op = {'op': 'trace_generic', 'w': w}
    if u < 0.40:
        op.update(Hx=scal_spec(rng, H[0]), Hy=scal_spec(rng, H[1]), Px=['a', pupil_vals(rng, n)], Py=['a', pupil_vals(rng, n)])
    elif u < 0.55:
        op.update(Hx=scal_spec(rng, H[0]), Hy=scal_spec(rng, H[1]), Px=scal_spec(rng, dyadic(rng, -1, 1, 3)),
                  Py=scal_spec(rng, dyadic(rng, -1, 1, 3)))
    elif u < 0.75:
        op.update(Hx=['a', [0.0] * n], Hy=['a', [dyadic(rng, 0, 1, 4) for _ in range(n)]],
                  Px=['a', pupil_vals(rng, n)], Py=['a', pupil_vals(rng, n)])
    elif u < 0.85:
        op.update(Hx=['a', [0.0] * n], Hy=['a', [dyadic(rng, 0, 1, 4) for _ in range(n)]],
                  Px=scal_spec(rng, 0.0), Py=scal_spec(rng, dyadic(rng, -1, 1, 3)))
    elif u < 0.90:
        op.update(Hx=scal_spec(rng, H[0]), Hy=scal_spec(rng, H[1]), Px=['a', pupil_vals(rng, n)], Py=['f', 0.0])
    elif u < 0.95:
        op.update(Hx=scal_spec(rng, H[0]), Hy=scal_spec(rng, H[1]), Px=['l', pupil_vals(rng, n)], Py=['l', pupil_vals(rng, n)])
    else:
        op.update(Hx=scal_spec(rng, H[0]), Hy=scal_spec(rng, H[1]), Px=['ai', [rng.randint(-1, 1) for _ in range(n)]],
                  Py=['ai', [rng.randint(-1, 1) for _ in range(n)]])
    if op['Px'][0] == 'a' and op['Py'][0] == 'a' and rng.random() < 0.05:
        op['alias'] = True
    return op


def fields_arg(rng, info):
    u = rng.random()
    if u < 0.25:
        return 'all'
    if u < 0.85:
        return [pick_field(rng, info)]
    return [pick_field(rng, info), pick_field(rng, info)]


def waves_arg(rng, info, allow_primary=False):
    u = rng.random()
    if u < 0.25:
        return 'all'
    if allow_primary and u < 0.4:
        return 'primary'
    if u < 0.85:
        return [info['primary']] if rng.random() < 0.7 else [rng.choice(info['w'])]
    return list(info['w'])[:2]


KINDS = [('trace', 14), ('trace_generic', 16), ('parax', 16), ('parax_trace', 4), ('aberr', 8), ('wavefront', 4),
         ('opd', 3), ('zernike_opd', 3), ('fftpsf', 3), ('fftmtf', 2), ('geomtf', 3), ('spot', 4), ('encircled', 3),
         ('rayfan', 3), ('yybar', 1), ('distortion', 3), ('grid_distortion', 3), ('field_curvature', 3),
         ('rms_spot_field', 2), ('rms_wf_field', 2), ('pupil_aberration', 3)]
_KW = [k for k, w in KINDS for _ in range(w)]


def gen_op(rng, info, kinds=_KW):
    k = rng.choice(kinds)
    H = pick_field(rng, info)
    w = rng.choice(info['w'])
    if k == 'trace':
        name, n = pick_dist(rng)
        return {'op': 'trace', 'Hx': scal_spec(rng, H[0]), 'Hy': scal_spec(rng, H[1]) if rng.random() < 0.5 else ['f', H[1]],
                'w': w, 'n': n, 'dist': name, 'as_obj': name != 'random' and rng.random() < 0.25}
    if k == 'trace_generic':
        return gen_tg(rng, info)
    if k == 'parax':
        return {'op': 'parax', 'q': rng.choice(PARAX_Q)}
    if k == 'parax_trace':
        n = rng.randint(1, 6)
        py = rng.choice([['f', dyadic(rng, -1, 1, 3)], ['a', pupil_vals(rng, n)], ['l', pupil_vals(rng, n)]])
        return {'op': 'parax_trace', 'Hy': H[1], 'Py': py, 'w': w}
    if k == 'aberr':
        return {'op': 'aberr', 'q': rng.choice(ABERR_Q)}
    if k == 'wavefront':
        name, n = pick_dist(rng, False)
        return {'op': 'wavefront', 'fields': fields_arg(rng, info), 'wavelengths': waves_arg(rng, info, True),
                'n': n, 'dist': name}
    if k == 'opd':
        return {'op': 'opd', 'field': H, 'w': w, 'n': rng.randint(2, 4)}
    if k == 'zernike_opd':
        return {'op': 'zernike_opd', 'field': H, 'w': w, 'n': rng.randint(3, 4),
                'ztype': rng.choice(['fringe', 'standard', 'noll']), 'terms': rng.randint(6, 15)}
    if k == 'fftpsf':
        return {'op': 'fftpsf', 'field': H, 'w': w, 'n': rng.choice([8, 12, 16, 24]), 'grid': rng.choice([32, 64, 128])}
    if k == 'fftmtf':
        return {'op': 'fftmtf', 'fields': fields_arg(rng, info), 'w': rng.choice(['primary', w]),
                'n': rng.choice([8, 12, 16]), 'grid': rng.choice([32, 64])}
    if k == 'geomtf':
        return {'op': 'geomtf', 'fields': fields_arg(rng, info), 'w': rng.choice(['primary', w]),
                'n': rng.randint(4, 9), 'dist': rng.choice(['uniform', 'hexapolar']), 'points': rng.choice([8, 16, 32]),
                'scale': rng.random() < 0.5}
    if k == 'spot':
        name, n = pick_dist(rng)
        return {'op': 'spot', 'fields': fields_arg(rng, info), 'wavelengths': waves_arg(rng, info), 'n': n, 'dist': name}
    if k == 'encircled':
        name, n = pick_dist(rng)
        return {'op': 'encircled', 'fields': fields_arg(rng, info), 'w': rng.choice(['primary', w]), 'n': n,
                'dist': name, 'points': rng.choice([4, 16])}
    if k == 'rayfan':
        return {'op': 'rayfan', 'fields': fields_arg(rng, info), 'wavelengths': waves_arg(rng, info),
                'points': rng.choice([5, 9, 16])}
    if k == 'yybar':
        return {'op': 'yybar', 'w': rng.choice(['primary', w])}
    if k == 'distortion':
        return {'op': 'distortion', 'wavelengths': waves_arg(rng, info), 'points': rng.randint(4, 16),
                'type': rng.choice(['f-tan', 'f-theta'])}
    if k == 'grid_distortion':
        return {'op': 'grid_distortion', 'w': rng.choice(['primary', w]), 'points': rng.randint(3, 6),
                'type': rng.choice(['f-tan', 'f-theta'])}
    if k == 'field_curvature':
        return {'op': 'field_curvature', 'wavelengths': waves_arg(rng, info), 'points': rng.randint(3, 12)}
    if k == 'rms_spot_field':
        name, n = pick_dist(rng, False)
        return {'op': 'rms_spot_field', 'nf': rng.randint(2, 4), 'wavelengths': waves_arg(rng, info), 'n': min(n, 6),
                'dist': name}
    if k == 'rms_wf_field':
        return {'op': 'rms_wf_field', 'nf': rng.randint(2, 4), 'wavelengths': waves_arg(rng, info),
                'n': rng.randint(2, 3), 'dist': 'hexapolar'}
    if k == 'pupil_aberration':
        return {'op': 'pupil_aberration', 'fields': fields_arg(rng, info), 'wavelengths': waves_arg(rng, info),
                'points': rng.choice([5, 9, 16])}
    raise KeyError(k)


def gen_ops(rng, info, kinds=_KW):
    n = rng.randint(2, 30)
    ops = []
    for _ in range(n):
        if ops and rng.random() < 0.3:      # the same call again after other calls
            ops.append(copy.deepcopy(rng.choice(ops)))
        else:
            ops.append(gen_op(rng, info, kinds))
    return ops


# ------------------------------------------------------------------------------------ stream A
def f3_pattern(o, op, name, obj, orig, snaps):
    """is this exactly the in-place product of trace_generic (finding F3)?"""
    if op['op'] != 'trace_generic' or name not in ('Px', 'Py') or not isinstance(obj, np.ndarray):
        return False
    if obj.dtype.kind != 'f' or obj.shape != orig.shape:
        return False
    try:
        vx, vy = o.fields.get_vig_factor(mk(op['Hx']), mk(op['Hy']))
    except Exception:  # noqa
        return False
    with np.errstate(all='ignore'):
        if op.get('alias'):
            exp = orig * (1 - vx)
            exp = exp * (1 - vy)
            nz = np.any(np.asarray(vx) != 0) or np.any(np.asarray(vy) != 0)
        else:
            v = vx if name == 'Px' else vy
            exp = orig * (1 - v)
            nz = np.any(np.asarray(v) != 0)
    return bool(nz) and np.shape(exp) == obj.shape and np.asarray(exp).tobytes() == obj.tobytes()


def run_inter(case):
    """returns {'fails': [...], 'counts': {...}, 'evals': n}"""
    out = {'fails': [], 'counts': {}, 'evals': 0, 'kind': 'inter'}

    def count(k, n=1):
        out['counts'][k] = out['counts'].get(k, 0) + n

    def fail(clause, at, observed, expected=None, key=None):
        c = {'kind': 'inter', 'setup': case['setup'], 'ops': case['ops'][:at + 1], 'at': at,
             'pristine_every': case.get('pristine_every', 1)}
        out['fails'].append({'clause': clause, 'case': c, 'observed': observed, 'expected': expected, 'key': key})

    try:
        o0 = build_setup(case['setup'])
    except Exception as e:  # noqa
        count('build_error:' + type(e).__name__)
        return out
    o = copy.deepcopy(o0)
    count('setup:' + ('sample' if 'sample' in case['setup'] else 'generated'))
    for tag in ('vig', 'coat', 'pol', 'fresnel'):
        if case['setup'].get(tag):
            count('setup:' + tag)
    if any(s.coating is not None for s in o.surface_group.surfaces):
        count('setup:has-coating')
    seen = {}
    pe = case.get('pristine_every', 1)
    for i, op in enumerate(case['ops']):
        if len(out['fails']) >= 3:
            break
        out['evals'] += 1
        S0 = lens_snapshot(o)
        B = recstate(o)
        r1, owned = exec_op(o, op)
        err = r1 and r1[0][0] == 'error'
        count('op:' + op['op'] + (':err:' + str(r1[0][1]) if err else ''))
        # (b) caller-owned arguments
        snaps = {nm: orig for nm, _, orig in owned}
        for nm, obj, orig in owned:
            count('owned:' + type(obj).__name__)
            if owned_changed(obj, orig):
                key = F3_KEY if f3_pattern(o, op, nm, obj, orig, snaps) else None
                fail('caller-owned argument %s is unchanged after %s' % (nm, op['op']), i,
                     {'after': np.asarray(obj).tolist() if isinstance(obj, np.ndarray) else obj},
                     {'before': np.asarray(orig).tolist() if isinstance(orig, np.ndarray) else orig}, key)
        # (d) the lens
        S1 = lens_snapshot(o)
        d = snap_diff(S0, S1)
        if d:
            fail('%s leaves prescription, fields, wavelengths and aperture unchanged' % op['op'], i,
                 {'changed': d}, None)
            S0 = S1
        A = recstate(o)
        # (a) immediate repeat
        r2, _ = exec_op(o, op)
        if not is_random(op):
            df = first_diff(r1, r2)
            if df:
                fail('%s repeated returns bit-identical results' % op['op'], i, df)
            elif recstate(o) != A:
                fail('%s repeated leaves identical per-surface records' % op['op'], i, 'records differ')
        d = snap_diff(S0, lens_snapshot(o))
        if d:
            fail('%s (second call) leaves prescription, fields, wavelengths and aperture unchanged' % op['op'], i,
                 {'changed': d}, None)
        # (c) independence of history: the same call on a never-used copy of the lens
        key = json.dumps(op, sort_keys=True)
        if key not in seen and (i % pe == 0 or op['op'] in ('parax', 'trace_generic')):
            p = copy.deepcopy(o0)
            BP = recstate(p)
            rp, _ = exec_op(p, op)
            seen[key] = (rp, recstate(p), BP)
            count('pristine runs')
        if key in seen and not is_random(op):
            rp, AP, BP = seen[key]
            df = first_diff(r1, rp)
            if df:
                fail('result of %s does not depend on what was traced before' % op['op'], i, df)
            elif not (A == AP or (AP == BP and A == B)):
                # either the call overwrote the records (then they are a function of lens and arguments), or it
                # traced nothing on the lens' own surfaces (reverse traces run on a copy): records untouched
                fail('records left by %s do not depend on what was traced before' % op['op'], i,
                     {'history': [[list(sh) for sh, _ in s] for s in A][:4],
                      'fresh': [[list(sh) for sh, _ in s] for s in AP][:4]})
    return out


def shrink_inter(fail):
    """smallest history that still shows the same failure: the failing call alone, or with one earlier call"""
    case = fail['case']
    ops = case['ops']
    if len(ops) <= 1:
        return fail
    last = ops[-1]
    cands = [[last]] + [[ops[k], last] for k in range(len(ops) - 2, max(len(ops) - 12, -1), -1)]
    for c in cands:
        try:
            r = run_inter({'kind': 'inter', 'setup': case['setup'], 'ops': c, 'pristine_every': 1})
        except Exception:  # noqa
            continue
        for f in r['fails']:
            if f['clause'] == fail['clause'] and f['key'] == fail['key']:
                return f
    return fail


# ------------------------------------------------------------------------------------ stream B
CALL_KINDS = ['trace'] * 3 + ['trace_generic'] * 4 + ['parax'] * 5 + ['parax_trace']


def arg_tok(spec, heap_ids):
    t = spec[0]
    if t in ('f', 'np', 'i'):
        return ['s', fhex(float(spec[1]))]
    if t == 'h':
        return ['a', str(spec[1])]
    if t == 'a':
        return ['f', str(len(spec[1]))] + [fhex(v) for v in spec[1]]
    raise ValueError(t)


def lst(v):
    return [float(x) for x in np.atleast_1d(np.asarray(v, dtype=float)).ravel()]


def ftoks(vals):
    return [str(len(vals))] + [fhex(v) for v in vals]


def bc(vals, n):
    return list(vals) * n if len(vals) == 1 else list(vals)


def gen_calls(rng, info, nheap, hn):
    n = rng.randint(2, 30)
    ops = []
    for _ in range(n):
        if ops and rng.random() < 0.25:
            ops.append(copy.deepcopy(rng.choice(ops)))
            continue
        k = rng.choice(CALL_KINDS)
        H = pick_field(rng, info)
        if k == 'trace':
            name, m = pick_dist(rng, False)
            ops.append({'op': 'trace', 'Hx': ['f', H[0]], 'Hy': ['f', H[1]], 'w': rng.choice(info['w']), 'n': m, 'dist': name})
        elif k == 'trace_generic':
            u = rng.random()

            def parg():
                v = rng.random()
                if v < 0.5 and nheap:
                    return ['h', rng.randrange(nheap)]
                if v < 0.8:
                    return ['a', pupil_vals(rng, hn)]
                return ['f', dyadic(rng, -1, 1, 3)]
            if u < 0.75:
                hx, hy = ['f', H[0]], ['f', H[1]]
            else:
                hx, hy = ['a', [0.0] * hn], ['a', [dyadic(rng, 0, 1, 4) for _ in range(hn)]]
            px, py = parg(), parg()
            if px[0] == 'h' and py[0] == 'h' and px[1] == py[1]:
                py = ['f', 0.0]
            ops.append({'op': 'trace_generic', 'Hx': hx, 'Hy': hy, 'Px': px, 'Py': py, 'w': rng.choice(info['w'])})
        elif k == 'parax':
            ops.append({'op': 'parax', 'q': rng.choice(PARAX_Q)})
        else:
            ops.append({'op': 'parax_trace', 'Hy': H[1], 'Py': ['a', pupil_vals(rng, rng.randint(1, 5))], 'w': info['primary']})
    return ops


def run_calls(case):
    """execute a call-level interleaving on the implementation, collecting what `fxseq` needs"""
    out = {'kind': 'calls', 'case': case, 'counts': {}, 'line': None, 'expect': [], 'skip': None}

    def count(k, n=1):
        out['counts'][k] = out['counts'].get(k, 0) + n

    try:
        o = build_setup(case['setup'])
        o.surface_group.reset()      # sample constructors trace (image solve): the model starts from empty records
        sys_t = c04.sys_tokens(o)
        reals = {}
        for w in sorted({op['w'] for op in case['ops'] if 'w' in op}):
            reals[w] = realenc.lens_tokens(o, w)
    except Exception as e:  # noqa
        out['skip'] = 'setup/encode:' + type(e).__name__
        return out
    heap = [np.array(a, dtype=float) for a in case['heap']]
    heap0 = [a.copy() for a in heap]
    vigs, gens, calls = {}, {}, []
    for i, op in enumerate(case['ops']):
        k = op['op']
        exp = {'op': k}
        try:
            with contextlib.redirect_stdout(io.StringIO()):
                if k == 'trace':
                    Hx, Hy = float(op['Hx'][1]), float(op['Hy'][1])
                    vx, vy = o.fields.get_vig_factor(Hx, Hy)
                    d = make_dist(op['dist'], op['n'], vx, vy)
                    pts = list(zip(lst(d.x), lst(d.y)))
                    px, py = lst(d.x * (1 - vx)), lst(d.y * (1 - vy))
                    rays = o.trace(Hx, Hy, op['w'], op['n'], op['dist'])
                    vigs[json.dumps([[Hx], [Hy]])] = ([Hx], [Hy], lst(vx), lst(vy))
                    gkey = ([Hx], [Hy], px, py, op['w'])
                    calls.append(['t', fhex(Hx), fhex(Hy), fhex(op['w']), str(len(pts))] +
                                 [fhex(v) for p in pts for v in p])
                elif k == 'trace_generic':
                    args, toks = [], []
                    for nm in ('Hx', 'Hy', 'Px', 'Py'):
                        sp = op[nm]
                        args.append(heap[sp[1]] if sp[0] == 'h' else mk(sp))
                        toks += arg_tok(sp, None)
                    hx, hy = lst(args[0]), lst(args[1])
                    vx, vy = o.fields.get_vig_factor(args[0], args[1])
                    pxv = lst(np.asarray(args[2], dtype=float) * (1 - vx))
                    pyv = lst(np.asarray(args[3], dtype=float) * (1 - vy))
                    n = max(len(hx), len(hy), len(pxv), len(pyv))
                    rays = o.trace_generic(args[0], args[1], args[2], args[3], op['w'])
                    vigs[json.dumps([hx, hy])] = (hx, hy, lst(vx), lst(vy))
                    gkey = (bc(hx, n), bc(hy, n), bc(pxv, n), bc(pyv, n), op['w'])
                    calls.append(['g'] + toks + [fhex(op['w'])])
                elif k == 'parax':
                    v = getattr(o.paraxial, op['q'])()
                    exp['nums'] = lst(v[0]) + lst(v[1]) if isinstance(v, tuple) else lst(v)
                    calls.append(['q', op['q']])
                else:
                    py = mk(op['Py'])
                    o.paraxial.trace(op['Hy'], py, op['w'])
                    exp['nums'] = [float(v) for s in o.surface_group.surfaces for v in np.ravel(s.y)] + \
                                  [float(v) for s in o.surface_group.surfaces for v in np.ravel(s.u)]
                    calls.append(['p', fhex(op['Hy'])] + ftoks(lst(py)))
            if k in ('trace', 'trace_generic'):
                rec0 = {f: np.atleast_1d(getattr(o.surface_group.surfaces[0], f)) for f in realenc.FIELDS}
                launch = realenc.rays_tokens(*[rec0[f] for f in realenc.FIELDS])
                gk = json.dumps([gkey[0], gkey[1], gkey[2], gkey[3], gkey[4]])
                if gk in gens and gens[gk][1] != launch:
                    exp['launch_changed'] = True       # same arguments, different launch rays
                gens.setdefault(gk, (gkey, launch))
                exp['rays'] = np.array([np.asarray(getattr(rays, f), dtype=float) for f in
                                        ('x', 'y', 'z', 'L', 'M', 'N', 'i', 'opd')]).T
        except Exception as e:  # noqa
            count('impl error, history cut:' + type(e).__name__)
            break
        exp['shapes'] = rec_shapes(o)
        exp['heap'] = [a.copy() for a in heap]
        out['expect'].append(exp)
        count('call:' + k)
    if not out['expect']:
        out['skip'] = 'no call succeeded'
        return out
    ncalls = len(out['expect'])
    toks = sys_t + [str(len(o.fields.fields))]
    for f in o.fields.fields:
        toks += [fhex(f.x), fhex(f.y), fhex(f.vx), fhex(f.vy)]
    toks += [str(len(reals))]
    for w in sorted(reals):
        toks += reals[w]
    toks += [str(len(vigs))]
    for hx, hy, vx, vy in vigs.values():
        toks += ftoks(hx) + ftoks(hy) + ftoks(vx) + ftoks(vy)
    toks += [str(len(gens))]
    for (hx, hy, px, py, w), launch in gens.values():
        toks += ftoks(hx) + ftoks(hy) + ftoks(px) + ftoks(py) + [fhex(w)] + launch
    toks += [str(len(heap0))]
    for a in heap0:
        toks += ftoks(lst(a))
    toks += [str(ncalls)]
    for c in calls[:ncalls]:
        toks += c
    out['tail'] = ' '.join(toks)
    out['heap0'] = heap0
    out['coated'] = any(s.coating is not None for s in o.surface_group.surfaces)
    return out


def parse_fx(line):
    """-> list of {'err','nums','rays','shapes','heap'} or ('error', text)"""
    if line.startswith('error') or line.startswith('bad-op'):
        return ('error', line[:200])
    res = []
    for part in line.split(' | '):
        v, sh, hp = part.split(' ; ')
        t = Toks(v)
        err = t.tok() == '1'
        nums = t.floats()
        nr = t.nat()
        rays = np.array(t.floats(nr * 8)).reshape(nr, 8) if nr else np.zeros((0, 8))
        t = Toks(sh)
        ns = t.nat()
        shapes = [(t.nat(), t.nat()) for _ in range(ns)]
        t = Toks(hp)
        nh = t.nat()
        heap = [t.floats() for _ in range(nh)]
        res.append({'err': err, 'nums': nums, 'rays': rays, 'shapes': shapes, 'heap': heap})
    return res


def compare_calls(ctx, r, code_out, spec_out):
    case = r['case']
    for name, m in (('code', code_out), ('spec', spec_out)):
        if isinstance(m, tuple):
            ctx.disagreements.append({'what': 'fxseq (%s) failed' % name, 'model': m[1], 'case': case})
            return
    exp = r['expect']
    if len(code_out) != len(exp):
        ctx.disagreements.append({'what': 'fxseq answered %d calls for %d' % (len(code_out), len(exp)), 'case': case})
        return
    heap0 = [lst(a) for a in r['heap0']]
    final = [lst(a) for a in exp[-1]['heap']]
    written = any(a != b for a, b in zip(final, heap0)) or \
        any(np.asarray(a).tobytes() != np.asarray(b).tobytes() for a, b in zip(final, heap0))
    # the spec variant never writes (theorem caller_arrays_unchanged_spec, here at Float)
    for j, m in enumerate(spec_out):
        if [fhex(v) for a in m['heap'] for v in a] != [fhex(v) for a in heap0 for v in a]:
            ctx.disagreements.append({'what': 'spec model wrote a caller array at call %d' % j, 'case': case})
            return
    follow = code_out if written else spec_out
    ctx.count('calls: implementation follows ' + ('code (in-place write observed)' if written else 'spec/code (no write)'))
    for j, (e, m) in enumerate(zip(exp, follow)):
        at = 'call %d (%s)' % (j, e['op'])
        if e.get('launch_changed'):
            ctx.disagreements.append({'what': 'launch rays differ for identical arguments at ' + at, 'case': case})
            return
        # caller arrays: bit-exact against the code variant, else against the spec variant
        hi = [fhex(v) for a in e['heap'] for v in lst(a)]
        hc = [fhex(v) for a in code_out[j]['heap'] for v in a]
        hs = [fhex(v) for a in spec_out[j]['heap'] for v in a]
        ctx.bitexact[1] += 1
        if hi == hc:
            ctx.bitexact[0] += 1
            if hi != hs:
                ctx.fail('caller-owned arrays are unchanged after trace_generic', {**case, 'at': j},
                         {'after': [lst(a) for a in e['heap']]}, {'before': heap0}, finding_key=F3_KEY)
        elif hi == hs:
            ctx.bitexact[0] += 1
            ctx.count('calls: caller arrays follow the spec variant (defect repaired)')
        else:
            ctx.disagreements.append({'what': 'caller arrays after ' + at + ' match neither model variant',
                                      'impl': [lst(a) for a in e['heap']], 'model': code_out[j]['heap'], 'case': case})
            return
        if m['err']:
            ctx.disagreements.append({'what': 'model raises at ' + at, 'case': case})
            return
        if list(map(tuple, e['shapes'])) != list(map(tuple, m['shapes'])):
            ctx.disagreements.append({'what': 'record slots (kind, rays) after ' + at, 'impl': e['shapes'],
                                      'model': m['shapes'], 'case': case})
            return
        ctx.count('calls: record-shape vectors compared')
        if 'nums' in e:
            if not ctx.cmp_list('value of ' + at + ' ' + str(case['ops'][j].get('q', '')), e['nums'], m['nums'], case,
                                rtol=1e-9, atol=1e-12):
                return
        if 'rays' in e:
            ri, rm = e['rays'], m['rays']
            if ri.shape != rm.shape:
                ctx.disagreements.append({'what': 'number of rays returned by ' + at, 'impl': list(ri.shape),
                                          'model': list(rm.shape), 'case': case})
                return
            for q in range(ri.shape[0]):
                fi = bool(np.all(np.isfinite(ri[q, :6])))
                fm = bool(np.all(np.isfinite(rm[q, :6])))
                if not fi or not fm:
                    if fi != fm:
                        ctx.disagreements.append({'what': 'finite/non-finite class of ray %d returned by %s' % (q, at),
                                                  'impl': ri[q].tolist(), 'model': rm[q].tolist(), 'case': case})
                        return
                    continue
                for c in range(8):
                    if c == 6 and r.get('polarized'):
                        continue
                    if not ctx.cmp('ray %d field %d returned by %s' % (q, c, at), ri[q, c], rm[q, c], case,
                                   rtol=1e-9, atol=1e-10):
                        return


# ------------------------------------------------------------------------------------ stream C
def closed_form(o):
    return all(type(s.geometry).__name__ in ('Plane', 'StandardGeometry') for s in o.surface_group.surfaces)


def run_batch(case):
    out = {'kind': 'batch', 'case': case, 'counts': {}, 'lines': [], 'skip': None}
    try:
        o = build_setup(case['setup'])
        wl = o.wavelengths.get_wavelengths()
        w = wl[case['wi'] % len(wl)]
        ltoks = realenc.lens_tokens(o, w)
    except Exception as e:  # noqa
        out['skip'] = 'setup/encode:' + type(e).__name__
        return out
    px, py = c02.disk_points(random.Random(case['seed']), case['nray'])
    hy = np.full(case['nray'], float(case['Hy']))
    if case.get('mixed'):
        hy[1::2] = 0.0
        try:
            o.trace_generic(np.zeros(case['nray']), hy.copy(), px.copy(), py.copy(), w)
            rec = realenc.impl_records(o)
        except Exception as e:  # noqa
            rec = ('error', type(e).__name__)
    else:
        rec = c02.trace_case(o, case['Hy'], px, py, w)
    if isinstance(rec, tuple):
        out['skip'] = 'impl_error:' + rec[1]
        return out
    out['closed'] = closed_form(o)
    out['geoms'] = sorted({type(s.geometry).__name__ for s in o.surface_group.surfaces})
    out['tols'] = [float(getattr(s.geometry, 'tol', 0.0)) if type(s.geometry).__name__ not in ('Plane', 'StandardGeometry')
                   else 0.0 for s in o.surface_group.surfaces]
    out['geom_objs'] = [s.geometry for s in o.surface_group.surfaces]
    out['rec'] = rec
    out['lines'].append('rtrace ' + ' '.join(ltoks + realenc.rays_tokens(*[rec[f][0] for f in realenc.FIELDS])))
    out['alone'] = []
    for i in case['pick']:
        i = i % case['nray']
        ra = c02.trace_case(o, float(hy[i]), px[i:i + 1], py[i:i + 1], w)
        if isinstance(ra, tuple):
            out['alone'].append((i, ra))
            continue
        out['alone'].append((i, ra))
        out['lines'].append('rtrace ' + ' '.join(ltoks + realenc.rays_tokens(*[ra[f][0] for f in realenc.FIELDS])))
    return out


def on_surface(g, P, tol):
    """does the recorded point lie on the prescribed shape within the exit tolerance of the iteration?"""
    from . import specgeom
    try:
        loc = specgeom.to_local(g.cs, np.asarray(P, dtype=float))
        z_true, _ = specgeom.shape(g, float(loc[0]), float(loc[1]))
    except Exception:  # noqa
        return False
    return z_true is not None and abs(float(loc[2]) - z_true) <= 2 * tol + 1e-12


def compare_records_dom(ctx, case, rec, mod, geoms, tols):
    """model vs implementation per surface and ray, on the property's domain: a ray leaves the comparison at the
    first Newton-Raphson surface where the iteration did not converge (the model's point is not on the shape) -
    after max_iter chaotic sweeps model and implementation need not agree, and nothing downstream means anything"""
    nsurf, nray = rec['x'].shape
    for q in range(nray):
        for j in range(1, nsurf):
            gm = [mod[f][j, q] for f in ('x', 'y', 'z', 'L', 'M', 'N')]
            gi = [rec[f][j, q] for f in ('x', 'y', 'z', 'L', 'M', 'N')]
            fm = all(math.isfinite(v) for v in gm)
            fi = all(math.isfinite(v) for v in gi)
            if fm and fi and tols[j] > 0 and not on_surface(geoms[j], gm[:3], tols[j]):
                ctx.count('ray-surface: Newton-Raphson not converged (out of domain)')
                break
            if not fm or not fi:
                ctx.count('ray-surface: non-finite')
                if fm != fi:
                    ctx.disagreements.append({'what': 'finite/non-finite class at surface %d ray %d' % (j, q),
                                              'impl': gi, 'model': gm, 'case': case})
                    return False
                continue
            ctx.count('ray-surface: finite')
            for f in realenc.FIELDS:
                if not ctx.cmp('%s[s%d,r%d]' % (f, j, q), rec[f][j, q], mod[f][j, q], case, rtol=1e-9, atol=1e-10):
                    return False
    return True


def bits_eq(a, b):
    a = np.asarray(a, dtype=float)
    b = np.asarray(b, dtype=float)
    return a.shape == b.shape and bool(np.all((a.view(np.uint64) == b.view(np.uint64)) | (np.isnan(a) & np.isnan(b))))


def compare_batch(ctx, r, outs):
    case = r['case']
    rec = r['rec']
    nsurf, nray = rec['x'].shape
    mod = realenc.decode_records(outs[0], nsurf, nray)
    if isinstance(mod, tuple):
        ctx.disagreements.append({'what': 'model ' + mod[0] + ' for the batch', 'model': mod[1], 'case': case})
        return
    compare_records_dom(ctx, case, rec, mod, r['geom_objs'], r['tols'])
    li = 1
    for i, ra in r['alone']:
        if isinstance(ra, tuple):
            ctx.fail('a ray that traces in a batch also traces alone', {**case, 'ray': i}, ra[1])
            continue
        ma = realenc.decode_records(outs[li], nsurf, 1)
        li += 1
        if isinstance(ma, tuple):
            ctx.disagreements.append({'what': 'model ' + ma[0] + ' for the single ray', 'model': ma[1], 'case': case})
            continue
        compare_records_dom(ctx, {**case, 'ray': i, 'alone': True}, ra, ma, r['geom_objs'], r['tols'])
        ctx.count('batch: ray compared alone vs in batch')
        # launch rays: the generator must treat every ray separately as well
        for f in realenc.FIELDS:
            if not bits_eq(rec[f][0, i], ra[f][0, 0]):
                ctx.fail('launch ray %d is the same alone and in a batch (%s)' % (i, f), {**case, 'ray': i},
                         float(ra[f][0, 0]), float(rec[f][0, i]))
                return
        same_impl = all(bits_eq(rec[f][:, i], ra[f][:, 0]) for f in realenc.FIELDS)
        same_model = all(bits_eq(mod[f][:, i], ma[f][:, 0]) for f in realenc.FIELDS)
        if r['closed']:
            ctx.count('batch: closed-form lens')
            # theorem batch_independence_single at Float: must hold bit for bit in the model …
            if not same_model:
                ctx.disagreements.append({'what': 'batch_independence fails in the model at Float (ray %d)' % i,
                                          'case': case})
            # … and the property demands it of the implementation
            if not same_impl:
                f = [f for f in realenc.FIELDS if not bits_eq(rec[f][:, i], ra[f][:, 0])][0]
                j = int(np.argmax(~((rec[f][:, i].view(np.uint64) == ra[f][:, 0].view(np.uint64)))))
                ctx.fail('closed-form geometries: record of ray %d is bit-identical alone and in a batch' % i,
                         {**case, 'ray': i}, {'field': f, 'surface': j, 'batch': repr(float(rec[f][j, i])),
                                              'alone': repr(float(ra[f][j, 0]))})
            continue
        ctx.count('batch: Newton-Raphson lens')
        if same_impl != same_model:
            ctx.drift.append({'what': 'iteration-count effect present in only one of model/implementation',
                              'impl_same': same_impl, 'model_same': same_model, 'case': {**case, 'ray': i}})
        if not same_impl:
            ctx.count('batch: iteration count changed the result (bits differ)')
        tol = 0.0
        for j in range(1, nsurf):
            tol = max(tol, r['tols'][j])
            a = np.array([rec[f][j, i] for f in ('x', 'y', 'z', 'L', 'M', 'N')])
            b = np.array([ra[f][j, 0] for f in ('x', 'y', 'z', 'L', 'M', 'N')])
            fa, fb = bool(np.all(np.isfinite(a))), bool(np.all(np.isfinite(b)))
            if fa and fb and r['tols'][j] > 0 and not on_surface(r['geom_objs'][j], b[:3], r['tols'][j]):
                # even traced alone the Newton iteration did not converge for this ray (max_iter sweeps without
                # meeting the test): there is no intersection whose tolerance could bound anything - outside the
                # property's domain.  (A ray that converges alone but not in the batch is NOT excused.)
                ctx.count('batch: out of domain (Newton-Raphson iteration did not converge)')
                break
            if not fa or not fb:
                if fa != fb:
                    ctx.fail('ray %d is finite alone iff finite in the batch (surface %d)' % (i, j),
                             {**case, 'ray': i}, {'batch': a.tolist(), 'alone': b.tolist()},
                             finding_key=wander_key(r, ra, j))
                break
            dpos = float(np.max(np.abs(a[:3] - b[:3])))
            ddir = float(np.max(np.abs(a[3:] - b[3:])))
            dopd = abs(float(rec['opd'][j, i] - ra['opd'][j, 0]))
            bound = 50 * tol + 1e-9
            ctx.stats['batch: max (difference / tol)'] = max(ctx.stats.get('batch: max (difference / tol)', 0.0),
                                                             (max(dpos, ddir, dopd) / tol) if tol > 0 else 0.0)
            if max(dpos, ddir, dopd) > bound:
                ctx.fail('Newton-Raphson geometries: ray %d alone and in a batch agree within the surface '
                         'tolerance (surface %d)' % (i, j), {**case, 'ray': i},
                         {'dpos': dpos, 'ddir': ddir, 'dopd': dopd}, {'bound': bound, 'tol': tol},
                         finding_key=wander_key(r, ra, j))
                break


def wander_key(r, ra, j):
    """finding F22c (= F22b seen from C13): the code's iteration does not contract for this ray - run for max_iter
    sweeps (what the batch-wide loop forces as soon as any other ray needs them) it is still outside the tolerance
    or has left the sag domain, while alone it stopped at the first sweep whose |dz| happened to be below `tol`.
    Decided with the independent replay of the iteration (c02.nr_replay), not with the implementation's own values."""
    from . import c02, specgeom
    try:
        g = r['geom_objs'][j]
        if type(g).__name__ in ('Plane', 'StandardGeometry'):
            return None
        P0 = np.array([ra[f][j - 1, 0] for f in ('x', 'y', 'z')], dtype=float)
        D0 = np.array([ra[f][j - 1, 0] for f in ('L', 'M', 'N')], dtype=float)
        if not (np.all(np.isfinite(P0)) and np.all(np.isfinite(D0))):
            return None
        loc0 = specgeom.to_local(g.cs, P0)
        dloc = specgeom.to_local(g.cs, P0 + D0) - loc0
        if abs(dloc[2]) < 1e-12:
            return 'nr-wandering-batch-dependence'
        q = c02.nr_replay(g, loc0, dloc)
        if q is None:
            return 'nr-wandering-batch-dependence'
        zs, _ = specgeom.shape(g, float(q[0]), float(q[1]))
        if zs is None or abs(q[2] - zs) >= float(g.tol):
            return 'nr-wandering-batch-dependence'
    except Exception:  # noqa
        return None
    return None


# ------------------------------------------------------------------------------------ driver of the check
def work(case):
    np.seterr(all='ignore')
    k = case['kind']
    if k == 'inter':
        return run_inter(case)
    if k == 'calls':
        return run_calls(case)
    return run_batch(case)


def gen_cases(ctx):
    rng = ctx.rng
    samples = [n for n, _ in lensgen.sample_classes()]
    q = ctx.quick()
    nA, nB, nC = (200, 120, 150) if q else (10000, 3000, 6000)
    cases = []
    infos = {}

    def info_for(setup):
        # wavelengths and field coordinates do not depend on vignetting / coatings / polarization
        key = json.dumps({k: setup[k] for k in ('sample', 'desc') if k in setup}, sort_keys=True)
        if key not in infos:
            try:
                infos[key] = lens_info(build_setup(setup))
            except Exception:  # noqa
                infos[key] = None
        return infos[key]

    for i in range(nA):
        setup = gen_setup(rng, samples)
        info = info_for(setup)
        if info is None:
            ctx.count('build_error (generation)')
            continue
        cases.append({'kind': 'inter', 'setup': setup, 'ops': gen_ops(rng, info),
                      'pristine_every': 2 if q else 3})
    for i in range(nB):
        setup = gen_setup(rng, [s for s in samples if s not in SKIP_SAMPLES_B], plain=True)
        info = info_for(setup)
        if info is None:
            ctx.count('build_error (generation)')
            continue
        nheap = rng.randint(1, 3)
        hn = rng.randint(1, 8)
        heap = [pupil_vals(rng, hn) for _ in range(nheap)]
        cases.append({'kind': 'calls', 'setup': setup, 'heap': heap, 'ops': gen_calls(rng, info, nheap, hn)})
    for name in samples:
        cases.append({'kind': 'batch', 'setup': {'sample': name}, 'Hy': 1.0, 'nray': 12, 'seed': 5, 'wi': 0,
                      'pick': [0, 3, 7]})
    for i in range(nC):
        kind = rng.random()
        d = lensgen.gen_lens(rng, allow_asphere=kind < 0.55, allow_tilt=rng.random() < 0.3,
                             poly=0.55 <= kind < 0.75, catalog=rng.random() < 0.1,
                             apertures=rng.random() < 0.2, coatings=rng.random() < 0.2,
                             nsurf=rng.randint(1, 8))
        for sf in d['surfaces']:
            if sf.get('surface_type') in ('even_asphere', 'polynomial', 'chebyshev') and rng.random() < 0.8:
                sf['tol'] = rng.choice([1e-2, 1e-3, 1e-4, 1e-6, 1e-10])
        if rng.random() < 0.1:
            d['aperture'] = ['EPD', dyadic(rng, 10, 40, 2)]
        nray = rng.randint(2, 24)
        if rng.random() < 0.15:
            # an exact paraboloid (the conic quadratic degenerates to its linear branch for rays parallel to the axis)
            std = [sf for sf in d['surfaces'][1:-1] if sf.get('surface_type', 'standard') == 'standard'
                   and sf.get('radius', 'inf') != 'inf']
            if std:
                rng.choice(std)['conic'] = -1.0
        cases.append({'kind': 'batch', 'setup': {'desc': d}, 'Hy': rng.choice([0.0, 1.0, rng.uniform(-1, 1)]),
                      'nray': nray, 'seed': rng.randint(0, 10 ** 9), 'wi': rng.randint(0, 2),
                      'pick': [rng.randrange(nray) for _ in range(3)],
                      # one call may carry rays of several field points (array-valued Hx, Hy, as GridDistortion does):
                      # every second ray then belongs to the axial field
                      'mixed': rng.random() < 0.35})
    return cases


def run(tier, seed, replay=None):
    ctx = Ctx('C13', tier, seed)
    ctx.stats['rule'] = (
        'A: interleavings (length 2-30, 30% of the calls repeat an earlier call) of trace / trace_generic / 17 Paraxial '
        'queries / Paraxial.trace / 14 Aberrations queries / Wavefront, OPD, ZernikeOPD, FFTPSF, FFTMTF, GeometricMTF / '
        '10 analysis classes on the 24 samples and generated lenses (1-6 surfaces, aspheres, polynomial/Chebyshev, '
        'tilts, mirrors), half of them with vignetting factors, a quarter with polarization (half of those Fresnel-'
        'coated), simple coatings; arguments as float, int, np.float64, list, float and int ndarray, distribution '
        'objects, field/wavelength lists.  B: call-level interleavings with persistent caller arrays, through the Lean '
        'state machine.  C: batches of 2-24 skew rays, 3 rays re-traced alone, Newton-Raphson tolerances 1e-2..1e-10.  '
        'distinct by descriptor hash; a case is non-trivial when the lens builds')
    aud = audit('C13')
    drv = Driver()
    np.seterr(all='ignore')
    import time
    t0 = time.time()
    if replay:
        cases = [replay if 'kind' in replay else {**replay, 'kind': 'inter'}]
    else:
        cases = gen_cases(ctx)
        only = os.environ.get('VERIF_C13_STREAMS')      # debugging aid: e.g. "BC" runs only those streams
        if only:
            keep = {'A': 'inter', 'B': 'calls', 'C': 'batch'}
            cases = [c for c in cases if c['kind'] in {keep[x] for x in only if x in keep}]
    t1 = time.time()
    jobs = int(os.environ.get('VERIF_JOBS', '0') or 0) or min(12 if not ctx.quick() else 8, os.cpu_count() or 1)
    if jobs > 1 and len(cases) > 4:
        with multiprocessing.get_context('fork').Pool(jobs) as pool:
            results = pool.map(work, cases, chunksize=max(1, min(16, len(cases) // (jobs * 8) or 1)))
    else:
        results = [work(c) for c in cases]
    # one driver batch for streams B and C
    lines, where = [], []
    for k, r in enumerate(results):
        if r['kind'] == 'calls' and not r['skip']:
            where.append((k, len(lines), 2))
            lines += ['fxseq 1 ' + r['tail'], 'fxseq 0 ' + r['tail']]
        elif r['kind'] == 'batch' and not r['skip']:
            where.append((k, len(lines), len(r['lines'])))
            lines += r['lines']
    t2 = time.time()
    outs = drv.batch(lines)
    t3 = time.time()
    ctx.notes.append('phases: generate %.1fs, implementation runs (%d processes) %.1fs, driver %.1fs (%d lines)'
                     % (t1 - t0, jobs, t2 - t1, t3 - t2, len(lines)))
    pos = {k: (a, n) for k, a, n in where}
    for k, r in enumerate(results):
        for key, n in r.get('counts', {}).items():
            ctx.count(key, n)
        if r['kind'] == 'inter':
            case = cases[k]
            ctx.case({'kind': 'inter', 'setup': case['setup'], 'nops': len(case['ops']),
                      'ops': [o['op'] for o in case['ops']], 'h': hashlib.md5(json.dumps(case, sort_keys=True).encode()).hexdigest()[:12]},
                     nontrivial=r['evals'] > 0)
            ctx.count('interleavings')
            ctx.count('calls executed (A)', r['evals'])
            for f in r['fails']:
                if f['key'] is None and len(ctx.failures) < 2:
                    f = shrink_inter(f)
                ctx.fail(f['clause'], f['case'], f['observed'], f['expected'], finding_key=f['key'])
            continue
        if r['skip']:
            ctx.count(r['kind'] + ' skipped: ' + r['skip'])
            continue
        a, n = pos[k]
        if r['kind'] == 'calls':
            ctx.case({'kind': 'calls', 'setup': r['case']['setup'], 'nops': len(r['case']['ops']),
                      'h': hashlib.md5(json.dumps(r['case'], sort_keys=True).encode()).hexdigest()[:12]})
            ctx.count('call-level interleavings (B)')
            compare_calls(ctx, r, parse_fx(outs[a]), parse_fx(outs[a + 1]))
        else:
            ctx.case({k2: v for k2, v in r['case'].items()})
            for g in r['geoms']:
                ctx.count('batch geom:' + g)
            compare_batch(ctx, r, outs[a:a + n])
    if 'batch: max (difference / tol)' in ctx.stats:
        ctx.stats['batch: max (difference / tol)'] = round(ctx.stats['batch: max (difference / tol)'], 4)
    return finish(ctx, aud,
                  partial=['batch_independence for Newton-Raphson geometries: only the structure is proved (same per-ray '
                           'iteration, batch-wide count k_alone <= k_batch <= max_iter, one extra step moves the point by '
                           '|dz|/|N| < tol/|N|); the bound on the accumulated difference (convergence) is numerical (stream C)',
                           'caller_arrays_unchanged: proved for the `_spec` variant (no write), which is what the repaired '
                           'tree (78f9163, F3) does; for the `_code` variant of the pinned tree only for zero vignetting '
                           '(caller_arrays_unchanged_partial), false otherwise (caller_arrays_changed_code)',
                           'analyses enter the model as a fixed list of calls plus pure post-processing; that each analysis '
                           'class has this form is checked on the implementation by clauses (a)-(d), not proved',
                           'get_vig_factor and the launch geometry of generate_rays are opaque pure functions in the model (C03)'],
                  assumptions=['IEEE-754 arithmetic, NumPy kernels and pocketfft/LAPACK are deterministic for identical inputs '
                               '(single-threaded BLAS is enforced)',
                               'aliasing through NumPy views beyond the modelled call sites is observed only through '
                               'clauses (b) and (d) on the generated calls',
                               'unseeded random pupil sampling is excepted from bit-identity, as in the property'])
