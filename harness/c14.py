"""C14  Optimisers leave the lens at the returned solution, never worse than the start.

Correspondence (hard observables, implementation vs `Model/Optim.lean` at Float through the driver):
  * `optvar`  every variable type: value, scale(x), inverse_scale(x), bounds, update(x) -> value and
              the whole observable prescription afterwards;
  * `merit`   sum_squared() from the operand values, and the NaN -> 1e10 guard of `_fun`;
  * `optrun`  the `_fun` / optimize / undo protocol: every in-process call of `_fun` is logged, the
              recorded evaluation sequence is replayed on the model (code and spec variants of
              optimize / undo) and values + prescription are compared after every optimise / undo.
Predicate (the property's clauses on the implementation alone, independent formulas written here):
  merit definition, handle read-back, bounds in the units of the value (F5), variables == result.x
  and sum_squared() == result.fun after optimize (F6), result.fun <= start, bounded variables inside
  their bounds, pickups / solves satisfied, undo() restores the prescription (F6), stack discipline
  over sequences optimise / undo / optimise.
scipy is not modelled: `within_bounds` and `not_worse` are numerical only (partial)."""
import math, copy, io, contextlib, warnings
import numpy as np
from .core import fhex, b01, Toks, Driver, Ctx, audit, finish, close
from . import lensgen, c01
from .lensgen import dyadic

W0 = 0.5875618

# ------------------------------------------------------------------ independent specification of the scalings
SCALE = {
    'radius': lambda v, d: v / 100.0 - 1.0,
    'thickness': lambda v, d: v / 10.0 - 1.0,
    'index': lambda v, d: v - 1.5,
    'asphere_coeff': lambda v, d: v * 10.0 ** (4 + 2 * d['coeff_number']),
}
UNSCALE = {
    'radius': lambda s, d: (s + 1.0) * 100.0,
    'thickness': lambda s, d: (s + 1.0) * 10.0,
    'index': lambda s, d: s + 1.5,
    'asphere_coeff': lambda s, d: s / 10.0 ** (4 + 2 * d['coeff_number']),
}


def spec_scale(d, v):
    return SCALE.get(d['type'], lambda v, d: v)(v, d)


def spec_unscale(d, s):
    return UNSCALE.get(d['type'], lambda s, d: s)(s, d)


def f5_affected(d):
    """bounds of this variable are wrong in the tree: unscaled variable of a type whose scale is not the identity"""
    return (not d['apply_scaling']) and d['type'] in SCALE and (d.get('min_val') is not None
                                                               or d.get('max_val') is not None)


# ------------------------------------------------------------------ logging of the in-process `_fun` calls
_LOG = None


def install_logger():
    from optiland.optimization import optimization
    if getattr(optimization.OptimizerGeneric._fun, '_c14_logged', False):
        return
    orig = optimization.OptimizerGeneric._fun

    def _fun(self, x):
        r = orig(self, x)
        if _LOG is not None:
            _LOG.append((np.array(x, dtype=float).ravel().copy(), float(r)))
        return r
    _fun._c14_logged = True
    _fun._c14_orig = orig
    optimization.OptimizerGeneric._fun = _fun


# ------------------------------------------------------------------ problems
def raw_of(o, d):
    """the quantity in lens units, read independently of the Variable classes"""
    sg = o.surface_group
    k = d['surface_number']
    s = sg.surfaces[k]
    t = d['type']
    if t == 'radius':
        return float(s.geometry.radius)
    if t == 'conic':
        return float(getattr(s.geometry, 'k', 0.0))
    if t == 'thickness':
        p = sg.positions
        return float(np.ravel(p[k + 1])[0] - np.ravel(p[k])[0])
    if t == 'tilt':
        return float(s.geometry.cs.rx if d['axis'] == 'x' else s.geometry.cs.ry)
    if t == 'decenter':
        return float(s.geometry.cs.x if d['axis'] == 'x' else s.geometry.cs.y)
    if t == 'index':
        return float(np.ravel(s.material_post.n(d['wavelength']))[0])
    if t == 'asphere_coeff':
        return float(s.geometry.c[d['coeff_number']])
    i, j = d['coeff_index']
    c = np.asarray(s.geometry.c)
    return float(c[i][j]) if i < c.shape[0] and j < c.shape[1] else 0.0


def candidates(desc, rng):
    """all variables one could attach to this lens (descriptor level)"""
    out = []
    surfs = desc['surfaces']
    n = len(surfs) - 2
    obj_inf = surfs[0]['thickness'] == 'inf'
    for k in range(1, n + 1):
        s = surfs[k]
        st = s.get('surface_type', 'standard')
        if s['radius'] != 'inf':
            out.append({'type': 'radius', 'surface_number': k})
            out.append({'type': 'conic', 'surface_number': k})
        out.append({'type': 'thickness', 'surface_number': k})
        if s['material']['kind'] == 'ideal':
            out.append({'type': 'index', 'surface_number': k, 'wavelength': W0})
        if s['material']['kind'] == 'mirror' and k >= 2 and surfs[k - 1]['material']['kind'] == 'ideal':
            # immersed (Mangin) mirror: the factory gives the mirror one medium object for both sides, the same
            # object as the medium behind the previous surface; an index variable on the mirror and one on the
            # surface in front of it are two handles that must stay independent
            out.append({'type': 'index', 'surface_number': k, 'wavelength': W0, 'mangin': True})
        if st == 'even_asphere':
            out.append({'type': 'asphere_coeff', 'surface_number': k,
                        'coeff_number': rng.randrange(len(s['coefficients']))})
        if st == 'polynomial':
            out.append({'type': 'polynomial_coeff', 'surface_number': k,
                        'coeff_index': [rng.randint(0, 3), rng.randint(0, 3)]})
        if st == 'chebyshev':
            out.append({'type': 'chebyshev_coeff', 'surface_number': k,
                        'coeff_index': [rng.randint(0, 3), rng.randint(0, 3)]})
        out.append({'type': 'tilt', 'surface_number': k, 'axis': rng.choice(['x', 'y'])})
        out.append({'type': 'decenter', 'surface_number': k, 'axis': rng.choice(['x', 'y'])})
    if not obj_inf:
        out.append({'type': 'thickness', 'surface_number': 0})
    return out


def slot(d):
    return (d['type'], d['surface_number'], d.get('axis'), d.get('coeff_number'),
            tuple(d.get('coeff_index') or ()))


def bound_halfwidth(d, raw):
    t = d['type']
    if t == 'radius':
        return 0.3 * abs(raw) + 1.0
    if t == 'thickness':
        return 0.3 * abs(raw) + 0.25
    if t == 'conic':
        return 0.5
    if t == 'index':
        return 0.0625
    if t == 'asphere_coeff':
        return 2.0 * abs(raw) + 10.0 ** -(4 + 2 * d['coeff_number'])
    if t == 'tilt':
        return 0.015625
    if t == 'decenter':
        return 0.25
    return 2.0 * abs(raw) + 1e-4


OPERAND_KINDS = ['f2', 'rms_spot_size', 'real_y_intercept', 'f2', 'rms_spot_size', 'real_x_intercept', 'XPL',
                 'real_N', 'EPL']


def gen_operands(rng, o, nmax=4, paraxial_only=False):
    ops = []
    for _ in range(rng.randint(1, nmax)):
        kind = rng.choice(['f2', 'XPL', 'F2'] if paraxial_only else OPERAND_KINDS)
        w = rng.choice([0.5, 1.0, 1.0, 2.0, 3.5])
        if kind in ('f2', 'XPL', 'EPL', 'F2'):
            try:
                cur = float(np.ravel(getattr(o.paraxial, kind)())[0])
            except Exception:
                cur = 50.0
            if not math.isfinite(cur):
                cur = 50.0
            tgt = cur * rng.choice([0.8, 0.9, 1.1, 1.25]) + rng.choice([0.0, 1.0])
            ops.append({'type': kind, 'target': tgt, 'weight': w, 'data': {}})
        elif kind == 'rms_spot_size':
            ops.append({'type': kind, 'target': 0.0, 'weight': w,
                        'data': {'surface_number': -1, 'Hx': 0.0, 'Hy': rng.choice([0.0, 0.7, 1.0]),
                                 'num_rays': rng.choice([2, 3, 4]), 'wavelength': W0,
                                 'distribution': rng.choice(['hexapolar', 'hexapolar', 'line_y'])}})
        else:
            ops.append({'type': kind, 'target': dyadic(rng, -1, 1, 4) if kind != 'real_N' else 1.0, 'weight': w,
                        'data': {'surface_number': -1, 'Hx': 0.0, 'Hy': rng.choice([0.0, 1.0]),
                                 'Px': rng.choice([0.0, 0.5]), 'Py': rng.choice([0.0, 1.0, -0.5]),
                                 'wavelength': W0}})
    return ops


def ensure_kind(desc, kind, rng):
    """make sure the lens has a surface that can carry a variable of this type"""
    surfs = desc['surfaces'][1:-1]
    if kind == 'index':
        if not any(s['material']['kind'] == 'ideal' for s in surfs):
            glass = [s for s in surfs[:-1] if s['material']['kind'] == 'air']
            if glass:
                rng.choice(glass)['material'] = {'kind': 'ideal', 'n': dyadic(rng, 1.4, 1.9, 8)}
        return
    st = {'asphere_coeff': 'even_asphere', 'polynomial_coeff': 'polynomial', 'chebyshev_coeff': 'chebyshev'}.get(kind)
    if st is None or any(s.get('surface_type') == st for s in surfs):
        return
    plain = [s for s in surfs if 'surface_type' not in s]
    if not plain:
        return
    s = rng.choice(plain)
    if s['radius'] == 'inf':
        s['radius'] = dyadic(rng, 40, 200, 3) * rng.choice([1, -1])
    R = abs(s['radius'])
    s['surface_type'] = st
    s.setdefault('conic', 0.0)
    if st == 'even_asphere':
        s['coefficients'] = [rng.uniform(-1, 1) * 1e-3 / R, rng.uniform(-1, 1) * 1e-5 / R,
                             rng.uniform(-1, 1) * 1e-8 / R][:rng.randint(1, 3)]
    else:
        c = [[0.0, 0.0, 0.0], [0.0, 0.0, 0.0], [0.0, 0.0, 0.0]]
        sc = 1e-3 / R if st == 'polynomial' else 1e-3
        c[2][0] = rng.uniform(-1, 1) * sc
        c[0][2] = rng.uniform(-1, 1) * sc
        c[1][1] = rng.uniform(-1, 1) * sc
        s['coefficients'] = c
        if st == 'chebyshev':
            s['norm_x'] = 500.0
            s['norm_y'] = 500.0


def gen_problem(rng, want_kinds=None, all_bounded=None, nvars=None, paraxial_only=False, one_sided=False,
                coupled=False):
    """JSON-able problem descriptor: lens, pickups, solves, variables, operands"""
    for _attempt in range(50):
        poly = rng.random() < 0.3
        desc = lensgen.gen_lens(rng, nsurf=rng.randint(2, 5), allow_mirror=rng.random() < 0.2,
                                allow_asphere=rng.random() < 0.5, poly=poly,
                                finite_object=rng.random() < 0.3, ap_types=('EPD',), field_types=('angle',),
                                max_field_deg=4.0)
        desc['wavelengths'] = [[W0, 1]]
        for s_ in desc['surfaces']:
            if s_.get('surface_type') == 'chebyshev':      # keep every probe inside the normalisation square
                s_['norm_x'] = s_['norm_y'] = 500.0
        desc['aperture'] = ['EPD', min(desc['aperture'][1], 4.0)]
        n = len(desc['surfaces']) - 2
        for kind in (want_kinds or []):
            ensure_kind(desc, kind, rng)
        cand = candidates(desc, rng)
        if want_kinds:
            first = [c for c in cand if c['type'] in want_kinds]
            if not first:
                continue
        # pickups / solves first (variables must not sit on a quantity these write)
        pickups, solves, written = [], [], set()
        if n >= 2 and rng.random() < 0.45:
            for _ in range(rng.randint(1, 2)):
                attr = rng.choice(['radius', 'conic', 'thickness'])
                src, tgt = rng.sample(range(1, n + 1), 2)
                ok_surf = lambda k: desc['surfaces'][k]['radius'] != 'inf'  # noqa
                if attr in ('radius', 'conic') and not (ok_surf(src) and ok_surf(tgt)):
                    continue
                if any(p['attr'] == attr and (p['tgt'] in (src, tgt) or p['src'] == tgt) for p in pickups):
                    continue
                pickups.append({'src': src, 'attr': attr, 'tgt': tgt, 'scale': rng.choice([1.0, -1.0, 0.5, 2.0]),
                                'offset': dyadic(rng, -2, 2, 3) if attr != 'conic' else dyadic(rng, -0.5, 0.5, 3)})
                written.add((attr, tgt))
        if rng.random() < 0.35 and not any(p['attr'] == 'thickness' for p in pickups):
            idx = rng.choice([n + 1, n + 1, rng.randint(2, n + 1)])
            solves.append({'idx': idx, 'height': 0.0 if idx == n + 1 else dyadic(rng, 0.25, 1.5, 3)})
            written.add(('thickness', idx - 1))
        if coupled:
            # a radius pickup whose target lies in front of an image-distance solve, the source radius a variable:
            # every update() has to apply the pickup before the solve
            curved = [k for k in range(1, n + 1) if desc['surfaces'][k]['radius'] != 'inf'
                      and desc['surfaces'][k].get('surface_type', 'standard') == 'standard']
            if len(curved) < 2:
                continue
            src, tgt = rng.sample(curved, 2)
            pickups = [{'src': src, 'attr': 'radius', 'tgt': tgt, 'scale': rng.choice([1.0, -1.0, 0.5, 2.0]),
                        'offset': dyadic(rng, -2, 2, 3)}]
            solves = [{'idx': n + 1, 'height': 0.0}]
            written = {('radius', tgt), ('thickness', n)}
            want_kinds = ['radius']
            cand = [c for c in candidates(desc, rng)
                    if (c['type'], c['surface_number']) == ('radius', src)] + cand
        cand = [c for c in cand if (c['type'], c['surface_number']) not in written]
        if not cand:
            continue
        try:
            o = build_lens({'desc': desc, 'pickups': pickups, 'solves': solves})
        except Exception:
            continue
        if o is None:
            continue
        nv = nvars or rng.choice([1, 1, 2, 2, 3])
        vs, used = [], set()
        pool = list(cand)
        rng.shuffle(pool)
        if want_kinds:
            pool.sort(key=lambda c: 0 if c['type'] in want_kinds else 1)
        if pickups and (coupled or rng.random() < 0.6):
            # the source of a pickup as a variable: every probe of the optimiser must carry the target along, and
            # a solve behind the target must see the new target (order of pickups and solves in update())
            srcs = [c for c in pool if any(c['type'] == p['attr'] and c['surface_number'] == p['src'] for p in pickups)]
            pool = srcs + [c for c in pool if c not in srcs]
        obj0 = [c for c in pool if c['type'] == 'thickness' and c['surface_number'] == 0]
        if obj0 and rng.random() < 0.35:
            pool = obj0 + [c for c in pool if c not in obj0]      # the object distance of a finite-conjugate lens
        mg = [c for c in pool if c.get('mangin')]
        if mg and rng.random() < 0.7:
            m = mg[0]
            partner = [c for c in pool if c['type'] == 'index' and c['surface_number'] == m['surface_number'] - 1]
            pool = partner + [m] + [c for c in pool if c is not m and c not in partner]
            nv = max(nv, 2)
        for c in pool:
            if len(vs) >= nv:
                break
            if slot(c) in used:
                continue
            # a radius variable on a surface and a conic pickup/variable are independent; keep distinct slots only
            used.add(slot(c))
            d = dict(c)
            d['apply_scaling'] = rng.random() < 0.6
            raw = raw_of(o, d)
            if not math.isfinite(raw):
                continue
            bounded = all_bounded if all_bounded is not None else (rng.random() < 0.6)
            hw = bound_halfwidth(d, raw)
            lo, hi = raw - hw * rng.choice([0.5, 1.0]), raw + hw * rng.choice([0.5, 1.0])
            if d['type'] == 'index':
                lo = max(lo, 1.05)
            if bounded:
                if d['type'] != 'index' and rng.random() < 0.2:
                    # a limit of exactly 0 (non-negative air space, conic limited to [.., 0], one-sided tilt ...)
                    if raw >= 0:
                        lo = 0.0
                    else:
                        hi = 0.0
                d['min_val'], d['max_val'] = lo, hi
                if all_bounded is None and rng.random() < 0.25:
                    d[rng.choice(['min_val', 'max_val'])] = None
            else:
                d['min_val'] = d['max_val'] = None
            if one_sided:
                # one limit only, close to the start: whichever way the optimiser wants to go, one of the two
                # variants of the run meets its limit
                w = hw * rng.choice([0.01, 0.05])
                d['min_val'], d['max_val'] = (raw - w, None) if one_sided == 'min' else (None, raw + w)
                if d['type'] == 'index' and d['min_val'] is not None:
                    d['min_val'] = max(d['min_val'], 1.05)
            vs.append(d)
        if not vs:
            continue
        ops = gen_operands(rng, o, paraxial_only=paraxial_only)
        pd = {'desc': desc, 'pickups': pickups, 'solves': solves, 'variables': vs, 'operands': ops}
        try:
            with warnings.catch_warnings():
                warnings.simplefilter('ignore')
                _o, _pb = build_problem(pd)
                f0 = float(_pb.sum_squared())
        except Exception:
            continue
        if not math.isfinite(f0):
            continue            # domain: the merit function is finite on the start lens
        return pd
    raise RuntimeError('no problem generated')


def build_lens(pd):
    """the real Optic; None when the start lens is not consistent (pickups / solves not a fixed point)"""
    with contextlib.redirect_stdout(io.StringIO()):
        o = lensgen.build(pd['desc'])
    for p in pd['pickups']:
        o.pickups.add(p['src'], p['attr'], p['tgt'], scale=p['scale'], offset=p['offset'])
    for s in pd['solves']:
        o.solves.add('marginal_ray_height', s['idx'], s['height'])
    o.update()
    a = snap(o)
    o.update()
    b = snap(o)
    if not snaps_close(a, b) or not all(math.isfinite(v) for v in b['z'][1:]):
        return None
    return o


def build_problem(pd):
    from optiland.optimization import optimization
    o = build_lens(pd)
    if o is None:
        return None, None
    pb = optimization.OptimizationProblem()
    for op in pd['operands']:
        data = dict(op['data'])
        data['optic'] = o
        pb.add_operand(op['type'], op['target'], op['weight'], data)
    for d in pd['variables']:
        kw = {k: (tuple(v) if k == 'coeff_index' else v) for k, v in d.items()
              if k in ('surface_number', 'axis', 'coeff_number', 'coeff_index', 'wavelength')}
        with contextlib.redirect_stdout(io.StringIO()):
            pb.add_variable(o, d['type'], min_val=d.get('min_val'), max_val=d.get('max_val'),
                            apply_scaling=d['apply_scaling'], **kw)
    return o, pb


# ------------------------------------------------------------------ snapshots
FIELDS = ('z', 'radius', 'conic', 'n', 'rx', 'ry', 'dx', 'dy')


def snap(o):
    s = c01.snap(o)
    poly = {}
    for k, sf in enumerate(o.surface_group.surfaces):
        if type(sf.geometry).__name__ in ('PolynomialGeometry', 'ChebyshevPolynomialGeometry'):
            poly[k] = [[float(v) for v in row] for row in np.asarray(sf.geometry.c, dtype=float)]
    s['poly'] = poly
    return s


def mat_at(m, i, j):
    return m[i][j] if i < len(m) and j < len(m[i]) else 0.0


def mats_close(a, b, rtol=1e-9, atol=1e-12):
    r = max(len(a), len(b))
    c = max([len(x) for x in a] + [len(x) for x in b] + [0])
    return all(close(mat_at(a, i, j), mat_at(b, i, j), rtol, atol) for i in range(r) for j in range(c))


def snaps_close(a, b, rtol=1e-9, atol=1e-9):
    """observable prescription equal (tables modulo zero padding)"""
    for f in FIELDS:
        if len(a[f]) != len(b[f]):
            return False
        for x, y in zip(a[f], b[f]):
            if not close(x, y, rtol, atol):
                return False
    if len(a['coeffs']) != len(b['coeffs']):
        return False
    for x, y in zip(a['coeffs'], b['coeffs']):
        if len(x) != len(y) or not all(close(u, v, rtol, 1e-300) for u, v in zip(x, y)):
            return False
    if set(a['poly']) != set(b['poly']):
        return False
    return all(mats_close(a['poly'][k], b['poly'][k]) for k in a['poly'])


def snap_diff(a, b):
    out = {}
    for f in FIELDS + ('coeffs', 'poly'):
        if a[f] != b[f]:
            out[f] = [a[f], b[f]]
    return out


# ------------------------------------------------------------------ driver encoding
def lens_tokens(pd):
    desc = pd['desc']
    surfs = desc['surfaces']
    ops = [['aw', fhex(W0), '1']]
    tables = []
    for s in surfs:
        st = s.get('surface_type', 'standard')
        if st in ('polynomial', 'chebyshev'):
            a = {k: v for k, v in s.items() if k not in ('surface_type', 'coefficients', 'norm_x', 'norm_y')}
            t = c01.op_tokens(('add', a))
            t[2] = 'y' if st == 'polynomial' else 'c'
            c = s['coefficients']
            tables.append([str(s['index']), str(len(c)), str(len(c[0]))] + [fhex(v) for row in c for v in row])
        else:
            t = c01.op_tokens(('add', s))
        ops.append(t)
    for p in pd['pickups']:
        ops.append(c01.op_tokens(('pk', p['src'], p['attr'], p['tgt'], p['scale'], p['offset'])))
    for s in pd['solves']:
        ops.append(c01.op_tokens(('sv', s['idx'], s['height'])))
    ops.append(['up'])
    ops.append(['up'])
    head = [desc['aperture'][0], fhex(desc['aperture'][1]), 'angle', fhex(max(f[0] for f in desc['fields'])),
            b01(surfs[0]['thickness'] == 'inf'), str(len(ops))]
    toks = head
    for t in ops:
        toks = toks + t
    toks.append(str(len(tables)))
    for t in tables:
        toks = toks + t
    return toks


def var_tokens(d):
    t = d['type']
    if t in ('radius', 'conic', 'thickness', 'index'):
        k = [t]
    elif t == 'tilt':
        k = ['tilt' + d['axis']]
    elif t == 'decenter':
        k = ['dec' + d['axis']]
    elif t == 'asphere_coeff':
        k = ['asph', str(d['coeff_number'])]
    elif t == 'polynomial_coeff':
        k = ['poly', str(d['coeff_index'][0]), str(d['coeff_index'][1])]
    else:
        k = ['cheb', str(d['coeff_index'][0]), str(d['coeff_index'][1])]
    out = k + [str(d['surface_number']), b01(d['apply_scaling'])]
    for key in ('min_val', 'max_val'):
        v = d.get(key)
        out += ['0'] if v is None else ['1', fhex(v)]
    return out


def parse_lens_out(part):
    """`snapshot | tables` -> snapshot dict incl. 'poly'"""
    sn, tb = part.split(' | ')
    status, m = c01.parse_snapshot(sn)
    t = Toks(tb)
    poly = {}
    for _ in range(t.nat()):
        k = t.nat()
        r = t.nat()
        c = t.nat()
        poly[k] = [[t.flt() for _ in range(c)] for _ in range(r)]
    m['poly'] = poly
    return m


def opt_or_none(tok):
    from .core import unhex
    return None if tok == 'none' else unhex(tok)


# ------------------------------------------------------------------ comparison helpers
def cmp_snap(ctx, what, impl, model, case):
    for f in FIELDS:
        if not ctx.cmp_list('%s: %s' % (what, f), impl[f], model[f], case, rtol=1e-9, atol=1e-9):
            return False
    if [len(c) for c in impl['coeffs']] != [len(c) for c in model['coeffs']]:
        ctx.disagreements.append({'what': what + ': coeffs shape', 'impl': impl['coeffs'], 'model': model['coeffs'],
                                  'case': case})
        return False
    for k, (a, b) in enumerate(zip(impl['coeffs'], model['coeffs'])):
        if not ctx.cmp_list('%s: coeffs[%d]' % (what, k), a, b, case, rtol=1e-9, atol=1e-300):
            return False
    ip = {k: v for k, v in impl['poly'].items()}
    mp = {k: v for k, v in model['poly'].items()}
    if set(ip) != set(mp) or not all(mats_close(ip[k], mp[k]) for k in ip):
        ctx.disagreements.append({'what': what + ': coefficient tables', 'impl': ip, 'model': mp, 'case': case})
        return False
    return True


def snap_agrees(impl, model):
    return snaps_close(impl, model)


# ------------------------------------------------------------------ part 1: one variable
def variable_case(ctx, lines, keep, pd, vi, xoff):
    from optiland.optimization.variable import Variable
    d = pd['variables'][vi]
    case = {'kind': 'variable', 'problem': pd, 'var': vi, 'xoff': xoff}
    o = build_lens(pd)
    if o is None:
        ctx.count('variable: start lens not consistent')
        return
    kw = {k: (tuple(v) if k == 'coeff_index' else v) for k, v in d.items()
          if k in ('surface_number', 'axis', 'coeff_number', 'coeff_index', 'wavelength')}
    try:
        with contextlib.redirect_stdout(io.StringIO()):
            var = Variable(o, d['type'], min_val=d.get('min_val'), max_val=d.get('max_val'),
                           apply_scaling=d['apply_scaling'], **kw)
        raw0 = raw_of(o, d)
        v0 = float(var.value)
        x = v0 + xoff * (abs(v0) + 1e-3)
        sc = float(var.variable.scale(x))
        inv = float(var.variable.inverse_scale(x))
        bnd = var.bounds
        before = snap(o)
        var.update(x)
        v1 = float(var.value)
        raw1 = raw_of(o, d)
        after = snap(o)
    except Exception as e:  # noqa
        ctx.fail('every variable call with valid arguments succeeds', case, type(e).__name__ + ': ' + str(e))
        return
    ctx.count('variable:%s:%s:%s' % (d['type'], 'scaled' if d['apply_scaling'] else 'unscaled',
                                     'bounded' if (d.get('min_val') is not None or d.get('max_val') is not None)
                                     else 'free'))
    for g in ('0', '1'):
        lines.append('optvar ' + g + ' ' + ' '.join(lens_tokens(pd) + var_tokens(d) + [fhex(x)]))
    keep.append(('variable', case, {'v0': v0, 'x': x, 'scale': sc, 'inv': inv, 'bounds': bnd, 'v1': v1,
                                    'after': after}))
    # ---- predicate: faithful handle
    tol = lambda a, b: close(a, b, 1e-12, 1e-300 if d['type'] in ('asphere_coeff',) else 1e-14)  # noqa
    exp_v0 = spec_scale(d, raw0) if d['apply_scaling'] else raw0
    if not close(v0, exp_v0, 1e-12, 1e-15):
        ctx.fail('value is the lens quantity (scaled iff apply_scaling)', case, v0, exp_v0)
    if not close(v1, x, 1e-11, 1e-15):
        ctx.fail('setting then reading returns the value set', case, v1, x)
    exp_raw1 = spec_unscale(d, x) if d['apply_scaling'] else x
    if not close(raw1, exp_raw1, 1e-11, 1e-15):
        ctx.fail('update writes inverse_scale(x) (x itself when unscaled) into the lens', case, raw1, exp_raw1)
    # (radius: v/100 - 1 and back: the offset 1 costs an absolute 1e-14 in the lens quantity)
    if not close(float(var.variable.scale(var.variable.inverse_scale(x))), x, 1e-12, 1e-13) or \
            not close(float(var.variable.inverse_scale(var.variable.scale(x))), x, 1e-12, 1e-13):
        ctx.fail('scale and inverse_scale are mutually inverse', case, [sc, inv], x)
    if not close(sc, spec_scale(d, x), 1e-12, 1e-15) or not close(inv, spec_unscale(d, x), 1e-12, 1e-15):
        ctx.fail('scale / inverse_scale follow the documented scaling of the type', case, [sc, inv],
                 [spec_scale(d, x), spec_unscale(d, x)])
    # nothing else moved (frame): every observable not belonging to this variable is unchanged
    moved = {f for f in FIELDS + ('coeffs', 'poly') if before[f] != after[f]}
    allowed = {'radius': {'radius'}, 'conic': {'conic'}, 'thickness': {'z'}, 'index': {'n'},
               'asphere_coeff': {'coeffs'}, 'polynomial_coeff': {'poly'}, 'chebyshev_coeff': {'poly'},
               'tilt': {'rx', 'ry'}, 'decenter': {'dx', 'dy'}}[d['type']]
    if moved - allowed:
        ctx.fail('update changes only the quantity the variable names', case, sorted(moved - allowed))
    # ---- predicate: bounds in the units of the value (F5)
    for which, key in ((0, 'min_val'), (1, 'max_val')):
        lim = d.get(key)
        got = bnd[which]
        if lim is None:
            if got is not None:
                ctx.fail('an absent limit gives no bound', case, got)
            continue
        exp = spec_scale(d, lim) if d['apply_scaling'] else lim
        if got is None or not close(float(got), exp, 1e-12, 1e-15):
            wrong = spec_scale(d, lim)
            fk = 'bounds-scaled-when-unscaled' if (f5_affected(d) and got is not None
                                                   and close(float(got), wrong, 1e-12, 1e-15)) else None
            ctx.fail('bounds are expressed in the same units as the value', case,
                     {'bound': None if got is None else float(got), 'value': v0, 'limit': lim}, exp, finding_key=fk)


def compare_variable(ctx, case, impl, out):
    head, rest = out.split(' | ', 1)
    t = head.split()
    from .core import unhex
    v0, sc, inv = [unhex(z) for z in t[:3]]
    bc = (opt_or_none(t[3]), opt_or_none(t[4]))
    bs = (opt_or_none(t[5]), opt_or_none(t[6]))
    v1 = unhex(t[7])
    a = 1e-14        # scalings add constants of order 1: a re-associated formula differs by ~1e-16 absolute
    ctx.cmp('variable.value', impl['v0'], v0, case, rtol=1e-9, atol=a)
    ctx.cmp('variable.scale(x)', impl['scale'], sc, case, rtol=1e-9, atol=a)
    ctx.cmp('variable.inverse_scale(x)', impl['inv'], inv, case, rtol=1e-9, atol=a)
    ctx.cmp('variable.value after update', impl['v1'], v1, case, rtol=1e-9, atol=a)

    def same(b, m):
        return all((x is None and y is None) or (x is not None and y is not None and close(float(x), y, 1e-9, a))
                   for x, y in zip(b, m))
    if same(impl['bounds'], bc):
        ctx.count('bounds agree with boundsCode')
    elif same(impl['bounds'], bs):
        ctx.count('bounds agree with boundsSpec (F5 repaired upstream)')
    else:
        ctx.disagreements.append({'what': 'variable.bounds', 'impl': [None if x is None else float(x)
                                                                      for x in impl['bounds']],
                                  'model': {'code': bc, 'spec': bs}, 'case': case})
    cmp_snap(ctx, 'prescription after update', impl['after'], parse_lens_out(rest), case)


# ------------------------------------------------------------------ part 2: merit
def merit_case(ctx, lines, keep, pd):
    case = {'kind': 'merit', 'problem': pd}
    o, pb = build_problem(pd)
    if o is None:
        return
    with warnings.catch_warnings():
        warnings.simplefilter('ignore')
        try:
            vals = [float(np.ravel(op.value)[0]) for op in pb.operands]
            ss = float(pb.sum_squared())
            fa = [float(v) for v in np.ravel(pb.fun_array())]
            deltas = [float(np.ravel(op.delta())[0]) for op in pb.operands]
            funs = [float(np.ravel(op.fun())[0]) for op in pb.operands]
            rss = float(pb.rss())
        except Exception as e:  # noqa
            ctx.count('merit: operand raised ' + type(e).__name__)
            return
    w = [float(op.weight) for op in pb.operands]
    t = [float(op.target) for op in pb.operands]
    exp = 0.0
    for wi, vi, ti in zip(w, vals, t):
        exp += (wi * (vi - ti)) ** 2
    if not close(ss, exp, 1e-12, 1e-300):
        ctx.fail('sum_squared() = sum over operands of (weight (value - target))^2', case, ss, exp)
    for i, (wi, vi, ti) in enumerate(zip(w, vals, t)):
        if not close(deltas[i], vi - ti, 1e-13, 1e-300) or not close(funs[i], wi * (vi - ti), 1e-13, 1e-300) \
                or not close(fa[i], (wi * (vi - ti)) ** 2, 1e-12, 1e-300):
            ctx.fail('delta = value - target, fun = weight delta, fun_array = fun^2 (operand %d)' % i, case,
                     [deltas[i], funs[i], fa[i]], [vi - ti, wi * (vi - ti)])
    if not close(rss, math.sqrt(exp) if exp == exp else exp, 1e-12, 1e-300):
        ctx.fail('rss() = sqrt(sum_squared())', case, rss, math.sqrt(exp))
    ctx.count('merit: %d operands' % len(w))
    rows = []
    for wi, vi, ti in zip(w, vals, t):
        rows += [fhex(wi), fhex(vi), fhex(ti)]
    lines.append('merit %d %s' % (len(w), ' '.join(rows)))
    keep.append(('merit', case, {'ss': ss}))


# ------------------------------------------------------------------ part 3: optimiser runs
FRONTS = {
    'generic': lambda opt, kw: opt.OptimizerGeneric,
    'least_squares': lambda opt, kw: opt.LeastSquares,
    'dual_annealing': lambda opt, kw: opt.DualAnnealing,
    'differential_evolution': lambda opt, kw: opt.DifferentialEvolution,
}


def code_bounds_contain(pb, x0):
    for v, x in zip(pb.variables, x0):
        lo, hi = v.bounds
        if (lo is not None and x < lo - 1e-12) or (hi is not None and x > hi + 1e-12):
            return False
    return True


def merit_now(pb):
    with warnings.catch_warnings():
        warnings.simplefilter('ignore')
        try:
            return float(pb.sum_squared())
        except Exception:
            return math.nan


def guard(v):
    return 1e10 if v != v else v


def run_case(ctx, lines, keep, case):
    """one optimiser object, a sequence of optimise / undo; predicate on the spot, model lines appended"""
    global _LOG, _TOLS
    from optiland.optimization import optimization
    from optiland.tolerancing.compensator import CompensatorOptimizer
    pd = case['problem']
    front, kw, seq = case['front'], case['kw'], case['seq']
    o, pb = build_problem(pd)
    if o is None:
        ctx.count('run: start lens not consistent')
        return
    variables = pd['variables']
    has_f5 = any(f5_affected(d) for d in variables)
    compens = front.startswith('compensator')
    if compens:
        comp = CompensatorOptimizer(method=front.split(':')[1], tol=kw.get('tol', 1e-5))
        comp.operands = pb.operands
        comp.variables = pb.variables
        pb = comp
        optimizer = None
    else:
        try:
            with warnings.catch_warnings():
                warnings.simplefilter('ignore')
                optimizer = FRONTS[front](optimization, kw)(pb)
        except Exception as e:  # noqa
            ctx.count('run: merit function cannot be evaluated on the start lens (%s) - skipped' % type(e).__name__)
            return
    stack = []          # independent specification of undo: snapshots before the matching optimise
    steps_out = []      # per step: impl values + snapshot, log, result
    ctx.count('front:' + front + (':' + str(kw.get('method')) if front == 'generic' else '')
              + (':workers=%s' % kw['workers'] if 'workers' in kw else ''))
    ctx.count('problem: %d vars, %d operands, %d pickups, %d solves' % (
        len(variables), len(pd['operands']), len(pd['pickups']), len(pd['solves'])))
    unsettled = False
    for si, step in enumerate(seq):
        before = snap(o)
        if step == 'opt':
            if unsettled:
                # an earlier undo left pickups / solves unsatisfied (F6b): the lens is not a consistent start
                ctx.count('run cut: lens not consistent before optimise (consequence of undo-without-update)')
                break
            f_start = merit_now(pb)
            if not math.isfinite(f_start):
                # (a previous optimise left the lens at a probe where the merit function is not finite)
                ctx.count('run cut: merit function not finite at the start of an optimise - outside the domain')
                break
            x0 = [float(v.value) for v in pb.variables]
            inside = code_bounds_contain(pb, x0)
            _LOG = []
            tols_before = var_tols(o, variables)
            np.random.seed(case['np_seed'] + si)
            err = None
            try:
                with contextlib.redirect_stdout(io.StringIO()), warnings.catch_warnings():
                    warnings.simplefilter('ignore')
                    if compens:
                        res = pb.run()
                    else:
                        res = optimizer.optimize(**kw)
            except Exception as e:  # noqa
                err = e
            log, _LOG = _LOG, None
            after = snap(o)
            _TOLS = [max(p, q) for p, q in zip(tols_before, var_tols(o, variables))]
            chain, e_ = [], err
            while e_ is not None and len(chain) < 6:
                chain.append(str(e_))
                e_ = e_.__cause__ or e_.__context__
            if err is not None and any('Chebyshev input coordinates' in m for m in chain):
                # (differential_evolution wraps an exception of the objective in its own RuntimeError)
                # a probe left the normalisation square of a Chebyshev surface: the geometry refuses the ray
                # (C02's domain), the run is abandoned
                ctx.count('run abandoned: probe outside the Chebyshev normalisation square')
                return
            if err is not None and isinstance(err, ValueError) and 'bounds' in str(err).lower() \
                    and kw.get('method') in NO_BOUNDS_METHODS:
                # a front end that refuses bounds for a method without bound support (F-C14-1 repaired upstream)
                ctx.count('bounded problem refused for a method without bound support')
                break
            if err is not None:
                fk = 'bounds-scaled-when-unscaled' if (has_f5 and not inside) else None
                if fk is None and isinstance(err, ValueError):
                    # x0 outside the bounds by read-back rounding only (the lens sits on a bound)
                    clipped = []
                    for v, x in zip(pb.variables, x0):
                        lo, hi = v.bounds
                        clipped.append(min(max(x, lo if lo is not None else x), hi if hi is not None else x))
                    on_bound = any((lo is not None and vec_close([x], [lo])) or (hi is not None and vec_close([x], [hi]))
                                   for (lo, hi), x in zip([v.bounds for v in pb.variables], x0))
                    if vec_close(clipped, x0) and (clipped != x0 or on_bound):
                        # (x0 exactly on a bound: differential_evolution's own normalisation (x - mean)/range + 0.5
                        #  rounds it to 1 + 2^-52 and refuses it as well)
                        fk = 'x0-rounding-outside-bounds'
                ctx.fail('optimize() with valid arguments returns', case,
                         {'step': si, 'error': type(err).__name__ + ': ' + str(err)[:200], 'x0': x0,
                          'code_bounds': [[None if b is None else float(b) for b in v.bounds] for v in pb.variables]},
                         finding_key=fk)
                ctx.count('optimize raised: ' + type(err).__name__)
                # the tree pushes x0 before scipy is called: keep the independent stack in step
                stack.append(before)
                steps_out.append(('opt', [float(v.value) for v in pb.variables], after, log, None))
                continue
            stack.append(before)
            xs = [float(v) for v in np.ravel(res.x)]
            fstar = float(np.ravel(res.fun)[0])
            vals = [float(v.value) for v in pb.variables]
            ss = merit_now(pb)
            ctx.count('evaluations in process', len(log))
            steps_out.append(('opt', vals, after, log, xs))
            check_after_optimize(ctx, case, si, o, pb, variables, log, x0, xs, fstar, vals, ss, f_start, inside,
                                 has_f5, after)
        else:
            try:
                optimizer.undo()
            except Exception as e:  # noqa
                ctx.fail('undo() returns', case, {'step': si, 'error': type(e).__name__})
                break
            after = snap(o)
            vals = [float(v.value) for v in pb.variables]
            steps_out.append(('undo', vals, after, None, None))
            if stack:
                want = stack.pop()
                ctx.count('undo with history')
            else:
                want = before
                ctx.count('undo on empty history')
            if not snaps_close(after, want):
                fk = None
                if poisoned(after) or poisoned(before):
                    fk = 'nan-poisoned-lens'
                elif pd['pickups'] or pd['solves']:
                    # exactly the defect "undo does not call update_optics": one update() repairs it
                    o2 = copy.deepcopy(o)
                    o2.update()
                    if snaps_close(snap(o2), want):
                        fk = 'undo-without-update'
                        unsettled = True
                ctx.fail('undo() restores the lens to its state before the run', case,
                         {'step': si, 'differs': snap_diff(after, want)}, None, finding_key=fk)
    # model lines: optimize variant x undo variant
    n = len(variables)
    base = lens_tokens(pd) + [str(n)]
    for d in variables:
        base += var_tokens(d)
    if not steps_out:
        return
    for g, ov, uv in VARIANTS:
        if True:
            toks = [str(g)] + base + [str(len(steps_out))]
            for kind, vals, after, log, xs in steps_out:
                if kind == 'opt':
                    toks += ['opt', str(ov) if xs is not None else '0', str(len(log))]
                    for x, _ in log:
                        toks += [fhex(v) for v in x]
                    toks += [fhex(v) for v in (xs if xs is not None else vals)]
                else:
                    toks += ['undo', str(uv)]
            lines.append('optrun ' + ' '.join(toks))
    keep.append(('run', case, steps_out))


NO_BOUNDS_METHODS = ('BFGS', 'CG', 'Newton-CG', 'dogleg', 'trust-ncg', 'trust-exact', 'trust-krylov')


def poisoned(sn):
    """vertex positions behind the object are not finite: no later set_thickness / solve can repair them"""
    return not all(math.isfinite(v) for v in sn['z'][1:])


EPS = 2.0 ** -52
_TOLS = None     # per-variable read-back rounding bounds of the run being checked


def var_tols(o, variables):
    """bound on |value(update(x)) - x| from rounding alone: a few ulps of the quantities the handle combines
    (a thickness is a difference of vertex positions, scalings add constants of order 1)"""
    zs = [abs(float(np.ravel(z)[0])) for z in o.surface_group.positions]
    zmax = max([z for z in zs if math.isfinite(z)] + [0.0])
    out = []
    for d in variables:
        m = 2.0
        if d['type'] == 'thickness':
            m += zmax / (10.0 if d['apply_scaling'] else 1.0)
        out.append(m)
    return out


def vec_close(a, b):
    """equal up to the rounding of value(update(x)) (a finite-difference probe differs by >= 1e-8 relative)"""
    if len(a) != len(b):
        return False
    tols = _TOLS if (_TOLS is not None and len(_TOLS) == len(a)) else [2.0] * len(a)
    for p, q, m in zip(a, b, tols):
        if not close(p, q, 1e-13, 16 * EPS * (m + max(abs(p), abs(q)) if math.isfinite(p) and math.isfinite(q)
                                               else m)):
            return False
    return True


def f5_excursion(pb, variables, points):
    """some evaluated / returned point has an F5-affected variable outside its real limits though inside the
    limits the tree handed to scipy"""
    for i, d in enumerate(variables):
        if not f5_affected(d):
            continue
        lo, hi = d.get('min_val'), d.get('max_val')
        clo, chi = pb.variables[i].bounds
        for x in points:
            r = float(x[i])          # unscaled variable: the vector entry is the lens quantity
            tol = 1e-7 * max(1.0, abs(r))
            out_true = (lo is not None and r < lo - tol) or (hi is not None and r > hi + tol)
            in_code = (clo is None or r >= clo - 1e-7) and (chi is None or r <= chi + 1e-7)
            if out_true and in_code:
                return True
    return False


def check_after_optimize(ctx, case, si, o, pb, variables, log, x0, xs, fstar, vals, ss, f_start, inside, has_f5, after):
    pd = case['problem']
    last = [float(v) for v in log[-1][0]] if log else x0
    at_solution = vec_close(vals, xs)
    at_last = vec_close(vals, last)
    pois = poisoned(after)
    pts = [[float(v) for v in x] for x, _ in log]
    hits = [f for x, f in zip(pts, [f for _, f in log]) if vec_close(x, xs)]
    pair_ok = (not hits) or any(close(h, fstar, 1e-9, 1e-12) for h in hits)
    f5_run = has_f5 and ((not inside) or f5_excursion(pb, variables, pts + [xs]))
    method = case['kw'].get('method') if case['front'] == 'generic' else None
    unbounded_method = method in NO_BOUNDS_METHODS and any(
        d.get('min_val') is not None or d.get('max_val') is not None for d in variables)
    if f5_run:
        ctx.count('run explored points outside the real limits of an unscaled bounded variable (F5)')
    # ---- _fun is a function of the point (fun_state_determined, numerically): equal points, equal values
    # (conditioning: cardinal-point operands are differences of vertex positions; a solve on a nearly afocal lens
    # puts the image 1e7 mm away, where one unit in the last place of z is 2e-9 mm)
    zmax = max([abs(float(v)) for v in after.get('z', []) if math.isfinite(float(v))] + [1.0])
    wmax = max([abs(float(od.get('weight', 1.0))) for od in pd['operands']] + [1.0])
    ctol = 1e-12 + 1e-14 * zmax * wmax ** 2
    seen = {}
    for x, f in log:
        key = tuple(fhex(v) for v in x)
        if key in seen and not close(seen[key], f, 1e-9, ctol):
            fk = 'nan-poisoned-lens' if pois else None
            ctx.fail('_fun returns the same value whenever it is called at the same point', case,
                     {'step': si, 'point': [float(v) for v in x], 'values': [seen[key], f]}, None, finding_key=fk)
            break
        seen.setdefault(key, f)
    # ---- variables == result.x
    if not at_solution:
        fk = 'lens-left-at-last-evaluated-point' if at_last else None
        ctx.fail('after optimize() the variable values equal the returned vector', case,
                 {'step': si, 'values': vals, 'last_in_process_evaluation': last if log else 'none (lens untouched)',
                  'evaluations_in_process': len(log)}, xs, finding_key=fk)
    else:
        ctx.count('lens at result.x after optimize')
    # ---- the lens carries the merit value _fun reported for the point it sits at
    if at_last and log and not close(guard(ss), log[-1][1], 1e-9, 1e-12):
        ctx.fail('sum_squared() on the lens equals the value _fun returned for that point', case,
                 {'step': si, 'sum_squared': ss}, log[-1][1], finding_key='nan-poisoned-lens' if pois else None)
    # ---- the returned pair is one of the evaluations
    if not pair_ok:
        ctx.fail('result.fun is the objective at result.x', case,
                 {'step': si, 'result.x': xs, 'values_logged_at_result.x': hits}, fstar,
                 finding_key='scipy-pair-not-an-evaluation')
    # ---- sum_squared() == result.fun
    if not close(guard(ss), fstar, 1e-9, ctol):
        fk = None
        if not at_solution and at_last and (not log or close(guard(ss), log[-1][1], 1e-9, 1e-12)):
            fk = 'lens-left-at-last-evaluated-point'
        elif not pair_ok and any(close(guard(ss), h, 1e-9, 1e-12) for h in hits):
            fk = 'scipy-pair-not-an-evaluation'
        elif pois:
            fk = 'nan-poisoned-lens'
        ctx.fail('re-evaluating the merit function reproduces the returned objective', case,
                 {'step': si, 'sum_squared': ss}, fstar, finding_key=fk)
    # ---- not worse than the start
    if not (fstar <= f_start * (1 + 1e-9) + 1e-12):
        fk = None
        x0_logged = any(vec_close(x, x0) and close(f, f_start, 1e-9, 1e-12) for x, f in zip(pts, [f for _, f in log]))
        if f5_run:
            fk = 'bounds-scaled-when-unscaled'
        elif not pair_ok and any(h <= f_start * (1 + 1e-9) + 1e-12 for h in hits):
            fk = 'scipy-pair-not-an-evaluation'
        elif pois:
            fk = 'nan-poisoned-lens'
        elif x0_logged and hits and pair_ok:
            fk = 'scipy-worse-than-start'      # scipy saw f(x0) and still returned a worse evaluated point
        elif hits and pair_ok and case.get('front') == 'least_squares' and any(
                (lo is not None and abs(x - lo) <= 1e-6 * max(1.0, abs(lo))) or
                (hi is not None and abs(x - hi) <= 1e-6 * max(1.0, abs(hi)))
                for (lo, hi), x in zip([v.bounds for v in pb.variables], x0)):
            # x0 sits on a bound (the usual state after a bounded run): least_squares first moves it strictly inside
            # the bounds and never evaluates the start itself; the point it returns is the best one it evaluated,
            # marginally worse than f(x0), and the front end does not compare (same defect, F-C14-4)
            fk = 'scipy-worse-than-start'
        ctx.fail('the returned objective is not worse than at the start', case,
                 {'step': si, 'result.fun': fstar, 'x0': x0, 'result.x': xs}, f_start, finding_key=fk)
    else:
        ctx.count('not worse than start')
    # ---- bounded variables inside their bounds (lens units), for the returned vector and for the lens
    for i, d in enumerate(variables):
        lo, hi = d.get('min_val'), d.get('max_val')
        if lo is None and hi is None:
            continue
        raw_lens = raw_of(o, d)
        raw_res = spec_unscale(d, xs[i]) if d['apply_scaling'] else xs[i]
        for what, r in (('returned vector', raw_res), ('lens', raw_lens)):
            tol = 1e-7 * max(1.0, abs(r))
            if (lo is not None and r < lo - tol) or (hi is not None and r > hi + tol) or r != r:
                fk = None
                clo, chi = pb.variables[i].bounds
                xv = xs[i] if what == 'returned vector' else vals[i]
                in_code = (clo is None or xv >= clo - 1e-7) and (chi is None or xv <= chi + 1e-7)
                if f5_affected(d) and in_code:
                    fk = 'bounds-scaled-when-unscaled'
                elif unbounded_method:
                    fk = 'bounds-ignored-by-method'
                elif what == 'lens' and not at_solution and at_last and not (
                        (lo is not None and raw_res < lo - tol) or (hi is not None and raw_res > hi + tol)):
                    fk = 'lens-left-at-last-evaluated-point'
                ctx.fail('every bounded variable lies within its bounds (%s)' % what, case,
                         {'step': si, 'variable': i, 'value_in_lens_units': r, 'method': method}, [lo, hi],
                         finding_key=fk)
                break
        else:
            ctx.count('bounded variable inside bounds')
    # ---- pickups and solves satisfied
    if (pd['pickups'] or pd['solves']) and not pois:
        c01.check_update(ctx, case, o, after)


VARIANTS = [(g, ov, uv) for g in (0, 1) for ov in (0, 1) for uv in (0, 1)]


def compare_run(ctx, case, steps_out, outs):
    """outs: eight model answers: solve variant (code / guarded) x optimize variant x undo variant"""
    def agree(out, record):
        parts = out.split(' || ')
        if len(parts) != len(steps_out):
            if record:
                ctx.disagreements.append({'what': 'optrun answer', 'model': out[:300], 'case': case})
            return False
        for i, (part, (kind, vals, after, log, xs)) in enumerate(zip(parts, steps_out)):
            head, rest = part.split(' | ', 1)
            t = Toks(head)
            mv = t.floats()
            m = parse_lens_out(rest)
            what = 'step %d (%s)' % (i, kind)
            if record:
                if not ctx.cmp_list(what + ': variable values', vals, mv, case, rtol=1e-9, atol=1e-12):
                    return False
                if not cmp_snap(ctx, what + ': prescription', after, m, case):
                    return False
            else:
                if len(mv) != len(vals) or not all(close(a, b, 1e-9, 1e-12) for a, b in zip(vals, mv)):
                    return False
                if not snaps_close(after, m):
                    return False
        return True
    names = ['%s/%s/%s' % ('solve' if not g else 'guardedSolve', 'optimizeSpec' if ov else 'optimizeCode',
                           'undoSpec' if uv else 'undoCode') for g, ov, uv in VARIANTS]
    for name, out in zip(names, outs):
        if Toks(out).error:
            ctx.disagreements.append({'what': 'driver error', 'model': out[:300], 'case': case})
            return
    for name, out in zip(names, outs):
        if agree(out, False):
            ctx.count('protocol agrees with ' + name)
            # count the compared values through the recording comparator
            agree(out, True)
            return
    agree(outs[0], True)


# ------------------------------------------------------------------ case lists
GENERIC_METHODS = [None, 'L-BFGS-B', 'SLSQP', 'Nelder-Mead', 'BFGS', 'Powell', 'TNC']
SEQS = [['opt'], ['opt', 'undo'], ['opt', 'undo'], ['opt', 'undo', 'opt'], ['opt', 'opt', 'undo', 'undo', 'undo'],
        ['undo', 'opt', 'undo', 'opt', 'undo'], ['opt', 'opt', 'undo', 'opt', 'undo', 'undo']]


def front_cases(rng, pd, pdb, pdc, thorough, i, pdo=()):
    """runs for one problem triple: pd (any bounds), pdb (all bounded), pdc (paraxial, one variable)"""
    out = []

    def mk(problem, front, kw, seq=None):
        out.append({'kind': 'run', 'problem': problem, 'front': front, 'kw': kw,
                    'seq': seq or rng.choice(SEQS), 'np_seed': rng.randrange(2 ** 31)})
    if thorough:
        methods = [GENERIC_METHODS[i % 7], GENERIC_METHODS[(i + 2 + i // 7) % 7]]
    else:
        methods = [GENERIC_METHODS[i % 4], GENERIC_METHODS[(i + 1 + i // 4) % 7]]
    for m in methods:
        mk(pd, 'generic', {'method': m, 'maxiter': rng.choice([2, 4, 8]), 'disp': False,
                           'tol': rng.choice([1e-3, 1e-6])})
    mk(pd, 'least_squares', {'maxiter': rng.choice([3, 6, 10]), 'disp': False, 'tol': rng.choice([1e-3, 1e-8])})
    if i % 2 == 0:
        mk(pdb, 'dual_annealing', {'maxiter': rng.choice([1, 2, 3]), 'disp': False})
    if i % 2 == 1:
        mk(pdb, 'differential_evolution', {'maxiter': 1, 'disp': False, 'workers': 1})
    if thorough and i % 25 == 0:
        mk(pdb, 'differential_evolution', {'maxiter': 1, 'disp': False, 'workers': 2}, ['opt', 'undo'])
    if i % 3 == 0 or (thorough and i % 2 == 0):
        mk(pdc, 'compensator:' + rng.choice(['generic', 'least_squares']), {'tol': rng.choice([1e-5, 1e-3])}, ['opt'])
    for k, p in enumerate(pdo):
        if p['pickups'] and p['solves']:
            mk(p, 'generic', {'method': rng.choice(['L-BFGS-B', 'Nelder-Mead', 'SLSQP']), 'maxiter': 4, 'disp': False,
                              'tol': 1e-6}, ['opt', 'undo'])
        if (i + k) % 2 == 0:
            mk(p, 'least_squares', {'maxiter': rng.choice([6, 10]), 'disp': False, 'tol': 1e-8}, ['opt'])
        else:
            mk(p, 'compensator:least_squares', {'tol': 1e-5}, ['opt'])
    return out


ALL_KINDS = ['radius', 'conic', 'thickness', 'tilt', 'decenter', 'index', 'asphere_coeff', 'polynomial_coeff',
             'chebyshev_coeff']


def run(tier, seed, replay=None):
    ctx = Ctx('C14', tier, seed)
    ctx.stats['rule'] = ('problems = random lens (2-5 surfaces, conics, aspheres, polynomial/Chebyshev surfaces, '
                         'mirrors, finite/infinite object) + 0-2 pickups + 0-1 marginal-ray-height solve + 1-3 '
                         'variables over the nine types (scaled/unscaled, free/one-sided/bounded) + 1-4 operands '
                         '(paraxial and real-ray); every problem is run through the optimiser front ends with small '
                         'budgets in a random optimise/undo sequence; each variable additionally alone (optvar) and '
                         'the merit function alone (merit); distinct by descriptor hash')
    aud = audit('C14')
    drv = Driver()
    install_logger()
    lines, keep = [], []
    thorough = not ctx.quick()
    rng = ctx.rng
    if replay:
        kind = replay.get('kind')
        if kind == 'variable':
            variable_case(ctx, lines, keep, replay['problem'], replay['var'], replay['xoff'])
        elif kind == 'merit':
            merit_case(ctx, lines, keep, replay['problem'])
        else:
            run_case(ctx, lines, keep, replay)
    else:
        nprob = 600 if thorough else 25
        for i in range(nprob):
            want = [ALL_KINDS[i % 9], ALL_KINDS[(i * 4 + 1) % 9]]
            pd = gen_problem(rng, want_kinds=want)
            pdb = gen_problem(rng, want_kinds=[ALL_KINDS[(i + 3) % 9]], all_bounded=True, nvars=rng.choice([1, 2]))
            pdc = gen_problem(rng, want_kinds=[ALL_KINDS[(i + 5) % 9]], nvars=1, paraxial_only=True)
            pdo = []
            if i % 2 == 0 or thorough:
                base_state = rng.getstate()
                for side in ('min', 'max'):
                    rng.setstate(base_state)      # the same lens and operands, the limit on either side
                    pdo.append(gen_problem(rng, want_kinds=[ALL_KINDS[(i // 2) % 3]], nvars=1, paraxial_only=True,
                                           one_sided=side))
            if i % 3 == 0 or thorough:
                pdo.append(gen_problem(rng, nvars=rng.choice([1, 2]), paraxial_only=True, coupled=True))
            for p in (pd, pdb, pdc):
                for vi in range(len(p['variables'])):
                    variable_case(ctx, lines, keep, p, vi, rng.choice([0.0, 0.03125, -0.0625, 0.25]))
                merit_case(ctx, lines, keep, p)
            for case in front_cases(rng, pd, pdb, pdc, thorough, i, pdo):
                run_case(ctx, lines, keep, case)
    outs = drv.batch(lines)
    pos = 0
    for kind, case, impl in keep:
        ctx.case(case)
        if kind == 'variable':
            out, out_g = outs[pos], outs[pos + 1]
            pos += 2
            if Toks(out).error or Toks(out_g).error:
                ctx.disagreements.append({'what': 'driver error', 'model': out, 'case': case})
                continue
            if out != out_g and not snaps_close(impl['after'], parse_lens_out(out.split(' | ', 1)[1])) \
                    and snaps_close(impl['after'], parse_lens_out(out_g.split(' | ', 1)[1])):
                ctx.count('variable: lens agrees with the guarded solve (F-C14-2 repaired upstream)')
                out = out_g
            compare_variable(ctx, case, impl, out)
        elif kind == 'merit':
            out = outs[pos]
            pos += 1
            if Toks(out).error:
                ctx.disagreements.append({'what': 'driver error', 'model': out, 'case': case})
                continue
            t = Toks(out)
            m_ss, m_fun = t.flt(), t.flt()
            ctx.cmp('sum_squared', impl['ss'], m_ss, case, rtol=1e-12, atol=1e-300)
            if not close(guard(impl['ss']), m_fun, 1e-12, 1e-300):
                ctx.disagreements.append({'what': '_fun guard', 'impl': guard(impl['ss']), 'model': m_fun, 'case': case})
        else:
            compare_run(ctx, case, impl, outs[pos:pos + 8])
            pos += 8
    return finish(ctx, aud,
                  partial=['within_bounds / not_worse: assumptions about scipy (the optimiser returns an evaluated '
                           'point inside the bounds it was given, no worse than x0); theorems *_partial state the '
                           'implication, the clauses themselves are checked numerically on every run',
                           'LensHyp (last write wins, read-back, observability) is proved for every single variable '
                           'type except index on pickup-free lenses; for several variables, pickups and solves it is '
                           'checked numerically (replay of the logged evaluation sequence on the model, value '
                           'logged at result.x vs result.fun)'],
                  assumptions=['scipy is an arbitrary oracle calling _fun on finitely many points',
                               'operand values are functions of the observable prescription',
                               'only in-process calls of _fun touch the lens (worker processes act on copies)',
                               'media are ideal (index independent of wavelength) in generated problems'])
