"""C15  Tolerancing reports true perturbed performance and restores the nominal lens.

Correspondence (hard observables = what the property determines):
  * the perturbation values of every table row (sampler sequences incl. RangeSampler wrap-around,
    order of trials and of `apply()` calls inside a trial)          impl  vs  `Model/Toler.lean`
  * for lenses the prescription model can express: paraxial operand values of every row, the
    recorded compensator read-back, the prescription after run() (tree variant `_code` or
    repaired variant `_spec`, DESIGN section 4) and after reset()    impl  vs  model at Float
  * `np.linspace` / RangeSampler sequences                           impl  vs  model
Soft: the order in which seeded DistributionSamplers consume NumPy's global generator.

Predicate (the property's clauses on the implementation alone, independent specification here):
  rows      every row re-evaluated on a FRESH copy of the nominal lens (rebuilt from its descriptor
            or copy.deepcopy) with the recorded perturbation values written through the public
            setters and (a) the recorded compensator values / (b) the compensator optimiser re-run
            from the nominal start
  nominal   perturbation value = nominal value  =>  nominal operand values
  seeded    the same seeded set-up built twice gives the same table
  restore   prescription (c01.snap + indices at every wavelength + freeform coefficients) before
            run() == after run() == after reset()
"""
import math, copy, io, contextlib, json
import numpy as np
from .core import fhex, b01, Toks, Driver, Ctx, audit, finish, close
from . import lensgen, c01
from .lensgen import dyadic

PARAX_OPS = ['f1', 'f2', 'F1', 'F2', 'EPL', 'XPL']
MODEL_VAR = {'radius': 'radius', 'conic': 'conic', 'thickness': 'thickness', 'index': 'index',
             'asphere_coeff': 'coeff'}
SMALL_SAMPLES = ['simple.Edmund_49_847', 'simple.SingletStopSurf2', 'simple.CementedAchromat',
                 'simple.AsphericSinglet', 'simple.TelescopeDoublet', 'objectives.CookeTriplet',
                 'objectives.TessarLens', 'objectives.TripletTelescopeObjective', 'objectives.PetzvalLens',
                 'objectives.HeliarLens', 'objectives.Telephoto', 'objectives.ReverseTelephoto',
                 'objectives.DoubleGauss', 'infrared.InfraredTriplet', 'infrared.InfraredTripletF4',
                 'eyepieces.EyepieceErfle', 'objectives.LensWithFieldCorrector', 'telescopes.HubbleTelescope',
                 'microscopes.Microscope20x', 'microscopes.UVReflectingMicroscope']


def quiet():
    return contextlib.redirect_stdout(io.StringIO())


# ------------------------------------------------------------------------------ lens handling
def build_lens(ld):
    """ld = {'sample': name} | {'desc': descriptor}, optional 'pickups' / 'solves' (applied by update())"""
    o = lensgen.build_case(ld)
    for p in ld.get('pickups', []):
        o.pickups.add(p[0], p[1], p[2], scale=p[3], offset=p[4])
    for s in ld.get('solves', []):
        o.solves.add('marginal_ray_height', s[0], s[1])
    if ld.get('pickups') or ld.get('solves'):
        o.update()
    return o


def surf(o, k):
    return o.surface_group.surfaces[k]


def zof(o, k):
    return float(np.ravel(surf(o, k).geometry.cs.z)[0])


def gname(o, k):
    return type(surf(o, k).geometry).__name__


def xsnap(o):
    """observable prescription: c01.snap + index at every wavelength of the lens + freeform coefficients"""
    s = c01.snap(o)
    ws = [float(w) for w in o.wavelengths.get_wavelengths()]
    s['n_all'] = [[float(np.ravel(sf.material_post.n(w))[0]) for w in ws] for sf in o.surface_group.surfaces]
    s['k_all'] = [[float(np.ravel(sf.material_post.k(w))[0]) for w in ws] for sf in o.surface_group.surfaces]
    poly = []
    for sf in o.surface_group.surfaces:
        g = sf.geometry
        if type(g).__name__ in ('PolynomialGeometry', 'ChebyshevPolynomialGeometry'):
            poly.append(np.array(g.c, dtype=float).tolist())
        else:
            poly.append([])
    s['polyc'] = poly
    s['aperture'] = [o.aperture.ap_type, float(o.aperture.value)]
    s['fields'] = [[float(f.x), float(f.y)] for f in o.fields.fields]
    s['waves'] = ws
    return s


def _flat_pad(a, b):
    """two coefficient matrices padded with zeros to a common shape (padding is not a change of shape)"""
    A = np.array(a, dtype=float) if len(a) else np.zeros((0, 0))
    B = np.array(b, dtype=float) if len(b) else np.zeros((0, 0))
    if A.ndim != 2 or B.ndim != 2:
        return list(np.ravel(A)), list(np.ravel(B))
    r, c = max(A.shape[0], B.shape[0]), max(A.shape[1], B.shape[1])
    PA, PB = np.zeros((r, c)), np.zeros((r, c))
    PA[:A.shape[0], :A.shape[1]] = A
    PB[:B.shape[0], :B.shape[1]] = B
    return list(np.ravel(PA)), list(np.ravel(PB))


def feq(a, b, rtol=1e-9, atol=1e-9):
    return close(a, b, rtol, atol)


def snap_diff(a, b, rtol=1e-9, atol=1e-9):
    """list of (field, surface, a, b) where two observable prescriptions differ"""
    out = []
    for f in ('z', 'radius', 'conic', 'n', 'rx', 'ry', 'dx', 'dy'):
        if len(a[f]) != len(b[f]):
            out.append((f, 'len', len(a[f]), len(b[f])))
            continue
        for i, (x, y) in enumerate(zip(a[f], b[f])):
            if not feq(x, y, rtol, atol):
                out.append((f, i, x, y))
    for f in ('n_all', 'k_all', 'coeffs'):
        for i, (x, y) in enumerate(zip(a[f], b[f])):
            if len(x) != len(y) or any(not feq(u, v, rtol, atol * 1e-6 if f == 'coeffs' else atol) for u, v in zip(x, y)):
                out.append((f, i, x, y))
    for i, (x, y) in enumerate(zip(a['polyc'], b['polyc'])):
        fx, fy = _flat_pad(x, y)
        if any(not feq(u, v, rtol, 1e-15) for u, v in zip(fx, fy)):
            out.append(('polyc', i, x, y))
    # (the identity pattern of the material objects is C01's observable: set_index installs a new object, so
    #  after an index perturbation the pattern legitimately differs while every index value is restored)
    for f in ('stop', 'primary', 'nwaves', 'stop_index', 'aperture', 'fields', 'waves'):
        if a[f] != b[f]:
            out.append((f, None, a[f], b[f]))
    return out


# ------------------------------------------------------------------------------ variables (independent access)
def nominal_value(o, p):
    """value of the perturbed quantity read through plain attributes (not through Variable)"""
    t, kw = p['type'], p['kw']
    k = kw['surface_number']
    g = surf(o, k).geometry
    if t == 'radius':
        return float(g.radius)
    if t == 'thickness':
        return zof(o, k + 1) - zof(o, k)
    if t == 'index':
        return float(np.ravel(surf(o, k).material_post.n(kw['wavelength']))[0])
    if t == 'conic':
        return float(g.k)
    if t == 'asphere_coeff':
        return float(g.c[kw['coeff_number']])
    if t == 'tilt':
        return float(g.cs.rx if kw['axis'] == 'x' else g.cs.ry)
    if t == 'decenter':
        return float(g.cs.x if kw['axis'] == 'x' else g.cs.y)
    if t in ('polynomial_coeff', 'chebyshev_coeff'):
        i, j = kw['coeff_index']
        c = np.array(g.c)
        return float(c[i][j]) if i < c.shape[0] and j < c.shape[1] else 0.0
    raise ValueError(t)


INDEX_SEMANTICS = {'mode': 'ideal'}


def _offset_material(base, delta):
    from optiland.materials.base import BaseMaterial
    cls = globals().get('_OffsetSpec')
    if cls is None:
        class _OffsetSpec(BaseMaterial):
            """specification-side medium: the nominal medium with its index shifted by a constant"""

            def __init__(self, base, delta):
                self.base, self.delta = base, delta

            def n(self, wavelength):
                return self.base.n(wavelength) + self.delta

            def k(self, wavelength):
                return self.base.k(wavelength)
        globals()['_OffsetSpec'] = cls = _OffsetSpec
    return cls(base, delta)


def probe_index_semantics(N, p):
    """what `Variable('index').update(v)` means in the tree: 'ideal' = IdealMaterial(n=v) at every wavelength
    (today), 'offset' = the nominal medium shifted so that n(lambda_var) = v (a repair of F-C15-1 that keeps
    the dispersion).  The rest of the check is evaluated against whichever definition the tree uses."""
    from optiland.optimization.variable import Variable
    f = copy.deepcopy(N)
    k, w = p['kw']['surface_number'], p['kw']['wavelength']
    ws = [float(x) for x in f.wavelengths.get_wavelengths()] + [0.5, 0.6]
    n0 = [float(np.ravel(surf(f, k).material_post.n(x))[0]) for x in ws]
    nv = float(np.ravel(surf(f, k).material_post.n(w))[0])
    v = nv + 0.0123
    Variable(f, 'index', apply_scaling=False, surface_number=k, wavelength=w).update(v)
    n1 = [float(np.ravel(surf(f, k).material_post.n(x))[0]) for x in ws]
    if all(close(a, v) for a in n1):
        return 'ideal'
    if all(close(a - b, 0.0123, 1e-9, 1e-12) for a, b in zip(n1, n0)):
        return 'offset'
    return 'unknown'


def write_value(o, p, v):
    """write the quantity through the public setters of Optic / plain attributes (not through Variable)"""
    t, kw = p['type'], p['kw']
    k = kw['surface_number']
    g = surf(o, k).geometry
    v = float(v)
    if t == 'radius':
        o.set_radius(v, k)
    elif t == 'thickness':
        o.set_thickness(v, k)
    elif t == 'index' and INDEX_SEMANTICS['mode'] == 'offset':
        base = surf(o, k).material_post
        base = getattr(base, 'base', base) if type(base).__name__ == '_OffsetSpec' else base
        m = _offset_material(base, v - float(np.ravel(base.n(kw['wavelength']))[0]))
        surf(o, k).material_post = m
        surf(o, k + 1).material_pre = m
    elif t == 'index':
        o.set_index(v, k)
    elif t == 'conic':
        o.set_conic(v, k)
    elif t == 'asphere_coeff':
        o.set_asphere_coeff(v, k, kw['coeff_number'])
    elif t == 'tilt':
        if kw['axis'] == 'x':
            g.cs.rx = v
        else:
            g.cs.ry = v
    elif t == 'decenter':
        if kw['axis'] == 'x':
            g.cs.x = v
        else:
            g.cs.y = v
    elif t in ('polynomial_coeff', 'chebyshev_coeff'):
        i, j = kw['coeff_index']
        c = np.array(g.c, dtype=float)
        if i >= c.shape[0] or j >= c.shape[1]:
            c2 = np.zeros((max(c.shape[0], i + 1), max(c.shape[1], j + 1)))
            c2[:c.shape[0], :c.shape[1]] = c
            c = c2
        c[i][j] = v
        g.c = c
    else:
        raise ValueError(t)


def unscale(p, s):
    """inverse of the documented optimisation scaling of each variable type"""
    t = p['type']
    if t == 'radius':
        return (s + 1.0) * 100.0
    if t == 'thickness':
        return (s + 1.0) * 10.0
    if t == 'index':
        return s + 1.5
    if t == 'asphere_coeff':
        return s / 10 ** (4 + 2 * p['kw']['coeff_number'])
    return s


def scale(p, v):
    t = p['type']
    if t == 'radius':
        return v / 100.0 - 1.0
    if t == 'thickness':
        return v / 10.0 - 1.0
    if t == 'index':
        return v - 1.5
    if t == 'asphere_coeff':
        return v * 10 ** (4 + 2 * p['kw']['coeff_number'])
    return v


def var_kwargs(p):
    kw = dict(p['kw'])
    if 'coeff_index' in kw:
        kw['coeff_index'] = tuple(kw['coeff_index'])
    return kw


def var_title(p):
    t, kw = p['type'], p['kw']
    k = kw['surface_number']
    return {'radius': 'Radius of Curvature, Surface %d' % k, 'thickness': 'Thickness, Surface %d' % k,
            'index': 'Refractive Index, Surface %d' % k, 'conic': 'Conic Constant, Surface %d' % k,
            'asphere_coeff': 'Asphere Coeff. %s, Surface %d' % (kw.get('coeff_number'), k),
            'tilt': 'Tilt %s, Surface %d' % (str(kw.get('axis')).upper(), k),
            'decenter': 'Decenter %s, Surface %d' % (str(kw.get('axis')).upper(), k),
            'polynomial_coeff': 'Poly. Coeff. %s, Surface %d' % (tuple(kw.get('coeff_index', ())), k),
            'chebyshev_coeff': 'Chebyshev Coeff. %s, Surface %d' % (tuple(kw.get('coeff_index', ())), k)}[t]


def make_sampler(sd):
    from optiland.tolerancing.perturbation import ScalarSampler, RangeSampler, DistributionSampler
    if sd['kind'] == 'scalar':
        return ScalarSampler(sd['value'])
    if sd['kind'] == 'range':
        return RangeSampler(sd['start'], sd['end'], sd['steps'])
    return DistributionSampler(sd['distribution'], seed=sd.get('seed'), **sd['params'])


def operand_input(o, od):
    d = dict(od['input'])
    d['optic'] = o
    return d


def build_tolerancing(o, setup, samplers=True, override_samplers=None):
    from optiland.tolerancing.core import Tolerancing
    tol = Tolerancing(o, method=setup['method'], tol=setup['tol'])
    for od in setup['operands']:
        if 'weight' in od:
            tol.add_operand(od['type'], operand_input(o, od), weight=od['weight'])
        else:
            tol.add_operand(od['type'], operand_input(o, od))
    if samplers:
        for i, p in enumerate(setup['perturbations']):
            sd = override_samplers[i] if override_samplers else p['sampler']
            lim = {}
            if p.get('limits'):
                # documented keyword arguments of the variable: limits are for optimisers; a perturbation must apply
                # the sampled value whether or not it lies inside them
                lim = {'min_val': p['limits'][0], 'max_val': p['limits'][1]}
            tol.add_perturbation(p['type'], make_sampler(sd), **var_kwargs(p), **lim)
    for c in setup['compensators']:
        tol.add_compensator(c['type'], **var_kwargs(c))
    return tol


def evaluate_ops(o, setup):
    from optiland.optimization.operand import Operand
    out = []
    for od in setup['operands']:
        try:
            v = Operand(od['type'], None, 1.0, operand_input(o, od)).value
            out.append(float(np.ravel(v)[0]))
        except Exception as e:  # noqa
            out.append(('error', type(e).__name__))
    return out


def run_analysis(o, setup, override_samplers=None):
    """returns (tolerancing, table as list of dict rows, error class name or None)"""
    from optiland.tolerancing.sensitivity_analysis import SensitivityAnalysis
    from optiland.tolerancing.monte_carlo import MonteCarlo
    tol = build_tolerancing(o, setup, override_samplers=override_samplers)
    an = SensitivityAnalysis(tol) if setup['analysis'] == 'SA' else MonteCarlo(tol)
    try:
        with quiet():
            if setup['analysis'] == 'SA':
                an.run()
            else:
                an.run(setup['n_iter'])
    except Exception as e:  # noqa
        return tol, an, None, type(e).__name__
    df = an.get_results()
    return tol, an, df, None


def table_rows(setup, df):
    """canonical rows: applied [(perturbation number, value)], operand values, compensator values"""
    rows = []
    perts = setup['perturbations']
    titles = [var_title(p) for p in perts]
    nops = len(setup['operands'])
    cols = list(df.columns)
    opcols = [c for c in cols if any(c.startswith('%d: ' % i) for i in range(nops))]
    opcols.sort(key=lambda c: int(c.split(':')[0]))
    ccols = [c for c in cols if c.startswith('C') and ': ' in c and c[1:c.index(':')].isdigit()]
    ccols.sort(key=lambda c: int(c[1:c.index(':')]))
    for r in range(len(df)):
        row = df.iloc[r]
        if setup['analysis'] == 'SA':
            applied = None
        else:
            applied = []
            for i, t in enumerate(titles):
                applied.append((i, float(row[t])))
        rows.append({'applied': applied, 'ptype': row['perturbation_type'] if setup['analysis'] == 'SA' else None,
                     'pvalue': float(row['perturbation_value']) if setup['analysis'] == 'SA' else None,
                     'ops': [float(row[c]) for c in opcols], 'comp': [float(row[c]) for c in ccols]})
    return rows


def sa_assign(setup, rows):
    """SA rows carry only the title of the perturbed variable: recover the perturbation number from the
    documented loop order (perturbations in order, `size` rows each)"""
    k = 0
    for i, p in enumerate(setup['perturbations']):
        for _ in range(p['sampler']['steps'] if p['sampler']['kind'] == 'range' else 0):
            if k < len(rows):
                rows[k]['applied'] = [(i, rows[k]['pvalue'])]
                rows[k]['title_ok'] = (rows[k]['ptype'] == var_title(p))
            k += 1
    return k == len(rows)


# ------------------------------------------------------------------------------ generators
def has_k(o, k):
    return gname(o, k) in ('StandardGeometry', 'EvenAsphere', 'PolynomialGeometry', 'ChebyshevPolynomialGeometry')


def candidate_vars(o, rng, primary_only=False):
    """every variable type that exists on this lens: list of {'type','kw'}"""
    n = len(o.surface_group.surfaces)
    out = []
    ws = [float(w) for w in o.wavelengths.get_wavelengths()]
    wp = float(o.primary_wavelength)
    for k in range(1, n - 1):
        g = surf(o, k).geometry
        name = gname(o, k)
        if name != 'Plane' and math.isfinite(float(g.radius)):
            out.append({'type': 'radius', 'kw': {'surface_number': k}})
        if has_k(o, k):
            out.append({'type': 'conic', 'kw': {'surface_number': k}})
        out.append({'type': 'thickness', 'kw': {'surface_number': k}})
        if not surf(o, k).is_reflective:
            out.append({'type': 'index', 'kw': {'surface_number': k,
                                                'wavelength': wp if primary_only else rng.choice(ws + [wp, wp])}})
        out.append({'type': 'tilt', 'kw': {'surface_number': k, 'axis': rng.choice(['x', 'y'])}})
        out.append({'type': 'decenter', 'kw': {'surface_number': k, 'axis': rng.choice(['x', 'y'])}})
        if name == 'EvenAsphere':
            out.append({'type': 'asphere_coeff', 'kw': {'surface_number': k,
                                                        'coeff_number': rng.randrange(len(g.c))}})
        if name == 'PolynomialGeometry':
            sh = np.array(g.c).shape
            out.append({'type': 'polynomial_coeff', 'kw': {'surface_number': k,
                                                           'coeff_index': [rng.randrange(sh[0] + 1), rng.randrange(sh[1])]}})
        if name == 'ChebyshevPolynomialGeometry':
            sh = np.array(g.c).shape
            out.append({'type': 'chebyshev_coeff', 'kw': {'surface_number': k,
                                                          'coeff_index': [rng.randrange(sh[0]), rng.randrange(sh[1])]}})
    return out


def spread(p, nom, rng, big=False):
    """half-width of a realistic tolerance band for this quantity"""
    t = p['type']
    if t == 'radius':
        return abs(nom) * (0.02 if not big else 0.2)
    if t == 'thickness':
        return 0.05 + 0.02 * abs(nom)
    if t == 'index':
        return 0.01
    if t == 'conic':
        return 0.1
    if t == 'tilt':
        return 0.01
    if t == 'decenter':
        return 0.1
    if t == 'asphere_coeff':
        return max(abs(nom) * 0.2, 1e-9)
    return 1e-6


def gen_sampler(rng, p, nom, kinds, nan_radius=None):
    kind = rng.choice(kinds)
    h = spread(p, nom, rng)
    if kind == 'scalar':
        v = nom if rng.random() < 0.25 else nom + rng.uniform(-h, h)
        return {'kind': 'scalar', 'value': v}
    if kind == 'range':
        steps = rng.choice([1, 2, 3, 3, 4, 5])
        a, b = nom - h * rng.uniform(0.3, 1), nom + h * rng.uniform(0.3, 1)
        if nan_radius is not None:
            b = nan_radius
        if rng.random() < 0.2:
            a, b = b, a
        return {'kind': 'range', 'start': a, 'end': b, 'steps': steps}
    u = rng.random()
    seed = None if u >= 0.85 else 0 if u < 0.15 else rng.randrange(1, 10 ** 6)      # seed 0 is a seed
    if rng.random() < 0.5:
        return {'kind': 'dist', 'distribution': 'normal', 'seed': seed, 'params': {'loc': nom, 'scale': h / 2}}
    return {'kind': 'dist', 'distribution': 'uniform', 'seed': seed, 'params': {'low': nom - h, 'high': nom + h}}


def gen_operands(rng, o, model_ok, want_ray=True):
    n = len(o.surface_group.surfaces)
    ws = [float(w) for w in o.wavelengths.get_wavelengths()]
    wp = float(o.primary_wavelength)
    ops = []
    k = rng.randint(1, 3)
    for _ in range(k):
        u = rng.random()
        if model_ok or u < 0.3 or not want_ray:
            ops.append({'type': rng.choice(PARAX_OPS if model_ok else PARAX_OPS + ['F1', 'P2', 'N1', 'EPD', 'XPD', 'magnification']),
                        'input': {}})
        elif u < 0.6:
            ops.append({'type': rng.choice(['real_y_intercept', 'real_x_intercept', 'real_z_intercept', 'real_M', 'real_N', 'real_L']),
                        'input': {'surface_number': rng.choice([-1, -1, rng.randint(1, n - 1)]),
                                  'Hx': 0.0, 'Hy': rng.choice([0.0, 0.7, 1.0]), 'Px': rng.choice([0.0, 0.3]),
                                  'Py': rng.choice([0.0, 0.5, 1.0, -1.0]), 'wavelength': rng.choice(ws)}})
        elif u < 0.85:
            ops.append({'type': 'rms_spot_size',
                        'input': {'surface_number': -1, 'Hx': 0.0, 'Hy': rng.choice([0.0, 1.0]), 'num_rays': rng.choice([2, 3]),
                                  'wavelength': rng.choice(ws + ['all']), 'distribution': 'hexapolar'}})
        elif u < 0.93:
            ops.append({'type': 'OPD_difference',
                        'input': {'Hx': 0.0, 'Hy': rng.choice([0.0, 1.0]), 'num_rays': 3, 'wavelength': wp,
                                  'distribution': 'gaussian_quad'}})
        else:
            ops.append({'type': rng.choice(['SC_sum', 'CC_sum', 'AC_sum', 'LchC_sum']), 'input': {}})
    return ops


def gen_lens_desc(rng, model_ok):
    """small generated lens; model_ok => expressible in Model/Presc.lean (no catalogue glass, no freeform)"""
    while True:
        d = lensgen.gen_lens(rng, nsurf=rng.randint(1, 4), allow_mirror=rng.random() < 0.15,
                             allow_asphere=rng.random() < 0.5, allow_tilt=rng.random() < 0.3,
                             catalog=(not model_ok) and rng.random() < 0.6, poly=(not model_ok) and rng.random() < 0.4,
                             finite_object=rng.random() < 0.3, ap_types=('EPD',) if rng.random() < 0.7 else ('EPD', 'imageFNO', 'objectNA'),
                             max_field_deg=4.0, stop='any')
        # keep the beam well inside the surfaces (the generator's radii are >= 15)
        if d['aperture'][0] == 'EPD':
            d['aperture'][1] = min(d['aperture'][1], 4.0)
        return d


def gen_setup(rng, idx, tier):
    """one tolerancing set-up descriptor (JSON-able)"""
    flavour = ['model', 'model', 'sample', 'sample', 'generated', 'nan', 'pickup', 'badsampler'][idx % 8] \
        if idx % 40 != 39 else 'badsampler'
    if flavour == 'badsampler' and idx % 40 != 39 and idx % 8 == 7:
        flavour = rng.choice(['model', 'sample', 'generated', 'sample'])
    model_ok = flavour == 'model' or (flavour in ('nan', 'pickup') and rng.random() < 0.5)
    for _attempt in range(20):
        if flavour == 'sample':
            ld = {'sample': rng.choice(SMALL_SAMPLES)}
        else:
            ld = {'desc': gen_lens_desc(rng, model_ok)}
        try:
            o = build_lens(ld)
        except Exception:
            continue
        n = len(o.surface_group.surfaces)
        if n < 3:
            continue
        if flavour == 'pickup':
            nk = n - 2
            if nk >= 2 and rng.random() < 0.5:
                src, tgt = rng.sample(range(1, n - 1), 2)
                if gname(o, src) == 'Plane' or gname(o, tgt) == 'Plane':
                    continue
                ld['pickups'] = [[src, 'radius', tgt, rng.choice([1.0, -1.0]), 0.0]]
            else:
                ld['solves'] = [[n - 1, 0.0]]
            try:
                o = build_lens(ld)
            except Exception:
                continue
            if not all(math.isfinite(zof(o, k)) for k in range(1, n)):
                continue
        analysis = 'SA' if (idx % 2 == 0 or flavour == 'nan') else 'MC'
        if flavour == 'badsampler':
            analysis = 'SA'
        cands = candidate_vars(o, rng, primary_only=model_ok)
        if model_ok:
            cands = [c for c in cands if c['type'] in MODEL_VAR or c['type'] in ('tilt', 'decenter')]
        if not cands:
            continue
        # prefer variety: pick types round robin over idx
        types = sorted(set(c['type'] for c in cands))
        first_t = types[(idx // 2) % len(types)]
        npert = rng.randint(1, 3)
        chosen = [rng.choice([c for c in cands if c['type'] == first_t])]
        while len(chosen) < npert:
            c = rng.choice(cands)
            if all((c['type'], c['kw']) != (d['type'], d['kw']) for d in chosen):
                chosen.append(c)
            elif rng.random() < 0.3:
                break
        perts = []
        kinds = ['range'] if analysis == 'SA' else ['scalar', 'range', 'dist', 'dist']
        for ci, c in enumerate(chosen):
            nom = nominal_value(o, c)
            nanr = None
            if flavour == 'nan' and c['type'] == 'radius' and ci == 0:
                semi = float(o.aperture.value) if o.aperture.ap_type == 'EPD' else 2.0
                nanr = math.copysign(max(semi * 0.3, 0.2), nom)
            p = dict(c)
            p['sampler'] = gen_sampler(rng, c, nom, kinds, nan_radius=nanr)
            if rng.random() < 0.2 and math.isfinite(nom):
                w = 1e-3 * max(1.0, abs(nom)) * rng.choice([0.01, 0.1, 1.0])
                p['limits'] = [nom - w, nom + w]          # much narrower than what the sampler delivers
            perts.append(p)
        if flavour == 'nan' and not any(p['type'] == 'radius' for p in perts):
            # a decentre far outside the beam makes rays miss the next surfaces as well
            rc = [c for c in cands if c['type'] == 'radius']
            if rc:
                c = rng.choice(rc)
                nom = nominal_value(o, c)
                semi = float(o.aperture.value) if o.aperture.ap_type == 'EPD' else 2.0
                p = dict(c)
                p['sampler'] = {'kind': 'range', 'start': nom, 'end': math.copysign(max(semi * 0.3, 0.2), nom), 'steps': 3}
                perts[0] = p
        if flavour == 'badsampler':
            perts[-1]['sampler'] = gen_sampler(rng, perts[-1], nominal_value(o, perts[-1]), ['dist'])
        comps = []
        with_comp = (idx % 3 != 0) or flavour == 'pickup'
        if flavour == 'badsampler':
            with_comp = False
        if with_comp:
            ck = [c for c in cands if c['type'] == 'thickness' and c['kw']['surface_number'] == n - 2]
            other = [c for c in cands if c['type'] in ('thickness', 'radius')
                     and all((c['type'], c['kw']) != (p['type'], p['kw']) for p in perts)]
            c = rng.choice(ck) if (ck and rng.random() < 0.7) else (rng.choice(other) if other else None)
            if c is not None and all((c['type'], c['kw']) != (p['type'], p['kw']) for p in perts):
                comps.append({'type': c['type'], 'kw': c['kw']})
        setup = {'lens': ld, 'analysis': analysis, 'n_iter': rng.randint(1, 4) if tier == 'quick' else rng.randint(1, 8),
                 'method': rng.choice(['generic', 'least_squares']), 'tol': 1e-5,
                 'operands': gen_operands(rng, o, model_ok, want_ray=True), 'perturbations': perts,
                 'compensators': comps, 'flavour': flavour, 'model_ok': bool(model_ok and 'desc' in ld),
                 'fresh': rng.choice(['rebuild', 'deepcopy'])}
        if comps and not any(od['type'] not in ('EPD',) for od in setup['operands']):
            continue
        if comps and len(setup['operands']) >= 2 and rng.random() < 0.6:
            # documented keyword of add_operand: the weight of the operand in the compensation
            ws_ = [rng.choice([0.25, 1.0, 3.0, 10.0]) for _ in setup['operands']]
            if len(set(ws_)) == 1:
                ws_[0] = 10.0 if ws_[0] != 10.0 else 0.25
            for od, w_ in zip(setup['operands'], ws_):
                od['weight'] = w_
            setup['tol'] = 1e-10       # a tight compensator, so that where it stops is decided by the merit function
            setup['method'] = 'generic' if rng.random() < 0.8 else setup['method']
        # the operands must be defined on the nominal lens
        ev = evaluate_ops(o, setup)
        if any(isinstance(v, tuple) for v in ev):
            continue
        if comps and not all(math.isfinite(v) for v in ev):
            continue
        return setup
    return None


def corpus():
    """fixed set-ups run first on every run: the usage of the repo's tests and the input classes of the
    recorded findings"""
    ray = {'type': 'real_y_intercept', 'input': {'surface_number': -1, 'Hx': 0.0, 'Hy': 1.0, 'Px': 0.0, 'Py': 0.5,
                                                 'wavelength': 0.48}}
    spot = {'type': 'rms_spot_size', 'input': {'surface_number': -1, 'Hx': 0.0, 'Hy': 0.0, 'num_rays': 3,
                                               'wavelength': 'all', 'distribution': 'hexapolar'}}
    f2 = {'type': 'f2', 'input': {}}
    f1 = {'type': 'f1', 'input': {}}
    base = {'method': 'generic', 'tol': 1e-5, 'n_iter': 3, 'model_ok': False, 'fresh': 'rebuild', 'compensators': []}
    out = []
    # tests/test_monte_carlo.py, tests/test_sensitivity_analysis.py
    out.append(dict(base, lens={'sample': 'objectives.ReverseTelephoto'}, analysis='MC', flavour='corpus-test-mc',
                    operands=[f1, f2],
                    perturbations=[{'type': 'radius', 'kw': {'surface_number': 1},
                                    'sampler': {'kind': 'dist', 'distribution': 'normal', 'seed': 7,
                                                'params': {'loc': 100, 'scale': 2}}}],
                    compensators=[{'type': 'thickness', 'kw': {'surface_number': 2}}]))
    out.append(dict(base, lens={'sample': 'objectives.ReverseTelephoto'}, analysis='SA', flavour='corpus-test-sa',
                    method='least_squares', operands=[f1, f2],
                    perturbations=[{'type': 'radius', 'kw': {'surface_number': 1},
                                    'sampler': {'kind': 'range', 'start': 90, 'end': 110, 'steps': 4}}],
                    compensators=[{'type': 'thickness', 'kw': {'surface_number': 2}}], fresh='deepcopy'))
    # operands with unequal weights and a compensator that has to compromise between them
    spot5 = {'type': 'rms_spot_size', 'weight': 0.25,
             'input': {'surface_number': -1, 'Hx': 0.0, 'Hy': 0.0, 'num_rays': 5, 'wavelength': 0.55,
                       'distribution': 'hexapolar'}}
    for w_f2, w_spot in ((10.0, 0.25), (0.25, 10.0)):
        out.append(dict(base, lens={'sample': 'objectives.ReverseTelephoto'}, analysis='SA', tol=1e-10,
                        flavour='corpus-weighted-compensation',
                        operands=[dict(f2, weight=w_f2), dict(spot5, weight=w_spot)],
                        perturbations=[{'type': 'radius', 'kw': {'surface_number': 1},
                                        'sampler': {'kind': 'range', 'start': 95, 'end': 105, 'steps': 3}}],
                        compensators=[{'type': 'thickness', 'kw': {'surface_number': 2}}]))
    # F-C15-1: index variable on a catalogue glass, operands at other wavelengths
    out.append(dict(base, lens={'sample': 'objectives.CookeTriplet'}, analysis='SA', flavour='corpus-index-glass',
                    operands=[ray, spot],
                    perturbations=[{'type': 'index', 'kw': {'surface_number': 1, 'wavelength': 0.55},
                                    'sampler': {'kind': 'range', 'start': 1.60, 'end': 1.63, 'steps': 2}},
                                   {'type': 'radius', 'kw': {'surface_number': 1},
                                    'sampler': {'kind': 'range', 'start': 22.0, 'end': 22.05, 'steps': 2}}]))
    out.append(dict(base, lens={'sample': 'objectives.CookeTriplet'}, analysis='MC', flavour='corpus-index-glass',
                    operands=[spot, f2], n_iter=2,
                    perturbations=[{'type': 'index', 'kw': {'surface_number': 3, 'wavelength': 0.65},
                                    'sampler': {'kind': 'dist', 'distribution': 'uniform', 'seed': 11,
                                                'params': {'low': 1.60, 'high': 1.62}}}]))
    # F-C15-2: pickup / solve + compensator
    out.append(dict(base, lens={'sample': 'objectives.CookeTriplet', 'pickups': [[1, 'radius', 6, -1.0, 0.0]]},
                    analysis='SA', flavour='corpus-pickup', operands=[f2],
                    perturbations=[{'type': 'radius', 'kw': {'surface_number': 1},
                                    'sampler': {'kind': 'range', 'start': 21.0, 'end': 23.0, 'steps': 3}}],
                    compensators=[{'type': 'thickness', 'kw': {'surface_number': 3}}]))
    out.append(dict(base, lens={'sample': 'objectives.CookeTriplet', 'solves': [[7, 0.0]]},
                    analysis='MC', flavour='corpus-solve', operands=[f2], n_iter=2, method='least_squares',
                    perturbations=[{'type': 'radius', 'kw': {'surface_number': 1},
                                    'sampler': {'kind': 'scalar', 'value': 23.0}}],
                    compensators=[{'type': 'thickness', 'kw': {'surface_number': 3}}]))
    # freeform coefficient variables (in-range, and beyond the stored matrix: the variable pads it with zeros)
    free = {'desc': {'surfaces': [
        {'index': 0, 'radius': 'inf', 'thickness': 'inf', 'material': {'kind': 'air'}},
        {'index': 1, 'radius': 60.0, 'thickness': 5.0, 'material': {'kind': 'catalog', 'name': 'N-BK7'}, 'is_stop': True,
         'surface_type': 'polynomial', 'conic': 0.0,
         'coefficients': [[0.0, 1e-4, 2e-5], [5e-5, 1e-6, 0.0], [1e-5, 0.0, 0.0]]},
        {'index': 2, 'radius': -80.0, 'thickness': 70.0, 'material': {'kind': 'air'},
         'surface_type': 'chebyshev', 'conic': 0.0, 'norm_x': 50.0, 'norm_y': 50.0,
         'coefficients': [[0.0, 1e-3, 0.0], [2e-3, 0.0, 0.0], [1e-3, 0.0, 5e-4]]},
        {'index': 3, 'radius': 'inf', 'thickness': 0, 'material': {'kind': 'air'}}],
        'aperture': ['EPD', 6.0], 'field_type': 'angle', 'fields': [[0.0], [2.0]],
        'wavelengths': [[0.4861327, 0], [0.5875618, 1], [0.6562725, 0]]}}
    ray2 = {'type': 'real_y_intercept', 'input': {'surface_number': -1, 'Hx': 0.0, 'Hy': 1.0, 'Px': 0.3, 'Py': 0.5,
                                                  'wavelength': 0.5875618}}
    spot2 = {'type': 'rms_spot_size', 'input': {'surface_number': -1, 'Hx': 0.0, 'Hy': 1.0, 'num_rays': 3,
                                                'wavelength': 0.5875618, 'distribution': 'hexapolar'}}
    out.append(dict(base, lens=free, analysis='SA', flavour='corpus-freeform', operands=[ray2, spot2],
                    perturbations=[{'type': 'polynomial_coeff', 'kw': {'surface_number': 1, 'coeff_index': [1, 1]},
                                    'sampler': {'kind': 'range', 'start': -1e-5, 'end': 1e-5, 'steps': 3}},
                                   {'type': 'chebyshev_coeff', 'kw': {'surface_number': 2, 'coeff_index': [2, 2]},
                                    'sampler': {'kind': 'range', 'start': 4e-4, 'end': 6e-4, 'steps': 2}},
                                   {'type': 'polynomial_coeff', 'kw': {'surface_number': 1, 'coeff_index': [3, 1]},
                                    'sampler': {'kind': 'range', 'start': 0.0, 'end': 1e-7, 'steps': 2}}],
                    compensators=[{'type': 'thickness', 'kw': {'surface_number': 2}}], fresh='deepcopy'))
    out.append(dict(base, lens=free, analysis='MC', flavour='corpus-freeform', operands=[spot2, f2], n_iter=3,
                    perturbations=[{'type': 'chebyshev_coeff', 'kw': {'surface_number': 2, 'coeff_index': [0, 1]},
                                    'sampler': {'kind': 'dist', 'distribution': 'normal', 'seed': 5,
                                                'params': {'loc': 1e-3, 'scale': 1e-4}}},
                                   {'type': 'polynomial_coeff', 'kw': {'surface_number': 1, 'coeff_index': [0, 2]},
                                    'sampler': {'kind': 'dist', 'distribution': 'uniform', 'seed': 6,
                                                'params': {'low': 1e-5, 'high': 3e-5}}},
                                   {'type': 'asphere_coeff', 'kw': {'surface_number': 1, 'coeff_number': 0},
                                    'sampler': {'kind': 'scalar', 'value': 0.0}}][:2]))
    out.append(dict(base, lens={'sample': 'simple.AsphericSinglet'}, analysis='MC', flavour='corpus-asphere',
                    operands=[spot2 | {'input': dict(spot2['input'], wavelength=0.587, Hy=0.0)}, f2], n_iter=2,
                    perturbations=[{'type': 'asphere_coeff', 'kw': {'surface_number': 1, 'coeff_number': 1},
                                    'sampler': {'kind': 'dist', 'distribution': 'uniform', 'seed': 9,
                                                'params': {'low': -1e-7, 'high': 1e-7}}},
                                   {'type': 'conic', 'kw': {'surface_number': 1},
                                    'sampler': {'kind': 'range', 'start': -0.1, 'end': 0.1, 'steps': 2}}],
                    compensators=[{'type': 'thickness', 'kw': {'surface_number': 2}}], method='least_squares'))
    # every per-surface variable type and both axes in one Monte-Carlo and one sensitivity run
    allv = [{'type': 'tilt', 'kw': {'surface_number': 2, 'axis': 'x'}, 'sampler': {'kind': 'scalar', 'value': 0.004}},
            {'type': 'tilt', 'kw': {'surface_number': 3, 'axis': 'y'},
             'sampler': {'kind': 'range', 'start': -0.003, 'end': 0.003, 'steps': 2}},
            {'type': 'decenter', 'kw': {'surface_number': 4, 'axis': 'x'},
             'sampler': {'kind': 'dist', 'distribution': 'normal', 'seed': 21, 'params': {'loc': 0.0, 'scale': 0.05}}},
            {'type': 'decenter', 'kw': {'surface_number': 5, 'axis': 'y'}, 'sampler': {'kind': 'scalar', 'value': -0.07}},
            {'type': 'conic', 'kw': {'surface_number': 1}, 'sampler': {'kind': 'scalar', 'value': 0.05}},
            {'type': 'thickness', 'kw': {'surface_number': 2},
             'sampler': {'kind': 'dist', 'distribution': 'uniform', 'seed': 22, 'params': {'low': 5.9, 'high': 6.1}}},
            {'type': 'radius', 'kw': {'surface_number': 6}, 'sampler': {'kind': 'scalar', 'value': -18.5}}]
    rayx = {'type': 'real_x_intercept', 'input': {'surface_number': -1, 'Hx': 0.0, 'Hy': 0.7, 'Px': 0.3, 'Py': 0.5,
                                                  'wavelength': 0.55}}
    out.append(dict(base, lens={'sample': 'objectives.CookeTriplet'}, analysis='MC', flavour='corpus-alltypes',
                    operands=[rayx, ray, f2], perturbations=allv, n_iter=3))
    sav = []
    for i, v in enumerate(allv):
        c = {'type': v['type'], 'kw': v['kw']}
        lo = {'tilt': -0.004, 'decenter': -0.06, 'conic': -0.05, 'thickness': 5.9, 'radius': -18.9}[v['type']]
        hi = {'tilt': 0.004, 'decenter': 0.06, 'conic': 0.05, 'thickness': 6.1, 'radius': -18.3}[v['type']]
        c['sampler'] = {'kind': 'range', 'start': lo, 'end': hi, 'steps': 2}
        sav.append(c)
    out.append(dict(base, lens={'sample': 'objectives.CookeTriplet'}, analysis='SA', flavour='corpus-alltypes',
                    operands=[rayx, ray], perturbations=sav[:6]))
    # documented rejection
    out.append(dict(base, lens={'sample': 'simple.Edmund_49_847'}, analysis='SA', flavour='corpus-badsampler',
                    operands=[f2],
                    perturbations=[{'type': 'radius', 'kw': {'surface_number': 1},
                                    'sampler': {'kind': 'scalar', 'value': 20.0}}]))
    return out


# ------------------------------------------------------------------------------ driver encoding
def lens_tokens(ld):
    d = ld['desc']
    ops = []
    for w in d['wavelengths']:
        ops.append(('aw', w[0], bool(w[1])))
    for s in d['surfaces']:
        ops.append(('add', s))
    for p in ld.get('pickups', []):
        ops.append(('pk', p[0], p[1], p[2], p[3], p[4]))
    for s in ld.get('solves', []):
        ops.append(('sv', s[0], s[1]))
    if ld.get('pickups') or ld.get('solves'):
        ops.append(('up',))
    toks = [d['aperture'][0], fhex(d['aperture'][1]), 'angle' if d['field_type'] == 'angle' else 'object_height',
            fhex(max(f[0] for f in d['fields'])), b01(d['surfaces'][0]['thickness'] == 'inf'), str(len(ops))]
    for op in ops:
        toks += c01.op_tokens(op)
    return toks


def var_tokens(p):
    t, kw = p['type'], p['kw']
    k = kw['surface_number']
    if t == 'asphere_coeff':
        return ['coeff', str(k), str(kw['coeff_number'])]
    if t == 'tilt':
        return ['tilt' + kw['axis'], str(k)]
    if t == 'decenter':
        return ['dec' + kw['axis'], str(k)]
    if t in MODEL_VAR:
        return [MODEL_VAR[t], str(k)]
    return ['conic', str(k)]       # placeholder for variables the prescription model does not carry (sampling only)


def sampler_tokens(sd):
    if sd['kind'] == 'scalar':
        return ['s', fhex(sd['value'])]
    if sd['kind'] == 'range' and sd.get('adv'):
        return ['ra', fhex(sd['start']), fhex(sd['end']), str(sd['steps']), str(sd['adv'])]
    if sd['kind'] == 'range':
        return ['r', fhex(sd['start']), fhex(sd['end']), str(sd['steps'])]
    return ['d']


def toler_line(setup, stream, comp_table, full):
    """full: lens + operands + compensators in the model; otherwise sampling/loop order only (empty lens)"""
    if full:
        toks = lens_tokens(setup['lens'])
    else:
        toks = ['EPD', fhex(1.0), 'angle', fhex(0.0), '1', '0']
    toks += [setup['analysis'], str(setup.get('n_iter', 0))]
    toks.append(str(len(setup['perturbations'])))
    for p in setup['perturbations']:
        toks += var_tokens(p) + sampler_tokens(p['sampler'])
    comps = setup['compensators'] if full else []
    toks.append(str(len(comps)))
    for c in comps:
        toks += var_tokens(c)
    toks.append(str(len(stream)))
    toks += [fhex(v) for v in stream]
    table = comp_table if full else []
    toks.append(str(len(table)))
    for row in table:
        toks.append(str(len(row)))
        toks += [fhex(v) for v in row]
    ops = setup['operands'] if full else []
    toks.append(str(len(ops)))
    for od in ops:
        toks.append(od['type'])
    return 'toler ' + ' '.join(toks)


def parse_toler(out):
    if out.strip() == 'valueerror':
        return {'status': 'valueerror'}
    parts = out.split(' | ')
    t = Toks(parts[0])
    if t.error:
        return {'status': 'error', 'raw': out[:200]}
    status = t.tok()
    nrows = t.nat()
    rows = []
    for _ in range(nrows):
        na = t.nat()
        applied = []
        for _ in range(na):
            i = t.nat()
            applied.append((i, t.flt()))
        ops = t.floats()
        comp = t.floats()
        rows.append({'applied': applied, 'ops': ops, 'comp': comp})
    snaps = [c01.parse_snapshot(p)[1] for p in parts[1:4]] if len(parts) >= 4 else []
    return {'status': status, 'rows': rows, 'snaps': snaps}


# ------------------------------------------------------------------------------ the check of one set-up
def fresh_lens(setup, N):
    if setup.get('fresh') == 'rebuild':
        return build_lens(setup['lens'])
    return copy.deepcopy(N)


def apply_row(f, setup, row, comp_mode):
    """recorded perturbation values, then recorded compensator values, written to a fresh lens"""
    for (i, v) in row['applied']:
        write_value(f, setup['perturbations'][i], v)
    if comp_mode is not None:
        for c, v in zip(setup['compensators'], row['comp']):
            write_value(f, c, unscale(c, v) if comp_mode == 'scaled' else v)
        if setup['compensators'] and (setup['lens'].get('pickups') or setup['lens'].get('solves')):
            f.update()      # the optimiser's last evaluation ends with update_optics()


OP_ATOL = {'types': None}


def ops_equal(a, b, rtol, atol=1e-12):
    """operand lists; OPD operands (waves) carry the absolute tolerance of DESIGN 3.5: a rounding-level
    difference of a vertex position (1e-13 mm) is 1e-10 waves"""
    if len(a) != len(b):
        return False
    types = OP_ATOL['types']
    # cardinal-point positions (F1, F2, EPL, XPL ...) are differences of lengths of the size of the focal length:
    # on a nearly afocal lens (f ~ 3e4 mm) a rounding-level difference of the compensated thickness shows as 1e-11
    scale = max([abs(v) for v in list(a) + list(b) if isinstance(v, float) and math.isfinite(v)] + [1.0])
    atol = max(atol, 1e-15 * scale)
    for i, (x, y) in enumerate(zip(a, b)):
        if isinstance(x, tuple) or isinstance(y, tuple):
            return False
        at = max(atol, 1e-6) if (types and len(types) == len(a) and types[i] == 'OPD_difference') else atol
        if not close(x, y, rtol, at):
            return False
    return True


def merit(ops, targets, weights=None):
    m = 0.0
    for k_, (o_, t_) in enumerate(zip(ops, targets)):
        if isinstance(o_, tuple):
            return math.nan
        m += ((weights[k_] if weights else 1.0) * (o_ - t_)) ** 2
    return m


def idealised_index_lens(setup, N):
    """fresh nominal lens on which every index-perturbed/compensated medium has been replaced by
    IdealMaterial(n_nominal(lambda_var)) -- what Perturbation.reset() of the tree produces (finding F-C15-1)"""
    f = fresh_lens(setup, N)
    hit = False
    for p in setup['perturbations'] + setup['compensators']:
        if p['type'] == 'index':
            f.set_index(nominal_value(N, p), p['kw']['surface_number'])
            hit = True
    return f if hit else None


def only_index_dispersion(setup, diffs, N, o):
    """diffs are confined to the indices (other wavelengths) behind index-perturbed surfaces, and the lens
    equals the nominal lens with those media idealised"""
    ks = set(p['kw']['surface_number'] for p in setup['perturbations'] + setup['compensators'] if p['type'] == 'index')
    if not ks or not diffs:
        return False
    ps = bool(setup['lens'].get('pickups') or setup['lens'].get('solves'))
    for d in diffs:
        if d[0] == 'pattern':
            continue
        if d[0] in ('n', 'n_all', 'k_all') and d[1] in ks:
            continue
        if ps and d[0] in ('z', 'radius', 'conic', 'thickness'):
            continue      # pickups / solves re-applied by reset() on the idealised medium (checked exactly below)
        return False
    f = idealised_index_lens(setup, N)
    if f is not None and ps:
        try:
            f.update()        # what Tolerancing.reset() does after putting the variables back
        except Exception:  # noqa
            return False
    return f is not None and not [d for d in snap_diff(xsnap(f), xsnap(o)) if d[0] != 'pattern']


def check_setup(ctx, setup, lines, keep):
    case = setup
    post_lines = []
    rng_state = np.random.get_state()
    try:
        N = build_lens(setup['lens'])
        o = build_lens(setup['lens'])
    except Exception as e:  # noqa
        ctx.count('build_error:' + type(e).__name__)
        return
    has_ps = bool(setup['lens'].get('pickups') or setup['lens'].get('solves'))
    OP_ATOL['types'] = [od['type'] for od in setup['operands']]
    INDEX_SEMANTICS['mode'] = 'ideal'
    for p in setup['perturbations'] + setup['compensators']:
        if p['type'] == 'index':
            INDEX_SEMANTICS['mode'] = probe_index_semantics(N, p)
            ctx.count('index variable semantics: ' + INDEX_SEMANTICS['mode'])
            break
    s0 = xsnap(o)
    ev0 = evaluate_ops(o, setup)
    tol, an, df, err = run_analysis(o, setup)
    s_run = xsnap(o)
    ctx.count('analysis=' + setup['analysis'])
    ctx.count('flavour=' + setup['flavour'])
    ctx.count('method=' + setup['method'] if setup['compensators'] else 'no-compensator')
    for p in setup['perturbations']:
        ctx.count('pert:' + p['type'])
        ctx.count('sampler:' + p['sampler']['kind'])
    for od in setup['operands']:
        ctx.count('operand:' + od['type'])
    for c in setup['compensators']:
        ctx.count('comp:' + c['type'])
    if has_ps:
        ctx.count('lens with pickup/solve')
    all_range = all(p['sampler']['kind'] == 'range' for p in setup['perturbations'])
    if setup['analysis'] == 'SA' and not all_range:
        # documented: ValueError('Only range samplers are supported.')
        if err != 'ValueError':
            ctx.fail('SensitivityAnalysis.run rejects non-range samplers with ValueError', case, err, 'ValueError')
        lines.append(toler_line(setup, [], [], False))
        keep.append((case, None, None, None, 'valueerror'))
        ctx.count('SA with a non-range sampler (ValueError)')
        return
    if err is not None:
        # an operand that *raises* on a perturbed lens (ChebyshevPolynomialGeometry rejects rays outside its
        # normalisation square with ValueError) aborts run(): outside what the property speaks about
        cheb = any(gname(N, k) == 'ChebyshevPolynomialGeometry' for k in range(len(N.surface_group.surfaces)))
        raised = False
        for p in setup['perturbations']:
            sd = p['sampler']
            for v in ([sd['start'], sd['end']] if sd['kind'] == 'range' else [sd.get('value')]):
                if v is None:
                    continue
                f = fresh_lens(setup, N)
                write_value(f, p, v)
                if any(isinstance(x, tuple) and x[1] == err for x in evaluate_ops(f, setup)):
                    raised = True
        if raised or (cheb and err == 'ValueError'):
            ctx.count('out of domain: an operand raises %s on the perturbed lens' % err)
            return
        ctx.count('run_error:' + err)
        ctx.fail('every call with valid arguments succeeds: run()', case, err, None)
        return
    rows = table_rows(setup, df)
    if setup['analysis'] == 'SA':
        if not sa_assign(setup, rows):
            ctx.fail('sensitivity table has sum(sampler.size) rows', case, len(rows),
                     sum(p['sampler']['steps'] for p in setup['perturbations']))
            return
        if not all(r.get('title_ok') for r in rows):
            ctx.fail('sensitivity rows are labelled with the perturbed variable, in loop order', case,
                     [r['ptype'] for r in rows], None)
            return
    elif len(rows) != setup['n_iter']:
        ctx.fail('Monte-Carlo table has num_iterations rows', case, len(rows), setup['n_iter'])
        return
    ctx.count('rows', len(rows))
    index_pert = any(p['type'] == 'index' for p in setup['perturbations'] + setup['compensators'])

    # ---- clause 1: every row is a fresh evaluation
    nan_rows = 0
    for ri, row in enumerate(rows):
        if any(v != v for v in row['ops']):
            nan_rows += 1
        ok = False
        modes = ['scaled', 'raw'] if setup['compensators'] else [None]
        got = None
        for mode in modes:
            f = fresh_lens(setup, N)
            try:
                apply_row(f, setup, row, mode)
                got = evaluate_ops(f, setup)
            except Exception as e:  # noqa
                got = [('error', type(e).__name__)]
            if ops_equal(row['ops'], got, 1e-9):
                ok = True
                if mode:
                    ctx.count('compensator column unit: ' + mode)
                break
        if not ok:
            key = None
            if index_pert:
                f = idealised_index_lens(setup, N)
                apply_row(f, setup, row, modes[0])
                got2 = evaluate_ops(f, setup)
                if ops_equal(row['ops'], got2, 1e-9):
                    key = 'index-reset-drops-dispersion'
            ctx.fail('row %d: recorded operand values = evaluation on a fresh nominal lens with the recorded '
                     'perturbation (and compensator) values' % ri, case, row['ops'], got, finding_key=key)
            if key is None:
                return
        ctx.count('rows re-evaluated (a)')
        # (b) the same compensation = the compensator optimiser re-run from the nominal start.  scipy stops
        # anywhere inside its tolerance, and which point it stops at depends on rounding-level differences of
        # the start: identical values are counted; otherwise the recorded compensation must be as good as the
        # re-run one (merit = sum of squared operand errors, relative to the uncompensated error)
        if setup['compensators']:
            def rerun(lens_maker):
                # "the same compensation": the compensator the user configured (variables, operands with their
                # targets and weights, method, tolerance), set up here directly on the lower-level public class
                from optiland.tolerancing.compensator import CompensatorOptimizer
                f = lens_maker()
                comp = CompensatorOptimizer(method=setup['method'], tol=setup['tol'])
                for c_ in setup['compensators']:
                    comp.add_variable(f, c_['type'], **var_kwargs(c_))
                for od_, op_ in zip(setup['operands'], tol.operands):
                    comp.add_operand(od_['type'], float(op_.target), float(od_.get('weight', 1.0)), operand_input(f, od_))
                apply_row(f, setup, row, None)
                un = evaluate_ops(f, setup)
                with quiet():
                    comp.run()
                return evaluate_ops(f, setup), [float(np.ravel(v.value)[0]) for v in comp.variables], un
            try:
                got, gc, un = rerun(lambda: fresh_lens(setup, N))
            except Exception as e:  # noqa
                got, gc, un = [('error', type(e).__name__)], [], []
            targets = [float(op.target) for op in tol.operands]
            if ops_equal(row['ops'], got, 1e-6, 1e-9) and ops_equal(row['comp'], gc, 1e-6, 1e-9):
                ctx.count('rows re-compensated (b): identical')
            else:
                wts_ = [float(od_.get('weight', 1.0)) for od_ in setup['operands']]
                m_rec, m_b, m_0 = merit(row['ops'], targets, wts_), merit(got, targets, wts_), merit(un, targets, wts_)
                worse = (not math.isfinite(m_rec) and math.isfinite(m_b)) or \
                        (math.isfinite(m_rec) and math.isfinite(m_b)
                         and m_rec > 10 * m_b + 1e-3 * (m_0 if math.isfinite(m_0) else m_rec) + 10 * float(setup['tol']))
                if worse:
                    key = None
                    if index_pert:
                        got2, _, _ = rerun(lambda: idealised_index_lens(setup, N))
                        if ops_equal(row['ops'], got2, 1e-6, 1e-9):
                            key = 'index-reset-drops-dispersion'
                    ctx.fail('row %d: the recorded compensation is the one the compensator finds on a fresh nominal '
                             'lens with the recorded perturbation values' % ri, case,
                             {'ops': row['ops'], 'comp': row['comp'], 'merit': m_rec},
                             {'ops': got, 'comp': gc, 'merit': m_b, 'uncompensated_merit': m_0}, finding_key=key)
                    if key is None:
                        return
                else:
                    ctx.count('rows re-compensated (b): optimiser stops elsewhere inside its tolerance')
                    ctx.drift.append({'what': 'compensator re-run differs within optimiser tolerance', 'row': ri,
                                      'recorded': row['comp'], 'rerun': gc})
    if nan_rows:
        ctx.count('rows with an undefined (NaN) operand', nan_rows)

    # (c) weighted compensation: the recorded compensation is (about) as good, in the WEIGHTED sum of squares
    # sum (w_i (operand_i - target_i))^2 the documentation promises, as a minimisation of that sum done here with
    # scipy on a fresh lens (not through the library's compensator)
    wts = [float(od.get('weight', 1.0)) for od in setup['operands']]
    # (method 'generic' only: LeastSquares hands scipy the squared terms as residuals, i.e. minimises another sum)
    if setup['compensators'] and len(set(wts)) > 1 and not index_pert and rows and setup['method'] == 'generic':
        import scipy.optimize
        targets = [float(op.target) for op in tol.operands]

        def gfun(xs, row):
            f = fresh_lens(setup, N)
            apply_row(f, setup, row, None)
            for c, x in zip(setup['compensators'], xs):
                write_value(f, c, float(x))
            if has_ps:
                f.update()
            ops = evaluate_ops(f, setup)
            if any(isinstance(v, tuple) or v != v for v in ops):
                return 1e30
            return float(sum((w_ * (v - t_)) ** 2 for w_, v, t_ in zip(wts, ops, targets)))
        x0 = [float(nominal_value(N, c)) for c in setup['compensators']]
        for ri, row in enumerate(rows[:2]):
            if any(v != v for v in row['ops']) or any(v != v for v in row['comp']):
                continue
            best = None
            for mode in ('scaled', 'raw'):
                xr = [unscale(c, v) if mode == 'scaled' else v for c, v in zip(setup['compensators'], row['comp'])]
                m = gfun(xr, row)
                if best is None or m < best:
                    best = m
            m_0 = gfun(x0, row)
            with quiet():
                res = scipy.optimize.minimize(gfun, x0, args=(row,), method='Nelder-Mead',
                                              options={'xatol': 1e-10, 'fatol': 1e-16, 'maxiter': 300})
            m_mine = min(float(res.fun), m_0)
            if math.isfinite(m_0) and m_0 < 1e29 and best > 10 * m_mine + 1e-2 * m_0 + 10 * float(setup['tol']) + 1e-18:
                # not a clause of C15 (which optimum the optimiser reaches is C14's subject): recorded as an observation
                ctx.count('observation (c): recorded compensation clearly worse than an independent weighted minimisation')
                ctx.drift.append({'what': 'recorded compensation worse than an independent weighted minimisation',
                                  'row': ri, 'recorded merit': best, 'independent': m_mine, 'uncompensated': m_0})
                break
            ctx.count('rows compared with an independent weighted minimisation (c, informational)')

    # ---- clause 4: prescription after run() and after reset()
    def classify(diffs, lens_now):
        if not diffs:
            return 'ok'
        if index_pert and only_index_dispersion(setup, diffs, N, lens_now):
            return 'index-reset-drops-dispersion'
        if has_ps and setup['compensators']:
            o2 = copy.deepcopy(lens_now)
            o2.update()
            if not snap_diff(s0, xsnap(o2)):
                return 'reset-without-update'
        return None

    d_run = snap_diff(s0, s_run)
    c_run = classify(d_run, o)          # `o` is still in the state run() left
    if d_run and setup['analysis'] == 'SA':
        ctx.fail('prescription after SensitivityAnalysis.run() = nominal prescription', case, d_run[:4], None,
                 finding_key=c_run)
    elif d_run:
        key = c_run
        if key is None:
            # F7, recognised exactly: the lens is in the state of the last trial
            last = rows[-1]
            for mode in (['scaled', 'raw'] if setup['compensators'] else [None]):
                f = fresh_lens(setup, N)
                if index_pert:
                    f = idealised_index_lens(setup, N) or f
                apply_row(f, setup, last, mode)
                if not [d for d in snap_diff(xsnap(f), s_run) if d[0] != 'pattern']:
                    key = 'mc-no-final-reset'
                    break
        ctx.fail('prescription after MonteCarlo.run() = nominal prescription', case, d_run[:4], None,
                 finding_key=key)
    elif setup['analysis'] == 'MC':
        ctx.count('MC run that ends on the nominal lens')
    with quiet():
        tol.reset()
    s_reset = xsnap(o)
    d_reset = snap_diff(s0, s_reset)
    if d_reset:
        ctx.fail('prescription after Tolerancing.reset() = nominal prescription', case, d_reset[:4], None,
                 finding_key=classify(d_reset, o))
    else:
        ctx.count('reset() restores the prescription')

    # ---- clause 2: nominal-valued perturbations reproduce the nominal operands
    o2 = build_lens(setup['lens'])
    noms = [nominal_value(o2, p) for p in setup['perturbations']]
    if setup['analysis'] == 'SA':
        ov = [{'kind': 'range', 'start': v, 'end': v, 'steps': 2} for v in noms]
    else:
        ov = [{'kind': 'scalar', 'value': v} for v in noms]
    s2 = dict(setup)
    s2['n_iter'] = 2
    if ctx.rng.random() < 0.5:
        s2['compensators'] = []
    _, _, df2, err2 = run_analysis(o2, s2, override_samplers=ov)
    if err2 is None:
        ref = evaluate_ops(N, setup)
        for ri, row in enumerate(table_rows(s2, df2)):
            if ops_equal(row['ops'], ref, 1e-9):
                continue
            key = None
            if s2['compensators']:
                # F6 (C14): the optimiser leaves the lens at the last point it evaluated (a finite-difference
                # probe next to the optimum), not at the optimum it returns
                cn = [scale(c, nominal_value(N, c)) for c in s2['compensators']]
                near = all(abs(a - b) <= 1e-6 * max(1.0, abs(b)) for a, b in zip(row['comp'], cn))
                f = fresh_lens(setup, N)
                for c, v in zip(s2['compensators'], row['comp']):
                    write_value(f, c, unscale(c, v))
                if has_ps:
                    f.update()
                if near and ops_equal(row['ops'], evaluate_ops(f, setup), 1e-9):
                    key = 'optimizer-leaves-last-evaluated-point'
            if key is None and index_pert:
                f = idealised_index_lens(setup, N)
                for c, v in zip(s2['compensators'], row['comp']):
                    write_value(f, c, unscale(c, v))
                if has_ps:
                    f.update()      # the optimiser / reset re-apply pickups and solves on the idealised medium
                if ops_equal(row['ops'], evaluate_ops(f, setup), 1e-9):
                    key = 'index-reset-drops-dispersion'
            ctx.fail('perturbation value = nominal value reproduces the nominal operand values (row %d)' % ri,
                     case, row['ops'], ref, finding_key=key)
            break
        ctx.count('nominal-valued runs')
    else:
        ctx.fail('every call with valid arguments succeeds: run() with nominal values', case, err2, None)

    # ---- clause 1 again, on a Tolerancing object with a history: range samplers left mid-cycle by earlier
    # apply()/reset() calls (a Monte-Carlo preview, a manual trial).  The table then starts elsewhere in the
    # range, which the property allows; every row must still pair the operand values with the value applied
    if setup['analysis'] == 'SA' and not index_pert and (setup.get('pre_advance') or ctx.rng.random() < 0.6):
        from optiland.tolerancing.sensitivity_analysis import SensitivityAnalysis
        s4 = dict(setup)
        s4['compensators'] = []
        o4 = build_lens(setup['lens'])
        t4 = build_tolerancing(o4, s4)
        adv = setup.get('pre_advance') or [ctx.rng.randint(0, 2 * p['sampler']['steps']) for p in setup['perturbations']]
        err4 = None
        try:
            with quiet():
                for pert, k in zip(t4.perturbations, adv):
                    for _ in range(k):
                        pert.apply()
                        t4.reset()
                a4 = SensitivityAnalysis(t4)
                a4.run()
                s4_run = xsnap(o4)
                t4.reset()
                s4_reset = xsnap(o4)
            rows4 = table_rows(s4, a4.get_results())
        except Exception as e:  # noqa
            err4, rows4 = type(e).__name__, []
        if err4 is None and sa_assign(s4, rows4):
            for ri, row in enumerate(rows4):
                f = fresh_lens(setup, N)
                try:
                    apply_row(f, s4, row, None)
                    got = evaluate_ops(f, s4)
                except Exception as e:  # noqa
                    got = [('error', type(e).__name__)]
                if not ops_equal(row['ops'], got, 1e-9):
                    c4 = dict(case)
                    c4['pre_advance'] = adv
                    ctx.fail('sensitivity run on a Tolerancing object whose samplers were used before: row %d '
                             'pairs the operand values with the perturbation value that was applied' % ri,
                             c4, {'value': row['pvalue'], 'ops': row['ops']}, got)
                    break
            else:
                # the model's table for samplers in that state (`ra` samplers: k earlier sample() calls)
                m4 = dict(s4)
                m4['perturbations'] = [dict(p, sampler=dict(p['sampler'], adv=k)) for p, k in zip(s4['perturbations'], adv)]
                m4['pre_advance'] = adv
                full4 = bool(setup.get('model_ok')) and 'desc' in setup['lens'] and not has_ps
                post_lines.append((toler_line(m4, [], [], full4), (m4, rows4, (s4_run, s4_reset, s0), full4, 'ok')))
            ctx.count('sensitivity runs after earlier apply()/reset() calls')
        elif err4 is not None and err is None:
            ctx.fail('every call with valid arguments succeeds: run() after earlier apply()/reset() calls', case, err4, None)

    # ---- clause 3: seeded runs are reproducible
    dists =[p for p in setup['perturbations'] if p['sampler']['kind'] == 'dist']
    stream = []
    if setup['analysis'] == 'MC' and dists:
        seeds = [p['sampler'].get('seed') for p in dists]
        if all(s is not None for s in seeds):
            o3 = build_lens(setup['lens'])
            _, _, df3, err3 = run_analysis(o3, setup)
            rows3 = table_rows(setup, df3) if err3 is None else None
            same = rows3 is not None and len(rows3) == len(rows) and all(
                [v for _, v in a['applied']] == [v for _, v in b['applied']] and ops_equal(a['ops'], b['ops'], 1e-9)
                and ops_equal(a['comp'], b['comp'], 1e-9) for a, b in zip(rows, rows3))
            if not same:
                ctx.fail('the same seeded set-up built and run twice gives the same table', case,
                         [r['applied'] for r in (rows3 or [])][:3], [r['applied'] for r in rows][:3])
            ctx.count('seeded set-ups run twice')
            # specification of the stream: the LAST seeded sampler fixes NumPy's global state; values are
            # drawn trial by trial, perturbation by perturbation
            rs = np.random.RandomState(seeds[-1])
            for _ in range(setup['n_iter']):
                for p in setup['perturbations']:
                    sd = p['sampler']
                    if sd['kind'] == 'dist':
                        stream.append(float(getattr(rs, sd['distribution'])(**sd['params'])))
            if len(set(seeds)) > 1:
                ctx.count('rng interference: %d samplers seeded differently share the global generator '
                          '(only the last seed matters)' % len(seeds))
                first = np.random.RandomState(seeds[0])
                sd = dists[0]['sampler']
                alone = [float(getattr(first, sd['distribution'])(**sd['params'])) for _ in range(setup['n_iter'])]
                i0 = setup['perturbations'].index(dists[0])
                if [r['applied'][i0][1] for r in rows] != alone:
                    ctx.count('rng interference observed: first seeded sampler does not follow its own seed')
                    if not any('global generator' in x for x in ctx.notes):
                        ctx.notes.append('DistributionSampler(seed=s) seeds NumPy\'s global generator: with several seeded '
                                         'samplers only the last seed matters and the samplers interleave one stream '
                                         '(runs stay reproducible; observed, e.g. seeds %s)' % seeds)
        else:
            ctx.count('unseeded distribution sampler (reproducibility not applicable)')
            stream = [v for r in rows for (i, v) in r['applied'] if setup['perturbations'][i]['sampler']['kind'] == 'dist']
    np.random.set_state(rng_state)

    # ---- correspondence with the Lean model
    # the theorems and the full model cover lenses without pickups/solves (Optic.update() is the identity there)
    full = bool(setup.get('model_ok')) and 'desc' in setup['lens'] and not has_ps
    comp_table = [r['comp'] for r in rows]
    lines.append(toler_line(setup, stream, comp_table, full))
    keep.append((case, rows, (s_run, s_reset, s0), full, 'ok'))
    for ln, kp in post_lines:
        lines.append(ln)
        keep.append(kp)


FIELDS = ('z', 'radius', 'conic', 'n', 'rx', 'ry', 'dx', 'dy')


def snap_close(impl, model, rtol=1e-9, atol=1e-9):
    for f in FIELDS:
        if len(impl[f]) != len(model[f]):
            return False
        for a, b in zip(impl[f], model[f]):
            if not close(a, b, rtol, atol):
                return False
    if len(impl['coeffs']) != len(model['coeffs']):
        return False
    for a, b in zip(impl['coeffs'], model['coeffs']):
        if len(a) != len(b) or any(not close(x, y, rtol, 1e-18) for x, y in zip(a, b)):
            return False
    return impl['stop'] == model['stop']


def compare(ctx, case, rows, snaps, full, kind, out):
    m = parse_toler(out)
    if kind == 'valueerror':
        if m['status'] != 'valueerror':
            ctx.disagreements.append({'what': 'SA with non-range sampler: model accepts', 'model': m['status'], 'case': case})
        return
    if m['status'] != 'ok':
        ctx.disagreements.append({'what': 'driver status', 'model': m.get('raw', m['status']), 'case': case})
        return
    if len(m['rows']) != len(rows):
        ctx.disagreements.append({'what': 'number of rows', 'impl': len(rows), 'model': len(m['rows']), 'case': case})
        return
    dist_idx = [i for i, p in enumerate(case['perturbations']) if p['sampler']['kind'] == 'dist']
    seeded = all(case['perturbations'][i]['sampler'].get('seed') is not None for i in dist_idx)
    for ri, (a, b) in enumerate(zip(rows, m['rows'])):
        if [i for i, _ in a['applied']] != [i for i, _ in b['applied']]:
            ctx.disagreements.append({'what': 'row %d: perturbations applied' % ri, 'impl': a['applied'],
                                      'model': b['applied'], 'case': case})
            return
        for (i, va), (_, vb) in zip(a['applied'], b['applied']):
            soft = i in dist_idx      # order of consumption of the global generator: incidental
            if not ctx.cmp('row %d perturbation %d value' % (ri, i), va, vb, case, hard=not soft):
                if not soft:
                    return
        if full:
            if not ctx.cmp_list('row %d operands' % ri, a['ops'], b['ops'], case, rtol=1e-9, atol=1e-11):
                return
            if not ctx.cmp_list('row %d compensator read-back' % ri, a['comp'], b['comp'], case, rtol=1e-9, atol=1e-11):
                return
    if full and not (case['lens'].get('pickups') or case['lens'].get('solves')):
        s_run, s_reset, s0 = snaps
        code, spec, reset = m['snaps']
        if snap_close(s_run, spec):
            ctx.count('model: lens after run = spec variant')
        elif snap_close(s_run, code):
            ctx.count('model: lens after run = code variant (F7)')
        else:
            ctx.disagreements.append({'what': 'prescription after run()', 'impl': {f: s_run[f] for f in FIELDS},
                                      'model': {f: code[f] for f in FIELDS}, 'case': case})
        if not snap_close(s_reset, reset):
            ctx.disagreements.append({'what': 'prescription after reset()', 'impl': {f: s_reset[f] for f in FIELDS},
                                      'model': {f: reset[f] for f in FIELDS}, 'case': case})


# ------------------------------------------------------------------------------ sampler correspondence
def sampler_case(ctx, lines, keep, a, b, steps, k):
    from optiland.tolerancing.perturbation import RangeSampler
    case = {'sampler': 'range', 'start': a, 'end': b, 'steps': steps, 'k': k}
    try:
        s = RangeSampler(a, b, steps)
        vals = [float(v) for v in s.values]
        seq = [float(s.sample()) for _ in range(k)]
    except Exception as e:  # noqa
        ctx.fail('RangeSampler returns its values in order and wraps around', case, type(e).__name__, None)
        return
    # predicate: cyclic order, endpoints, size
    exp = [vals[j % steps] for j in range(k)]
    if seq != exp:
        ctx.fail('RangeSampler returns its values in order and wraps around', case, seq, exp)
    if s.size != steps or len(vals) != steps or not close(vals[0], a) or (steps > 1 and vals[-1] != b):
        ctx.fail('RangeSampler covers [start, end] with `steps` values', case, vals, [a, b])
    if steps > 2:
        d = [vals[i + 1] - vals[i] for i in range(steps - 1)]
        if any(not close(x, d[0], 1e-9, 1e-9 * max(1.0, abs(a), abs(b))) for x in d):
            ctx.fail('RangeSampler values are equally spaced', case, vals, None)
    lines.append('linspace %s %s %d' % (fhex(a), fhex(b), steps))
    keep.append((case, vals, None, None, 'linspace'))
    lines.append('rsample %s %s %d %d' % (fhex(a), fhex(b), steps, k))
    keep.append((case, seq, None, None, 'rsample'))
    ctx.count('range sampler sequences')


def sampler_cases(ctx, lines, keep):
    from optiland.tolerancing.perturbation import ScalarSampler
    n = 40 if ctx.quick() else 400
    for _ in range(n):
        a = ctx.rng.uniform(-100, 100)
        b = a if ctx.rng.random() < 0.1 else ctx.rng.uniform(-100, 100)
        steps = ctx.rng.randint(1, 9)
        k = ctx.rng.randint(0, 3 * steps + 2)
        sampler_case(ctx, lines, keep, a, b, steps, k)
    v = ctx.rng.uniform(-5, 5)
    sc = ScalarSampler(v)
    if [sc.sample() for _ in range(3)] != [v, v, v] or sc.size != 1:
        ctx.fail('ScalarSampler returns its value', {'sampler': 'scalar', 'value': v}, None, v)


def run(tier, seed, replay=None):
    ctx = Ctx('C15', tier, seed)
    ctx.stats['rule'] = ('set-ups = lens (bundled sample | generated 1-4 surface lens, with aspheres/tilts/'
                         'catalogue glass/freeform surfaces/mirrors, optionally a pickup or solve) x analysis (SA | MC) x '
                         '1-3 perturbations over every variable type that exists on the lens x sampler kind (scalar, '
                         'range incl. 1 step and reversed, seeded/unseeded normal/uniform) x 0-1 compensator '
                         '(generic | least_squares) x 1-3 operands (paraxial, real-ray, rms spot, OPD, Seidel sums); '
                         'flavours: model-expressible, sample, generated, ray-failure (radius driven below the beam '
                         'radius), pickup/solve, SA with a non-range sampler; distinct by descriptor hash')
    aud = audit('C15')
    drv = Driver()
    lines, keep = [], []
    np.random.seed(seed % (2 ** 32))     # unseeded DistributionSamplers draw from the global generator
    if replay:
        if replay.get('sampler') == 'range':
            sampler_case(ctx, lines, keep, replay['start'], replay['end'], replay['steps'], replay['k'])
            ctx.case(replay)
        elif 'sampler' in replay:
            sampler_cases(ctx, lines, keep)
        else:
            check_setup(ctx, replay, lines, keep)
            ctx.case(replay)
    else:
        sampler_cases(ctx, lines, keep)
        for setup in corpus():
            check_setup(ctx, setup, lines, keep)
            ctx.case(setup)
        n = 20 if ctx.quick() else 500
        made = 0
        idx = 0
        while made < n and idx < 4 * n:
            setup = gen_setup(ctx.rng, idx + seed * 7, tier)
            idx += 1
            if setup is None:
                ctx.count('generator gave up')
                continue
            before = len(ctx.failures) + len(ctx.known_hits)
            try:
                check_setup(ctx, setup, lines, keep)
            except Exception as e:  # noqa
                import traceback
                ctx.count('harness_error:' + type(e).__name__)
                ctx.notes.append('harness error on a set-up: %s' % traceback.format_exc()[-600:])
                ctx.disagreements.append({'what': 'harness error ' + type(e).__name__, 'case': setup})
            ctx.case(setup)
            made += 1
    outs = drv.batch(lines)
    for (case, a, snaps, full, kind), out in zip(keep, outs):
        if kind == 'linspace':
            t = Toks(out)
            ctx.cmp_list('linspace', a, t.floats(), case, rtol=1e-12, atol=0.0)
        elif kind == 'rsample':
            t = Toks(out)
            ctx.cmp_list('RangeSampler sequence', a, [t.flt() for _ in range(len(t.t))], case, rtol=1e-12, atol=0.0)
        else:
            compare(ctx, case, a, snaps, full, kind, out)
    return finish(ctx, aud,
                  partial=['operands and the compensator optimiser enter the theorems as functions of the observable '
                           'prescription (hypothesis Resp); that the real ray tracer is such a function is C13',
                           'lenses with pickups/solves and a compensator are outside the theorems (the optimiser calls '
                           'Optic.update()); checked on the implementation only (finding F-C15-2)',
                           'dispersion is outside Model/Presc.lean (one index per medium): the index-variable clause is '
                           'proved at the variable\'s wavelength; other wavelengths are checked on the implementation '
                           '(finding F-C15-1, two-wavelength witness index_reset_code_loses_dispersion)'],
                  assumptions=['NumPy\'s seeded global generator reproduces its stream',
                               'scipy.optimize is deterministic for identical inputs (clause rows (b): rtol 1e-6)',
                               'float64 ~ real arithmetic: prescriptions compared with rtol/atol 1e-9'])
