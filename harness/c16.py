"""C16  Ray intensity is never created and is removed exactly as specified.

Correspondence (hard observables): per-surface `surface_group.intensity` of `Optic.trace_generic`
and of `Optic.trace(<named distribution>)`, and the `rays.i` returned by `Optic.trace`, against
`Model/Real.lean` at Float (driver command `rtrace`, fed with the implementation's own
object-surface record), on the domain where both sides have a finite ray at that surface
(the finite/non-finite class itself is compared too).  Soft: the positions x, y, z (C02's
business; a difference there is logged as model drift).

Search predicate (independent specification, written here from the property text): along every
ray 0 <= i <= 1, non-increasing, zero persists, and factor by factor
    i_j / i_{j-1} == exp(-4 pi k d / lambda * 1e3) * [r_min^2 <= x^2+y^2 <= r_max^2] * (T | R | 1)
with d the Euclidean length between the two recorded points, k = material_pre.k(lambda), (x, y)
the recorded point taken into the surface frame by `specgeom.to_local`; `rays.i` returned by
`Optic.trace` equals the last record; the intensity arrays reported by SpotDiagram,
EncircledEnergy, RayFan and Wavefront equal those of an independent trace of the same rays.

Streams: g = trace_generic on random skew rays; t = Optic.trace with named distributions;
a = analyses; p = polarization switched on (DESIGN F15); s = the bundled samples."""
import math, os, random, contextlib, io
import numpy as np
from .core import Driver, Ctx, audit, finish, fhex
from . import lensgen, realenc, specgeom, c02

GEO = ('x', 'y', 'z', 'L', 'M', 'N')
DISTS = ('hexapolar', 'uniform', 'line_x', 'line_y', 'cross', 'ring', 'positive_line_y')
F15_KEY = 'polarized-intensity-overwrite'


# ------------------------------------------------------------------ generators
def gen_desc(rng, plain=False):
    """lens descriptor inside C16's quantifier: radial apertures (with / without obscuration) on any
    surface incl. the image surface, absorbing ideal media, catalogue media with a k table, simple
    coatings 0 <= T, R <= 1, mirrors"""
    d = lensgen.gen_lens(rng, nsurf=rng.randint(1, 10) if rng.random() < 0.85 else rng.randint(1, 3),
                         allow_asphere=(not plain) and rng.random() < 0.15,
                         allow_tilt=(not plain) and rng.random() < 0.2,
                         catalog=rng.random() < 0.45,
                         apertures=rng.random() < 0.8, coatings=rng.random() < 0.75,
                         absorbing=rng.random() < 0.75)
    surfs = d['surfaces']
    semi = d['aperture'][1] / 2 if d['aperture'][0] == 'EPD' else 2.0
    for s in surfs[1:]:
        m = s.get('material', {'kind': 'air'})
        if m['kind'] == 'catalog' and rng.random() < 0.5:
            m['ref'] = 'schott'
        if m['kind'] == 'ideal' and 'k' in m and rng.random() < 0.25:      # strongly absorbing
            m['k'] = lensgen.dyadic(rng, 0, 64, 0) / 64 * 1e-5
        if m['kind'] == 'air' and s is not surfs[-1] and rng.random() < 0.08:   # absorbing gap
            s['material'] = {'kind': 'ideal', 'n': 1.0, 'k': lensgen.dyadic(rng, 0, 64, 0) / 64 * 1e-6}
        if s.get('aperture') and rng.random() < 0.4:       # aperture comparable with the beam
            s['aperture']['r_max'] = max(0.125, round(semi * rng.choice([0.4, 0.7, 0.9, 1.0, 1.2]) * 16) / 16)
            if 'r_min' in s['aperture']:
                s['aperture']['r_min'] = min(s['aperture']['r_min'], s['aperture']['r_max'] / 2)
        if s.get('coating') and rng.random() < 0.35:       # T and R independent, edge values
            s['coating'] = {'T': rng.choice([0.0, 1.0, lensgen.dyadic(rng, 0, 1, 6)]),
                            'R': rng.choice([0.0, 1.0, lensgen.dyadic(rng, 0, 1, 6)])}
    img = surfs[-1]
    if rng.random() < 0.3:
        img['aperture'] = {'r_max': lensgen.dyadic(rng, 0.25, 6.0, 4)}
        if rng.random() < 0.3:
            img['aperture']['r_min'] = lensgen.dyadic(rng, 0.0625, 0.2, 4)
    if rng.random() < 0.15:
        img['coating'] = {'T': lensgen.dyadic(rng, 0, 1, 6), 'R': 0.0}
    return d


def no_index_matched(rng, d):
    """stream p only: give every refracting surface an index step.  At an index-matched surface k_out equals
    k_in up to rounding, and PolarizedRays.update builds its s-vector from the cancelling cross product
    k_in x k_out; the polarization matrix is then orthogonal only to ~1e-6 (C17's business).  Keeping such
    surfaces out lets this stream judge F15 (and its repair) at 1e-9."""
    def sig(m):
        return ('n', 1.0) if m['kind'] == 'air' else ('n', float(m['n'])) if m['kind'] == 'ideal' else ('cat', m.get('name'))
    prev = ('n', 1.0)
    for s in d['surfaces'][1:]:
        m = s.get('material', {'kind': 'air'})
        if m['kind'] == 'mirror':
            continue
        if sig(m) == prev:
            n_new = lensgen.dyadic(rng, 1.3, 2.0, 8)
            if ('n', n_new) == prev:
                n_new += 0.25
            m = {'kind': 'ideal', 'n': n_new}
            s['material'] = m
        prev = sig(m)
    return d


def gen_cases(ctx):
    rng = ctx.rng
    q = ctx.quick()
    out = []
    for name, _ in lensgen.sample_classes():
        out.append({'stream': 's', 'sample': name, 'Hy': 0.0, 'nray': 24, 'seed': 1, 'wi': 0})
        out.append({'stream': 's', 'sample': name, 'Hy': 1.0, 'nray': 24, 'seed': 2, 'wi': -1})
    n_g, nray = (200, 64) if q else (15000, 256)
    for _ in range(n_g):
        c = {'stream': 'g', 'desc': gen_desc(rng), 'Hy': rng.choice([0.0, 1.0, -1.0, rng.uniform(-1, 1)]),
             'nray': nray, 'seed': rng.randint(0, 10 ** 9), 'wi': rng.randint(0, 2)}
        u = rng.random()
        if u < 0.15:
            # multi-step history: the finished lens is rescaled (apertures are scaled with it) and then traced
            c['post'] = [['warm'], ['scale', rng.choice([0.5, 2.0, 1.25, 0.8, rng.uniform(0.3, 3.0)])]]
        elif u < 0.22:
            c['desc']['via_setters'] = True
        out.append(c)
    for _ in range(60 if q else 3000):
        dist = rng.choice(DISTS)
        out.append({'stream': 't', 'desc': gen_desc(rng), 'Hx': rng.choice([0.0, 0.0, rng.uniform(-1, 1)]),
                    'Hy': rng.choice([0.0, 1.0, rng.uniform(-1, 1)]), 'dist': dist,
                    'num': rng.randint(2, 6) if dist == 'hexapolar' else rng.randint(3, 40), 'wi': rng.randint(0, 2)})
    for _ in range(14 if q else 400):
        out.append({'stream': 'a', 'desc': gen_desc(rng, plain=True),
                    'dist': rng.choice(['hexapolar', 'uniform', 'ring', 'cross']), 'num': rng.randint(2, 4)})
    for _ in range(10 if q else 200):
        pol = rng.choice(['unpolarized', 'x', 'y', 'circular'])
        out.append({'stream': 'p', 'desc': no_index_matched(rng, gen_desc(rng, plain=True)), 'pol': pol, 'Hy': rng.choice([0.0, 1.0]),
                    'num': rng.randint(2, 4), 'wi': 0})
    return out


# ------------------------------------------------------------------ driver encoding (fast paths)
def ray_tokens(rec0):
    arr = np.stack([np.asarray(rec0[f], dtype=float) for f in realenc.FIELDS], axis=1)
    h = arr.astype('>f8').tobytes().hex()
    return [str(arr.shape[0])] + [h[i:i + 16] for i in range(0, len(h), 16)]


def decode(line, nsurf, nray):
    if line.startswith('ok'):
        try:
            vals = np.frombuffer(bytes.fromhex(line[2:].replace(' ', '')), dtype='>f8').astype(float)
            vals = vals.reshape(nsurf, nray, 8)
        except ValueError:
            return ('error', line[:200])
        return {f: vals[:, :, k] for k, f in enumerate(realenc.FIELDS)}
    if line.startswith('reject'):
        return ('reject', '')
    return ('error', line[:200])


def finite_geo(rec):
    fin = np.ones(rec['x'].shape, dtype=bool)
    for f in GEO:
        fin &= np.isfinite(rec[f])
    return fin


# ------------------------------------------------------------------ correspondence
def vclose(a, b, rtol, atol):
    na, nb = np.isnan(a), np.isnan(b)
    inf = np.isinf(a) | np.isinf(b)
    with np.errstate(invalid='ignore'):
        ok = np.abs(a - b) <= atol + rtol * np.maximum(np.abs(a), np.abs(b))
    ok = np.where(inf, a == b, ok)
    return np.where(na | nb, na & nb, ok)


def compare(ctx, case, rec, mod, final_i=None):
    """hard: finite class + intensity where both finite; soft: positions"""
    fi, fm = finite_geo(rec), finite_geo(mod)
    nsurf, nray = fi.shape
    cls = fi != fm
    cls[0] = False
    if cls.any():
        j, r = np.argwhere(cls)[0]
        ctx.disagreements.append({'what': 'finite/non-finite class at surface %d ray %d' % (j, r),
                                  'impl': [float(rec[f][j, r]) for f in GEO],
                                  'model': [float(mod[f][j, r]) for f in GEO], 'case': case})
    both = fi & fm
    both[0] = False
    ctx.count('ray-surface: finite', int(both.sum()))
    ctx.count('ray-surface: non-finite (out of domain)', int((~both[1:]).sum()))
    pairs = [('intensity', rec['intensity'], mod['intensity'], both)]
    if final_i is not None:
        pairs.append(('rays.i', np.asarray(final_i, dtype=float)[None, :], mod['intensity'][-1:], both[-1:]))
    for name, A, B, mask in pairs:
        a, b = np.ascontiguousarray(A[mask]), np.ascontiguousarray(B[mask])
        bit = (a.view(np.uint64) == b.view(np.uint64)) | (np.isnan(a) & np.isnan(b))
        ctx.bitexact[1] += int(a.size)
        ctx.bitexact[0] += int(bit.sum())
        bad = ~bit & ~vclose(a, b, 1e-9, 1e-300)
        if bad.any():
            k = int(np.flatnonzero(bad)[0])
            where = np.argwhere(mask)[k]
            ctx.disagreements.append({'what': '%s[s%d,r%d]' % (name, int(where[0]) if name == 'intensity' else nsurf - 1,
                                                                 int(where[1])),
                                      'impl': repr(float(a[k])), 'model': repr(float(b[k])),
                                      'n_bad': int(bad.sum()), 'case': case})
    # soft: positions (C02's observable) -- model drift only
    for f in ('x', 'y', 'z'):
        bad = ~vclose(rec[f][both], mod[f][both], 1e-9, 1e-9)
        if bad.any():
            ctx.drift.append({'what': 'position %s differs on %d ray-surfaces' % (f, int(bad.sum())), 'case': case})
            break


# ------------------------------------------------------------------ independent specification
def k_of(material, w):
    """extinction coefficient at w; a catalogue entry without k table attenuates nothing (this is also
    what the repair proposed for DESIGN F16 does)"""
    try:
        return float(np.ravel(material.k(w))[0])
    except ValueError:
        return 0.0


def surface_factors(s, w):
    """(k, (r_max, r_min) | None, coating factor) or None when the surface is outside the quantifier"""
    from optiland.coatings import SimpleCoating
    from optiland.physical_apertures import RadialAperture
    from optiland.surfaces.image_surface import ImageSurface
    pre = s.material_pre if s.material_pre is not None else s.material_post
    k = k_of(pre, w)
    if not (k >= 0):
        return None
    ap = None
    if s.aperture is not None:
        if type(s.aperture) is not RadialAperture:
            return None
        ap = (float(s.aperture.r_max), float(s.aperture.r_min))
    cf = 1.0
    if s.coating is not None and not isinstance(s, ImageSurface):
        if type(s.coating) is not SimpleCoating:
            return None
        cf = float(s.coating.reflectance if s.is_reflective else s.coating.transmittance)
        if not (0.0 <= s.coating.reflectance <= 1.0 and 0.0 <= s.coating.transmittance <= 1.0):
            return None
    if getattr(s, 'bsdf', None):
        return None
    return k, ap, cf


def predicate(ctx, optic, case, rec, w, slack=1e-15):
    """C16's clauses on the implementation's per-surface records"""
    surfs = optic.surface_group.surfaces
    I = rec['intensity']
    nsurf, nray = I.shape
    fin = finite_geo(rec)
    alive = fin[0].copy()
    i_launch = I[0]
    bad = alive & ~((i_launch >= 0) & (i_launch <= 1))
    if bad.any():
        r = int(np.flatnonzero(bad)[0])
        ctx.fail('launched intensity lies in [0,1]', case, {'ray': r, 'i': float(i_launch[r])})
        return False
    for j in range(1, nsurf):
        s = surfs[j]
        alive &= fin[j]
        if not alive.any():
            ctx.count('pred: all rays lost before surface %s' % ('image' if j == nsurf - 1 else 'interior'))
            return True
        fac = surface_factors(s, w)
        if fac is None:
            ctx.count('pred: surface outside the quantifier (skipped rest of lens)')
            return True
        k, ap, cf = fac
        i0, i1 = I[j - 1], I[j]
        P1 = np.stack([rec['x'][j], rec['y'][j], rec['z'][j]], axis=1)
        P0 = np.stack([rec['x'][j - 1], rec['y'][j - 1], rec['z'][j - 1]], axis=1)
        with np.errstate(invalid='ignore', over='ignore'):
            d = np.sqrt(((P1 - P0) ** 2).sum(axis=1))
            att = np.exp(-4.0 * math.pi * k * (d * 1e3) / w)          # d mm -> µm, w in µm
            loc = specgeom.to_local(s.geometry.cs, P1)
            r2 = loc[:, 0] ** 2 + loc[:, 1] ** 2
        amb = np.zeros(nray, dtype=bool)
        if ap is None:
            ins = np.ones(nray)
        else:
            rmax2, rmin2 = ap[0] ** 2, ap[1] ** 2
            with np.errstate(invalid='ignore'):
                ins = ((r2 <= rmax2) & (r2 >= rmin2)).astype(float)
                # (a pure obscuration has r_max = inf: no outer edge to be near to)
                amb = (np.abs(r2 - rmax2) <= 1e-9 * max(rmax2, 1.0)) if math.isfinite(rmax2) else np.zeros(nray, dtype=bool)
                if ap[1] > 0:
                    amb |= np.abs(r2 - rmin2) <= 1e-9 * max(rmin2, 1.0)
        chk = alive & ~amb
        ctx.count('pred: ray-surface checked', int(chk.sum()))
        ctx.count('pred: ray-surface on the aperture edge (skipped)', int((alive & amb).sum()))
        ctx.count('pred: clipped here', int((chk & (ins == 0) & (i0 > 0)).sum()))
        if k > 0:
            ctx.count('pred: absorbing path', int(chk.sum()))
        if cf != 1.0:
            ctx.count('pred: coated ' + ('mirror' if s.is_reflective else 'refracting'), int(chk.sum()))
        expect = i0 * att * ins * cf
        with np.errstate(invalid='ignore'):
            tests = [
                ('intensity stays within [0,1] (surface %d)' % j, ~((i1 >= 0) & (i1 <= 1 + (slack if slack > 1e-15 else 0)))),
                ('intensity never increases (surface %d)' % j, ~(i1 <= i0 * (1 + slack))),
                ('a dark ray stays dark (surface %d)' % j, (i0 == 0) & ~(i1 == 0)),
                ('a ray outside the aperture is dark from that surface on (surface %d)' % j, (ins == 0) & ~(i1 == 0)),
                ('i_j = i_(j-1) * exp(-4 pi k d/lambda) * [inside aperture] * (T|R|1) and nothing else (surface %d)' % j,
                 ~(np.abs(i1 - expect) <= 1e-9 * np.maximum(np.abs(i1), np.abs(expect)) + 1e-300)),
            ]
        for clause, viol in tests:
            viol = viol & chk
            if viol.any():
                r = int(np.flatnonzero(viol)[0])
                ctx.fail(clause, case,
                         {'ray': r, 'i_before': float(i0[r]), 'i_after': float(i1[r]), 'n_rays_failing': int(viol.sum())},
                         {'i_after': float(expect[r]), 'k': k, 'd_mm': float(d[r]), 'wavelength_um': float(w),
                          'attenuation': float(att[r]), 'local_r2': float(r2[r]), 'aperture(r_max,r_min)': ap,
                          'inside': float(ins[r]), 'coating_factor': cf, 'mirror': bool(s.is_reflective)})
                return False
    return True


def same_array(a, b):
    a = np.asarray(a, dtype=float).ravel()
    b = np.asarray(b, dtype=float).ravel()
    if a.shape != b.shape:
        return False
    return bool(np.all((a == b) | (np.isnan(a) & np.isnan(b))))


# ------------------------------------------------------------------ streams
def wavelength_of(optic, case):
    wl = optic.wavelengths.get_wavelengths()
    wi = case.get('wi', 0)
    return wl[wi % len(wl)] if wi >= 0 else wl[-1]


def prepare(ctx, case):
    """build + trace with the implementation.  -> None (skipped) or dict"""
    try:
        optic = lensgen.build_case(case)
    except Exception as e:  # noqa
        ctx.count('build_error:' + type(e).__name__)
        return None
    w = wavelength_of(optic, case)
    st = case['stream']
    final_i = None
    try:
        if st in ('g', 's'):
            px, py = c02.disk_points(random.Random(case['seed']), case['nray'])
            rays = optic.trace_generic(0.0, float(case['Hy']), px.copy(), py.copy(), w)
            final_i = np.array(rays.i, dtype=float)
        else:
            rays = optic.trace(float(case.get('Hx', 0.0)), float(case['Hy']), w, case['num'], case['dist'])
            final_i = np.array(rays.i, dtype=float)
    except Exception as e:  # noqa
        msg = str(e)
        if isinstance(e, ValueError) and 'No extinction coefficient data' in msg:
            # DESIGN F16: outside C16's quantifier (no k defined, nothing traced, no intensity to judge)
            ctx.count('out of quantifier: medium without k table, trace raises (F16)')
            ctx.f16.add(case.get('sample', 'generated'))
        else:
            ctx.count('impl_error:' + type(e).__name__)
        ctx.case({k: v for k, v in case.items() if k != 'desc'} | {'trace': 'raises'}, nontrivial=False)
        return None
    rec = realenc.impl_records(optic)
    return {'case': case, 'optic': optic, 'w': w, 'rec': rec, 'final_i': final_i}


def stream_counts(ctx, optic, case):
    surfs = optic.surface_group.surfaces
    ctx.count('stream:' + case['stream'])
    ctx.count('nsurf=%d' % len(surfs))
    aps = [s.aperture for s in surfs if s.aperture is not None]
    if aps:
        ctx.count('lens has aperture')
    if any(getattr(a, 'r_min', 0) > 0 for a in aps):
        ctx.count('lens has central obscuration')
    if any(s.is_reflective for s in surfs):
        ctx.count('lens has mirror')
    if any(s.coating is not None for s in surfs):
        ctx.count('lens has coating')
    if any(s.coating is not None and s.is_reflective for s in surfs):
        ctx.count('lens has coated mirror')
    if any(type(s.material_post).__name__ == 'Material' for s in surfs):
        ctx.count('lens has catalogue medium')
    if any(type(s.material_post).__name__ == 'IdealMaterial' and s.material_post.absorp > 0 for s in surfs):
        ctx.count('lens has absorbing ideal medium')


def run_traced(ctx, cases, drv):
    """streams g, s, t: correspondence with the model + predicate"""
    lines, keep = [], []
    for case in cases:
        p = prepare(ctx, case)
        if p is None:
            continue
        optic, w, rec = p['optic'], p['w'], p['rec']
        ctx.case({k: v for k, v in case.items()}, nontrivial=True)
        stream_counts(ctx, optic, case)
        predicate(ctx, optic, case, rec, w)
        if p['final_i'] is not None:
            if not same_array(p['final_i'], rec['intensity'][-1]):
                r = int(np.flatnonzero(~((p['final_i'] == rec['intensity'][-1]) |
                                         (np.isnan(p['final_i']) & np.isnan(rec['intensity'][-1]))))[0])
                ctx.fail('rays.i returned by Optic.trace / trace_generic equals surface_group.intensity[-1]', case,
                         {'ray': r, 'rays.i': float(p['final_i'][r]), 'record': float(rec['intensity'][-1][r])})
        try:
            toks = realenc.lens_tokens(optic, w) + ray_tokens({f: rec[f][0] for f in realenc.FIELDS})
        except Exception as e:  # noqa
            ctx.count('encode_error:' + type(e).__name__)
            continue
        lines.append('rtrace ' + ' '.join(toks))
        keep.append((case, rec, p['final_i']))
        p['optic'] = None
    outs = drv.batch(lines)
    for (case, rec, final_i), line in zip(keep, outs):
        nsurf, nray = rec['x'].shape
        mod = decode(line, nsurf, nray)
        if isinstance(mod, tuple):
            ctx.disagreements.append({'what': 'model ' + mod[0], 'model': mod[1], 'case': case})
            continue
        compare(ctx, case, rec, mod, final_i)


def run_analysis(ctx, case):
    """analysis intensity arrays equal the intensities of an independent trace of the same rays"""
    from optiland.analysis import SpotDiagram, EncircledEnergy, RayFan
    from optiland.wavefront import Wavefront
    try:
        optic = lensgen.build_case(case)
    except Exception as e:  # noqa
        ctx.count('build_error:' + type(e).__name__)
        return
    fields = optic.fields.get_field_coords()
    wls = optic.wavelengths.get_wavelengths()
    dist, num = case['dist'], case['num']
    ctx.case(case, nontrivial=True)
    ctx.count('stream:a')

    def ref(f, wl, n, d):
        rays = optic.trace(f[0], f[1], wl, n, d)
        rec = realenc.impl_records(optic)
        predicate(ctx, optic, case, rec, wl)
        return np.array(rays.i, dtype=float), np.array(optic.surface_group.intensity[-1], dtype=float)

    def check(name, got, f, wl, n, d):
        ri, last = ref(f, wl, n, d)
        ctx.count('analysis arrays compared: ' + name)
        if not same_array(got, ri) or not same_array(got, last):
            ctx.fail('%s intensity equals the traced rays\' intensity' % name, case,
                     {'field': list(f), 'wavelength': wl, 'analysis': np.asarray(got, dtype=float).tolist()[:8]},
                     {'rays.i': ri.tolist()[:8], 'record': last.tolist()[:8]})
            return False
        return True

    with contextlib.redirect_stdout(io.StringIO()):
        try:
            sd = SpotDiagram(optic, num_rings=num, distribution=dist)
            for a, f in enumerate(fields):
                for b, wl in enumerate(wls):
                    if not check('SpotDiagram', sd.data[a][b][2], f, wl, num, dist):
                        return
        except Exception as e:  # noqa
            ctx.count('analysis_error:SpotDiagram:' + type(e).__name__)
        try:
            ee = EncircledEnergy(optic, num_rays=num, distribution=dist)
            for a, f in enumerate(fields):
                if not check('EncircledEnergy', ee.data[a][0][2], f, optic.primary_wavelength, num, dist):
                    return
        except Exception as e:  # noqa
            ctx.count('analysis_error:EncircledEnergy:' + type(e).__name__)
        try:
            npts = 2 * num + 3
            rf = RayFan(optic, num_points=npts)
            for f in fields:
                for wl in wls:
                    dd = rf.data['%s' % (f,)]['%s' % wl]
                    if not check('RayFan.x', dd['intensity_x'], f, wl, npts, 'line_x'):
                        return
                    if not check('RayFan.y', dd['intensity_y'], f, wl, npts, 'line_y'):
                        return
        except Exception as e:  # noqa
            ctx.count('analysis_error:RayFan:' + type(e).__name__)
        try:
            wf = Wavefront(optic, num_rays=num, distribution=dist)
            for a, f in enumerate(fields):
                for b, wl in enumerate(wls):
                    if not check('Wavefront', wf.data[a][b][1], f, wl, num, dist):
                        return
        except Exception as e:  # noqa
            ctx.count('analysis_error:Wavefront:' + type(e).__name__)


def overwrite_value(rays, pol):
    """what `PolarizedRays.update_intensity` puts into rays.i: sum |P E0|^2 with the accumulated 3x3
    polarization matrices P and the launch field E0 (s/p basis built from the launch direction and the
    x axis), averaged over the two basis states and scaled by the launch intensity when unpolarized.
    Recomputed here only to recognise finding F15 exactly; it knows nothing of clip / absorption / coating."""
    try:
        P = np.asarray(rays.p)
        kv = np.array([rays._L0, rays._M0, rays._N0]).T
        pv = np.cross(kv, np.array([1.0, 0.0, 0.0]))
        pv /= np.linalg.norm(pv, axis=1)[:, None]
        sv = np.cross(pv, kv)

        def out(ex, ey):
            E = ex * sv + ey * pv
            return (np.abs(np.einsum('nij,nj->ni', P, E)) ** 2).sum(axis=1)
        if pol == 'unpolarized':
            return (out(1.0, 0.0) + out(0.0, 1.0)) * np.asarray(rays._i0, dtype=float) / 2
        ex, ey = {'x': (1.0, 0.0), 'y': (0.0, 1.0), 'circular': (math.sqrt(0.5), 1j * math.sqrt(0.5))}[pol]    # PolarizationState normalises (Ex, Ey)
        return out(ex, ey)
    except Exception:  # noqa
        return None


def run_polarized(ctx, case):
    """DESIGN F15: the same lens traced with polarization ignored and switched on"""
    from optiland.rays import PolarizationState
    try:
        optic = lensgen.build_case(case)
    except Exception as e:  # noqa
        ctx.count('build_error:' + type(e).__name__)
        return
    w = wavelength_of(optic, case)
    try:
        r0 = optic.trace(0.0, float(case['Hy']), w, case['num'], 'hexapolar')
    except Exception as e:  # noqa
        ctx.count('impl_error:' + type(e).__name__)
        return
    base_i = np.array(r0.i, dtype=float)
    base_rec = np.array(optic.surface_group.intensity, dtype=float)
    state = {'unpolarized': PolarizationState(is_polarized=False),
             'x': PolarizationState(is_polarized=True, Ex=1.0, Ey=0.0, phase_x=0.0, phase_y=0.0),
             'y': PolarizationState(is_polarized=True, Ex=0.0, Ey=1.0, phase_x=0.0, phase_y=0.0),
             'circular': PolarizationState(is_polarized=True, Ex=1.0, Ey=1.0, phase_x=0.0, phase_y=math.pi / 2)}[case['pol']]
    optic.set_polarization(state)
    try:
        r1 = optic.trace(0.0, float(case['Hy']), w, case['num'], 'hexapolar')
    except Exception as e:  # noqa
        ctx.count('impl_error(polarized):' + type(e).__name__)
        return
    ctx.case(case, nontrivial=True)
    ctx.count('stream:p')
    pol_i = np.array(r1.i, dtype=float)
    pol_rec = np.array(optic.surface_group.intensity, dtype=float)
    rec = realenc.impl_records(optic)
    fin = finite_geo(rec)[-1]
    # the per-surface records do not depend on the polarization switch (no Fresnel coating in this domain;
    # tolerance: a repaired write-back puts rays.i = record * sum|P E0|^2 = record * (1 +- rounding) there)
    if pol_rec.shape != base_rec.shape or not bool(np.all(vclose(pol_rec, base_rec, 1e-9, 1e-300))):
        ctx.fail('per-surface intensities with polarization on equal those with polarization ignored '
                 '(lens without polarizing coatings)', case, {'first': pol_rec[-1][:6].tolist()},
                 {'first': base_rec[-1][:6].tolist()})
        return
    predicate(ctx, optic, case, rec, w, slack=1e-9)
    with np.errstate(invalid='ignore'):
        diff = fin & ~(np.abs(pol_i - pol_rec[-1]) <= 1e-9 * np.maximum(np.abs(pol_i), np.abs(pol_rec[-1])) + 1e-300)
    if diff.any():
        # recognise exactly F15: update_intensity replaced rays.i by |P E0|^2 (= launch intensity 1 for a lens
        # without polarizing coatings), discarding clip / Beer-Lambert / SimpleCoating factors, and the write-back
        # into surface_group.intensity[-1] did not reach the record
        over = overwrite_value(r1, case['pol'])
        recognised = over is not None and bool(np.all(np.abs(pol_i[fin] - over[fin]) <= 1e-9)) and \
            same_array(base_i, base_rec[-1])
        r = int(np.flatnonzero(diff)[0])
        ctx.count('F15: polarized rays.i overwritten (rays)', int(diff.sum()))
        ctx.fail('rays.i returned by Optic.trace equals surface_group.intensity[-1] (polarization on)', case,
                 {'ray': r, 'rays.i': float(pol_i[r]), 'record': float(pol_rec[-1][r]),
                  'rays_with_zero_record_but_nonzero_rays.i': int((fin & (pol_rec[-1] == 0) & (pol_i != 0)).sum()),
                  'n_rays': int(fin.sum())},
                 {'rays.i': float(pol_rec[-1][r])}, finding_key=F15_KEY if recognised else None)
    else:
        ctx.count('polarized: rays.i equals the record')


def run_chunk(ctx, cases):
    drv = Driver()
    traced = [c for c in cases if c['stream'] in ('g', 's', 't')]
    step = 100
    for a in range(0, len(traced), step):
        run_traced(ctx, traced[a:a + step], drv)
    for c in cases:
        if c['stream'] == 'a':
            run_analysis(ctx, c)
        elif c['stream'] == 'p':
            run_polarized(ctx, c)


# ------------------------------------------------------------------ multiprocessing
def _new_ctx(tier, seed):
    ctx = Ctx('C16', tier, seed)
    ctx.f16 = set()
    return ctx


def _worker(args):
    tier, seed, cases = args
    ctx = _new_ctx(tier, seed)
    run_chunk(ctx, cases)
    return {'stats': ctx.stats, 'samples': ctx.samples, 'evaluations': ctx.evaluations, 'distinct': ctx.distinct,
            'disagreements': ctx.disagreements[:20], 'n_dis': len(ctx.disagreements), 'drift': ctx.drift[:20],
            'failures': ctx.failures[:20], 'known_hits': ctx.known_hits, 'bitexact': ctx.bitexact, 'f16': ctx.f16}


def _merge(ctx, res):
    for k, v in res['stats'].items():
        ctx.count(k, v)
    for s in res['samples']:
        if len(ctx.samples) < 3:
            ctx.samples.append(s)
    ctx.evaluations += res['evaluations']
    ctx.distinct |= res['distinct']
    ctx.disagreements += res['disagreements']
    ctx.drift += res['drift']
    ctx.failures += res['failures']
    for k, v in res['known_hits'].items():
        ctx.known_hits.setdefault(k, v)
    ctx.bitexact[0] += res['bitexact'][0]
    ctx.bitexact[1] += res['bitexact'][1]
    ctx.f16 |= res['f16']


def run(tier, seed, replay=None):
    ctx = _new_ctx(tier, seed)
    ctx.stats['rule'] = ('24 samples x 2 fields + generated lenses (1-10 surfaces; radial apertures with/without central '
                         'obscuration on any surface incl. the image surface; ideal media with k in [0,1e-5], catalogue '
                         'glasses with k tables; SimpleCoating with T,R in [0,1] on refracting surfaces and mirrors; '
                         'tilts/decentres, aspheres) traced with trace_generic (random skew rays), Optic.trace (named '
                         'distributions), through analyses, and with polarization switched on; distinct by '
                         'descriptor hash; non-trivial = the lens builds and the trace runs')
    aud = audit('C16')
    if replay:
        if 'stream' not in replay:
            replay = dict(replay, stream='g')
        run_chunk(ctx, [replay])
    else:
        cases = gen_cases(ctx)
        nproc = int(os.environ.get('VERIF_PROCS', '0') or 0) or min(4 if ctx.quick() else 12, os.cpu_count() or 1)
        size = 25 if ctx.quick() else 150
        chunks = [(tier, seed, cases[a:a + size]) for a in range(0, len(cases), size)]
        if nproc <= 1:
            results = [_worker(c) for c in chunks]
        else:
            import multiprocessing as mp
            with mp.get_context('fork').Pool(nproc) as pool:
                results = pool.map(_worker, chunks, chunksize=1)
        for res in results:
            _merge(ctx, res)
    if ctx.f16:
        ctx.notes.append('DESIGN F16 (outside C16\'s quantifier, not a C16 violation): tracing raises ValueError in '
                         'RealRays.propagate for media whose catalogue entry has no k table: ' + ', '.join(sorted(ctx.f16)))
    return finish(ctx, aud,
                  partial=['the distance t >= 0 is a hypothesis of the whole-lens theorems (proved for planes, Newton-Raphson '
                           'shapes and the quadratic branch of the conic; the linear branch a = 0 returns -c/b unmasked)',
                           'equality of analysis intensity arrays with the traced rays is checked numerically only'],
                  assumptions=['extinction coefficients / indices are taken from the implementation at the ray wavelength (C18)',
                               'rays whose position or direction is non-finite at a surface are outside the domain from there on (C02)',
                               'IEEE-754 arithmetic is NaN-strict and deterministic'])
