"""C17  Fresnel coefficients conserve energy; polarization elements obey their algebra.

Correspondence (hard observables, `Model/Polar.lean` at Float through the native driver):
  A  `JonesFresnel(...).calculate_matrix(rays, reflect, aoi)` diagonal entries on a grid + random
     sample of index pairs in [1,4]^2 and angles in [0, 90 deg) below the critical angle;
  B  every `Jones*` element matrix over angles / retardances / transmissions, `PolarizationState`
     normalisation and `create_polarization`;
  C  single-surface interactions: `rays.refract/reflect` followed by `FresnelCoating.interact` or
     `rays.update()` -> `rays.p` (covers `_compute_aoi`, both branches of the s-vector choice);
  D  `rays.p`, `rays.i` and the output field after `optic.trace` with a `PolarizationState` on
     the bundled samples and generated lenses, uncoated and with Fresnel coatings; the model is
     fed the implementation's own per-surface pre/post directions (arguments of the public
     `PolarizedRays.update`) and angles of incidence (argument of `calculate_matrix`).

Failing-input search (independent specification written here, evaluated on the implementation):
energy conservation with the transmittance factor (n2 cos t)/(n1 cos i) from Snell's law,
Brewster zero and sign change, normal incidence; projector / unitarity / retardance / rotation
covariance of the elements; uncoated trace => intensity preserved and E.k = 0; coated trace =>
unpolarized = mean of two orthogonal states.

Soft observables: matrices beyond the critical angle (outside the property's quantifier); the
matrix / field of an exactly retro-reflected ray (k1 == -k0: any unit s perpendicular to k0 is
admissible, the code's k0 x xhat is an incidental choice; the intensity stays a hard observable)."""
import math, cmath
from fractions import Fraction
import numpy as np
from .core import fhex, b01, Driver, Ctx, audit, finish
from . import lensgen

TOL = 1e-9
NAMED = ['H', 'V', 'L+45', 'L-45', 'RCP', 'LCP']
ELEM_OF_STATE = {'H': 'H', 'V': 'V', 'L+45': 'L45', 'L-45': 'L135', 'RCP': 'RCP', 'LCP': 'LCP'}
K_DIAT = 'diattenuator-offdiag-precedence'
K_PAR = 'kvec-near-parallel'
K_TILT = 'tilted-surface-local-frame'
INF_ = lensgen.INF


# ------------------------------------------------------------------------------ helpers
def unhex_arr(line):
    return np.array([int(t, 16) for t in line.split()], dtype=np.uint64).view(np.float64)


def cmp_arrays(ctx, what, impl, model, case_of, rtol=1e-9, atol=1e-12, hard=True):
    """vectorised ctx.cmp: NaN matches NaN, infinities by sign, finite within tolerance"""
    impl = np.ascontiguousarray(np.asarray(impl, dtype=np.float64).ravel())
    model = np.ascontiguousarray(np.asarray(model, dtype=np.float64).ravel())
    if impl.size != model.size:
        ctx.disagreements.append({'what': what + ' (length)', 'impl': int(impl.size), 'model': int(model.size),
                                  'case': case_of(0)})
        return False
    same = (impl.view(np.uint64) == model.view(np.uint64)) | (np.isnan(impl) & np.isnan(model))
    ctx.bitexact[1] += int(impl.size)
    ctx.bitexact[0] += int(same.sum())
    fin = np.isfinite(impl) & np.isfinite(model)
    with np.errstate(invalid='ignore'):
        ok = same | (impl == model) | (fin & (np.abs(impl - model) <= atol + rtol * np.maximum(np.abs(impl),
                                                                                              np.abs(model))))
    bad = np.nonzero(~ok)[0]
    for idx in bad[:3]:
        rec = {'what': '%s[%d]' % (what, idx), 'impl': repr(float(impl[idx])), 'model': repr(float(model[idx])),
               'case': case_of(int(idx))}
        (ctx.disagreements if hard else ctx.drift).append(rec)
    return bad.size == 0


def cplx_flat(a):
    """complex array -> interleaved (re, im) floats, row-major"""
    a = np.asarray(a, dtype=complex).ravel()
    out = np.empty(2 * a.size)
    out[0::2] = a.real
    out[1::2] = a.imag
    return out


def v3hex(v):
    return ' '.join(fhex(x) for x in v)


def rot2(t):
    c, s = math.cos(t), math.sin(t)
    return np.array([[c, -s], [s, c]])


def make_rays(n=1):
    from optiland.rays import RealRays
    z = np.zeros(n)
    return RealRays(z.copy(), z.copy(), z.copy(), z.copy(), z.copy(), np.ones(n), np.ones(n), np.full(n, 0.55))


# ------------------------------------------------------------------------------ part A: Fresnel
def fresnel_groups(ctx):
    """(n1, n2, [angles]) groups; every angle lies in [0, 90 deg) and below the critical angle"""
    if ctx.quick():
        npairs, nang = 100, 40
    else:
        npairs, nang = 2000, 200
    grid = [1.0, 1.5, 2.0, 2.5, 3.0, 3.5, 4.0]
    pairs = [(a, b) for a in grid for b in grid]
    while len(pairs) < npairs:
        u = ctx.rng.random()
        if u < 0.1:
            a = ctx.rng.uniform(1, 4)
            pairs.append((a, a))                                   # equal indices
        elif u < 0.2:
            a = ctx.rng.uniform(1, 4)
            pairs.append((a, min(4.0, max(1.0, a + ctx.rng.uniform(-1e-3, 1e-3)))))
        else:
            pairs.append((ctx.rng.uniform(1, 4), ctx.rng.uniform(1, 4)))
    pairs = pairs[:npairs]
    groups = []
    for n1, n2 in pairs:
        tmax = math.pi / 2 if n2 >= n1 else math.asin(n2 / n1)
        angles = [0.0, math.atan(n2 / n1)]                         # normal incidence, Brewster
        m = nang - len(angles)
        for j in range(m // 2):                                    # grid
            angles.append(tmax * (j + 0.5) / (m // 2) * 0.9999)
        while len(angles) < nang:                                  # random, some close to the limit
            f = ctx.rng.random()
            if ctx.rng.random() < 0.15:
                f = 1 - 10 ** ctx.rng.uniform(-6, -2)
            angles.append(tmax * f * 0.9999)
        groups.append({'part': 'fresnel', 'n1': n1, 'n2': n2, 'angles': angles})
    # a few groups beyond the critical angle: outside the quantifier, soft comparison only
    for _ in range(3 if ctx.quick() else 50):
        n1 = ctx.rng.uniform(1.2, 4)
        n2 = ctx.rng.uniform(1, n1 / 1.1)
        tc = math.asin(n2 / n1)
        groups.append({'part': 'fresnel', 'n1': n1, 'n2': n2, 'tir': True,
                       'angles': [ctx.rng.uniform(tc * 1.001, math.pi / 2 * 0.999) for _ in range(10)]})
    return groups


def fresnel_impl(g):
    from optiland.jones import JonesFresnel
    from optiland.materials import IdealMaterial
    ang = np.array(g['angles'], dtype=float)
    rays = make_rays(ang.size)
    J = JonesFresnel(IdealMaterial(g['n1']), IdealMaterial(g['n2']))
    return J.calculate_matrix(rays, reflect=True, aoi=ang.copy()), J.calculate_matrix(rays, reflect=False,
                                                                                     aoi=ang.copy())


def fresnel_lines(g):
    out = []
    for a in g['angles']:
        for r in (True, False):
            out.append('polfresnel %s %s %s %s' % (fhex(g['n1']), fhex(g['n2']), fhex(a), b01(r)))
    return out


def fresnel_eval(ctx, g, outs):
    n1, n2 = g['n1'], g['n2']
    ang = np.array(g['angles'], dtype=float)
    tir = bool(g.get('tir'))

    def case_of(i):
        return {'part': 'fresnel', 'n1': n1, 'n2': n2, 'angles': [float(ang[min(i, ang.size - 1)])], 'tir': tir}
    try:
        Jr, Jt = fresnel_impl(g)
    except Exception as e:  # noqa
        ctx.fail('JonesFresnel.calculate_matrix raises %s' % type(e).__name__, case_of(0), str(e))
        return
    model = np.array([unhex_arr(o) for o in outs]).reshape(ang.size, 2, 6)
    for k, (J, name) in enumerate(((Jr, 'reflect'), (Jt, 'transmit'))):
        diag = np.stack([J[:, 0, 0], J[:, 1, 1], J[:, 2, 2]], axis=1)
        cmp_arrays(ctx, 'JonesFresnel.%s diag' % name, cplx_flat(diag), model[:, k, :],
                   lambda i: case_of(i // 6), hard=not tir)
    for i in range(ang.size):
        ctx.case({'fresnel': [n1, n2, float(ang[i])]})
    if tir:
        ctx.count('fresnel: beyond critical angle (soft)', ang.size)
        return
    ctx.count('fresnel points', ang.size)
    ctx.count('fresnel n2>n1' if n2 > n1 else 'fresnel n2<n1' if n2 < n1 else 'fresnel n2==n1', ang.size)
    # ---- property predicates on the implementation, independent formulas
    ci = np.cos(ang)
    st = n1 * np.sin(ang) / n2                     # Snell
    ct = np.sqrt(np.maximum(0.0, 1 - st * st))
    fac = (n2 * ct) / (n1 * ci)
    rs, rp, rk = Jr[:, 0, 0], Jr[:, 1, 1], Jr[:, 2, 2]
    ts, tp, tk = Jt[:, 0, 0], Jt[:, 1, 1], Jt[:, 2, 2]
    for J, nm, kk in ((Jr, 'reflect', -1.0), (Jt, 'transmit', 1.0)):
        off = J.copy()
        off[:, 0, 0] = off[:, 1, 1] = off[:, 2, 2] = 0
        if np.any(off != 0) or np.any(J[:, 2, 2] != kk):
            i = int(np.nonzero(np.any(off != 0, axis=(1, 2)) | (J[:, 2, 2] != kk))[0][0])
            ctx.fail('Fresnel Jones matrix (%s) is diag(s, p, %+d)' % (nm, kk), case_of(i), J[i].tolist())
        if np.any(np.abs(np.stack([J[:, 0, 0], J[:, 1, 1]]).imag) > 1e-12):
            i = int(np.nonzero(np.abs(J[:, 0, 0].imag) + np.abs(J[:, 1, 1].imag) > 1e-12)[0][0])
            ctx.fail('Fresnel coefficients are real below the critical angle (%s)' % nm, case_of(i),
                     [complex(J[i, 0, 0]), complex(J[i, 1, 1])])
    es = np.abs(rs) ** 2 + fac * np.abs(ts) ** 2 - 1
    ep = np.abs(rp) ** 2 + fac * np.abs(tp) ** 2 - 1
    # n^2 - sin^2 is a difference of two rounded numbers of size n^2: its relative error, hence that of
    # cos(theta_t) and of T, is ~ eps * n^2 / (n^2 - sin^2) however the formula is arranged (grazing / critical)
    nn = (n2 / n1) ** 2
    tol_e = TOL + 8 * 2.2e-16 * nn / np.maximum(nn - np.sin(ang) ** 2, 1e-300)
    for e, nm in ((es, 's'), (ep, 'p')):
        bad = np.nonzero(~(np.abs(e) <= tol_e))[0]
        if bad.size:
            i = int(bad[0])
            ctx.fail('R_%s + T_%s = 1 with T = (n2 cos t)/(n1 cos i) |t|^2' % (nm, nm), case_of(i),
                     float(e[i] + 1), 1.0)
    # Brewster: angles[1] is atan(n2/n1); r_p changes sign there (n1 != n2), vanishes identically for n1 == n2
    if not g.get('single'):
        if abs(n1 - n2) > 0:
            if not abs(rp[1]) <= 1e-12:
                ctx.fail('p reflection vanishes at the Brewster angle atan(n2/n1)', case_of(1), complex(rp[1]), 0.0)
            if abs(n2 / n1 - 1) > 1e-6:
                d = ang - ang[1]
                far = np.abs(d) > 1e-6
                # matrix entry is -r_p; r_p has the sign of (n-1) below Brewster, the opposite above
                want = np.sign(n2 / n1 - 1) * np.sign(-d)
                bad = np.nonzero(far & (np.sign((-rp).real) != want))[0]
                if bad.size:
                    i = int(bad[0])
                    ctx.fail('r_p = 0 only at tan(theta) = n2/n1 (sign of r_p away from the Brewster angle)',
                             case_of(i), complex(-rp[i]), float(want[i]))
        else:
            # sqrt(1 - sin^2) against cos loses ~1e-16/cos^2 near grazing incidence: amplitude tolerance 1e-7
            badr = np.nonzero((np.abs(rp) > 1e-7) | (np.abs(rs) > 1e-7))[0]
            if badr.size:
                i = int(badr[0])
                ctx.fail('equal indices reflect nothing', case_of(i), [complex(rs[i]), complex(rp[i])], 0.0)
        # normal incidence: angles[0] == 0
        R0 = ((n1 - n2) / (n1 + n2)) ** 2
        for v, nm in ((abs(rs[0]) ** 2, 's'), (abs(rp[0]) ** 2, 'p')):
            if not abs(v - R0) <= 1e-12:
                ctx.fail('normal-incidence reflectance (%s) equals ((n1-n2)/(n1+n2))^2' % nm, case_of(0), float(v), R0)


# ------------------------------------------------------------------------------ part B: elements
def element_cases(ctx):
    cs = [{'part': 'element', 'kind': k} for k in ('H', 'V', 'L45', 'L135', 'RCP', 'LCP')]
    for nm in NAMED + ['unpolarized', 'bogus']:
        cs.append({'part': 'named', 'name': nm})
    n = 300 if ctx.quick() else 20000
    special = [0.0, math.pi / 2, math.pi / 4, -math.pi / 4, math.pi, 0.5]
    for i in range(n):
        th = ctx.rng.choice(special) if ctx.rng.random() < 0.15 else ctx.rng.uniform(-2 * math.pi, 2 * math.pi)
        d = ctx.rng.choice(special) if ctx.rng.random() < 0.15 else ctx.rng.uniform(-2 * math.pi, 2 * math.pi)
        tmax = ctx.rng.choice([1.0, 0.5]) if ctx.rng.random() < 0.2 else ctx.rng.uniform(0, 1)
        tmin = ctx.rng.choice([0.0, 0.2]) if ctx.rng.random() < 0.2 else ctx.rng.uniform(0, tmax)
        cs.append({'part': 'element', 'kind': 'diat', 'tmin': tmin, 'tmax': tmax, 'theta': th})
        cs.append({'part': 'element', 'kind': 'ret', 'd': d, 'theta': th})
        cs.append({'part': 'element', 'kind': 'qwp', 'theta': th})
        cs.append({'part': 'element', 'kind': 'hwp', 'theta': th})
        cs.append({'part': 'state', 'Ex': ctx.rng.uniform(-3, 3), 'Ey': ctx.rng.uniform(-3, 3),
                   'px': ctx.rng.uniform(-math.pi, math.pi), 'py': ctx.rng.uniform(-math.pi, math.pi)})
    return cs


def element_impl(c):
    from optiland import jones
    k = c['kind']
    if k == 'diat':
        el = jones.JonesLinearDiattenuator(c['tmin'], c['tmax'], c['theta'])
    elif k == 'ret':
        el = jones.JonesLinearRetarder(c['d'], c['theta'])
    elif k == 'qwp':
        el = jones.JonesQuarterWaveRetarder(c['theta'])
    elif k == 'hwp':
        el = jones.JonesHalfWaveRetarder(c['theta'])
    else:
        el = getattr(jones, 'JonesPolarizer' + k)()
    J = el.calculate_matrix(make_rays(2))
    return np.asarray(J)


def element_line(c):
    k = c['kind']
    if k == 'diat':
        return 'polelem diat %s %s %s' % (fhex(c['tmin']), fhex(c['tmax']), fhex(c['theta']))
    if k == 'ret':
        return 'polelem ret %s %s' % (fhex(c['d']), fhex(c['theta']))
    if k in ('qwp', 'hwp'):
        return 'polelem %s %s' % (k, fhex(c['theta']))
    return 'polelem ' + k


def state_vector(st):
    return np.array([st.Ex * cmath.exp(1j * st.phase_x), st.Ey * cmath.exp(1j * st.phase_y)])


def element_eval(ctx, c, out):
    from optiland.rays.polarization_state import create_polarization
    ctx.case(c)
    k = c['kind']
    ctx.count('element ' + k)
    try:
        J = element_impl(c)
    except Exception as e:  # noqa
        ctx.fail('Jones element raises %s' % type(e).__name__, c, str(e))
        return
    if J.shape != (2, 3, 3) or not np.array_equal(J[0], J[1]):
        ctx.fail('Jones element is one 3x3 matrix per ray', c, list(J.shape))
        return
    J = J[0]
    m = unhex_arr(out)
    pad = J.copy()
    pad[:2, :2] = 0
    pad[2, 2] -= 1
    if np.any(pad != 0):
        ctx.fail('Jones element is a 2x2 block padded with [2,2] = 1', c, J.tolist())
    B = J[:2, :2]
    I2 = np.eye(2)
    if k == 'diat':
        code, spec = m[:18], m[18:]
        t, tmin, tmax = c['theta'], c['tmin'], c['tmax']
        ok_code = bool(np.allclose(cplx_flat(J), code, rtol=1e-9, atol=1e-12))
        ok_spec = bool(np.allclose(cplx_flat(J), spec, rtol=1e-9, atol=1e-12))
        if ok_spec and not ok_code:
            ctx.count('diattenuator agrees with _spec (defect repaired upstream)')
            cmp_arrays(ctx, 'JonesLinearDiattenuator (spec)', cplx_flat(J), spec, lambda i: c)
        else:
            cmp_arrays(ctx, 'JonesLinearDiattenuator (code)', cplx_flat(J), code, lambda i: c)
        want = rot2(t) @ np.diag([tmax, tmin]) @ rot2(-t)
        if not np.allclose(B, want, rtol=0, atol=TOL):
            known = abs(B[0, 1] - (tmax - tmin * math.cos(t) * math.sin(t))) <= 1e-12 and \
                abs(B[1, 0] - B[0, 1]) == 0 and abs(B[0, 0] - want[0, 0]) <= 1e-12 and abs(B[1, 1] - want[1, 1]) <= 1e-12
            ctx.fail('diattenuator at angle theta is the rotation of diag(t_max, t_min)', c, B.tolist(),
                     want.tolist(), finding_key=K_DIAT if known else None)
        return
    cmp_arrays(ctx, 'Jones element ' + k, cplx_flat(J), m, lambda i: c)
    if k in ('ret', 'qwp', 'hwp'):
        d = {'ret': c.get('d'), 'qwp': math.pi / 2, 'hwp': math.pi}[k]
        t = c['theta']
        if not np.allclose(B @ B.conj().T, I2, rtol=0, atol=TOL):
            ctx.fail('retarder is unitary', c, (B @ B.conj().T).tolist(), I2.tolist())
        fast = np.array([math.cos(t), math.sin(t)])
        slow = np.array([-math.sin(t), math.cos(t)])
        if not (np.allclose(B @ fast, cmath.exp(-1j * d / 2) * fast, rtol=0, atol=TOL) and
                np.allclose(B @ slow, cmath.exp(1j * d / 2) * slow, rtol=0, atol=TOL)):
            ctx.fail('retarder has the stated retardance: axis states are eigenvectors with phases -d/2, +d/2',
                     c, [(B @ fast).tolist(), (B @ slow).tolist()],
                     [(cmath.exp(-1j * d / 2) * fast).tolist(), (cmath.exp(1j * d / 2) * slow).tolist()])
        c0 = dict(c, theta=0.0)
        B0 = element_impl(c0)[0][:2, :2]
        want = rot2(t) @ B0 @ rot2(-t)
        if not np.allclose(B, want, rtol=0, atol=TOL):
            ctx.fail('retarder at angle theta is the rotation of the same element at theta = 0', c, B.tolist(),
                     want.tolist())
    else:
        name = [s for s, e in ELEM_OF_STATE.items() if e == k][0]
        v = state_vector(create_polarization(name))
        if not np.allclose(B @ B, B, rtol=0, atol=1e-12):
            ctx.fail('polarizer is idempotent', c, (B @ B).tolist(), B.tolist())
        P = np.outer(v, v.conj())
        if not np.allclose(B, P, rtol=0, atol=1e-12):
            ctx.fail('polarizer %s is the orthogonal projector onto the state %s' % (k, name), c, B.tolist(),
                     P.tolist())


def named_eval(ctx, c, out):
    from optiland.rays.polarization_state import create_polarization
    ctx.case(c)
    ctx.count('create_polarization')
    try:
        st = create_polarization(c['name'])
        impl = ('ok', st)
    except ValueError:
        impl = ('value-error', None)
    t = out.split()
    if t[0] != impl[0]:
        ctx.disagreements.append({'what': 'create_polarization error class', 'impl': impl[0], 'model': t[0], 'case': c})
        return
    if impl[0] != 'ok':
        return
    if (t[1] == '1') != bool(st.is_polarized):
        ctx.disagreements.append({'what': 'create_polarization is_polarized', 'impl': st.is_polarized, 'model': t[1],
                                  'case': c})
        return
    if st.is_polarized:
        m = unhex_arr(' '.join(t[2:]))
        cmp_arrays(ctx, 'create_polarization(%s)' % c['name'], [st.Ex, st.Ey, st.phase_x, st.phase_y], m, lambda i: c)
        if not abs(st.Ex ** 2 + st.Ey ** 2 - 1) <= 1e-12:
            ctx.fail('named polarization state has unit amplitude', c, st.Ex ** 2 + st.Ey ** 2, 1.0)


def state_eval(ctx, c, out):
    from optiland.rays.polarization_state import PolarizationState
    ctx.case(c)
    ctx.count('PolarizationState')
    st = PolarizationState(True, c['Ex'], c['Ey'], c['px'], c['py'])
    t = out.split()
    m = unhex_arr(' '.join(t[1:]))
    cmp_arrays(ctx, 'PolarizationState', [st.Ex, st.Ey, st.phase_x, st.phase_y], m, lambda i: c)
    nrm = math.hypot(c['Ex'], c['Ey'])
    if not (abs(st.Ex - c['Ex'] / nrm) <= 1e-12 and abs(st.Ey - c['Ey'] / nrm) <= 1e-12):
        ctx.fail('PolarizationState amplitudes are normalised to unit intensity', c, [st.Ex, st.Ey],
                 [c['Ex'] / nrm, c['Ey'] / nrm])


# ------------------------------------------------------------------------------ spec of one surface
def unit(v):
    return v / np.linalg.norm(v)


def exact_cross(a, b):
    """cross product of two float vectors in exact rational arithmetic, scaled to floats"""
    A = [Fraction(float(x)) for x in a]
    B = [Fraction(float(x)) for x in b]
    c = [A[1] * B[2] - A[2] * B[1], A[2] * B[0] - A[0] * B[2], A[0] * B[1] - A[1] * B[0]]
    m = max(abs(x) for x in c)
    if m == 0:
        return None
    return np.array([float(x / m) for x in c])


def spec_frames(k0, k1):
    """unit s perpendicular to k0 and k1 (exact cross product; k0 x xhat when they are parallel)"""
    c = exact_cross(k0, k1)
    if c is None:
        c = np.cross(k0, np.array([1.0, 0.0, 0.0]))
    s = unit(c)
    return s, np.cross(k0, s), np.cross(k1, s)


def spec_surface(k0, k1, jdiag=None):
    s, p0, p1 = spec_frames(k0, k1)
    o_in = np.stack([s, p0, k0], axis=0)
    o_out = np.stack([s, p1, k1], axis=1)
    if jdiag is None:
        return o_out @ o_in
    return o_out @ np.diag(jdiag) @ o_in


def textbook_fresnel(n1, n2, aoi, reflect):
    """Fresnel amplitude coefficients from Snell's law, in the sign convention of the code's frames"""
    ci = math.cos(aoi)
    st = n1 * math.sin(aoi) / n2
    ct = cmath.sqrt(1 - st * st)
    if reflect:
        rs = (n1 * ci - n2 * ct) / (n1 * ci + n2 * ct)
        rp = (n2 * ci - n1 * ct) / (n2 * ci + n1 * ct)
        return [rs, -rp, -1.0]
    ts = 2 * n1 * ci / (n1 * ci + n2 * ct)
    tp = 2 * n1 * ci / (n2 * ci + n1 * ct)
    return [ts, tp, 1.0]


def conforms(P, k0, k1, jd, tol=1e-8):
    """does a single-surface matrix satisfy the specification for *some* unit s perpendicular to k0?
    (used only for directions parallel up to rounding, where s is not determined)"""
    P = np.asarray(P, dtype=complex)
    if jd is None:
        return bool(np.max(np.abs(P.conj().T @ P - np.eye(3))) <= tol and np.max(np.abs(P @ k0 - k1)) <= tol)
    s, p0, p1 = spec_frames(k0, k1)
    Q = np.stack([s, p1, k1], axis=0) @ P @ np.stack([s, p0, k0], axis=1)
    if abs(Q[2, 2] - jd[2]) > tol or np.max(np.abs(Q[:2, 2])) > tol or np.max(np.abs(Q[2, :2])) > tol:
        return False
    B = Q[:2, :2]
    a2 = 0.5 * (abs(jd[0]) ** 2 + abs(jd[1]) ** 2)
    return bool(np.max(np.abs(B @ B.conj().T - a2 * np.eye(2))) <= tol + abs(abs(jd[0]) ** 2 - abs(jd[1]) ** 2))


# ------------------------------------------------------------------------------ part C: one surface
def rand_unit(rng):
    while True:
        v = np.array([rng.gauss(0, 1), rng.gauss(0, 1), rng.gauss(0, 1)])
        n = np.linalg.norm(v)
        if n > 1e-3:
            return v / n


def surface_cases(ctx):
    n = 400 if ctx.quick() else 30000
    cs = []
    for i in range(n):
        u = ctx.rng.random()
        if u < 0.08:
            k0 = np.array([0.0, 0.0, 1.0 if ctx.rng.random() < 0.7 else -1.0])
        elif u < 0.16:
            k0 = unit(np.array([0.0, ctx.rng.uniform(-1, 1), 1.0]))
        else:
            k0 = rand_unit(ctx.rng)
            if abs(k0[0]) > 0.999:
                continue
        v = ctx.rng.random()
        if v < 0.12:
            nrm = k0.copy()                       # normal incidence
        elif v < 0.2:
            nrm = unit(k0 + 1e-9 * rand_unit(ctx.rng))
        else:
            a = math.radians(ctx.rng.uniform(0, 80))
            t = unit(np.cross(k0, rand_unit(ctx.rng)))
            nrm = math.cos(a) * k0 + math.sin(a) * t
            nrm = unit(nrm)
        if ctx.rng.random() < 0.5:
            nrm = -nrm
        w = ctx.rng.random()
        n1 = ctx.rng.uniform(1, 4)
        n2 = n1 if w < 0.1 else ctx.rng.uniform(1, 4)
        reflect = ctx.rng.random() < 0.3
        coated = ctx.rng.random() < 0.6
        # the surface passes the normal that refract/reflect aligned in place; `interact` is public and takes
        # any orientation (the code applies abs): half of the cases hand it the normal as given
        cs.append({'part': 'surface', 'k0': k0.tolist(), 'normal': nrm.tolist(), 'n1': n1, 'n2': n2,
                   'reflect': reflect, 'coated': coated, 'raw_normal': ctx.rng.random() < 0.5,
                   'state': 'unpolarized' if ctx.rng.random() < 0.2 else rand_state(ctx.rng)})
    return cs


def surface_impl(c):
    """one public single-surface interaction; returns (k1, aligned normal, rays.p) or None for TIR"""
    from optiland.rays.polarized_rays import PolarizedRays
    from optiland.coatings import FresnelCoating
    from optiland.materials import IdealMaterial
    k0 = np.array(c['k0'], dtype=float)
    nrm = np.array(c['normal'], dtype=float)
    one = np.ones(1)
    rays = PolarizedRays(0 * one, 0 * one, 0 * one, k0[0] * one, k0[1] * one, k0[2] * one, one.copy(), 0.55 * one)
    nx, ny, nz = nrm[0] * one, nrm[1] * one, nrm[2] * one
    if c['reflect']:
        rays.reflect(nx, ny, nz)
    else:
        rays.refract(nx, ny, nz, c['n1'], c['n2'])
    k1 = np.array([rays.L[0], rays.M[0], rays.N[0]])
    if not np.all(np.isfinite(k1)):
        return None
    if c.get('raw_normal'):
        nx, ny, nz = nrm[0] * one, nrm[1] * one, nrm[2] * one
    nal = np.array([nx[0], ny[0], nz[0]])
    if c['coated']:
        FresnelCoating(IdealMaterial(c['n1']), IdealMaterial(c['n2'])).interact(
            rays, reflect=c['reflect'], nx=nx, ny=ny, nz=nz)
    else:
        rays.update()
    P = np.array(rays.p)[0]
    st = make_state(c.get('state', 'H'))
    rays.update_intensity(st)
    E1 = np.asarray(rays.get_output_field(spec_e0(st, k0)[None, :]))[0] if st.is_polarized else np.zeros(3, complex)
    return k1, nal, P, float(np.asarray(rays.i)[0]), E1


def surface_prepare(ctx, c):
    try:
        r = surface_impl(c)
    except Exception as e:  # noqa
        ctx.fail('single-surface interaction raises %s' % type(e).__name__, c, str(e))
        return None, None
    if r is None:
        ctx.count('surface: total internal reflection (skipped)')
        return None, None
    k1, nal, P, inten, E1 = r
    line = 'polsurf %s %s %s ' % (state_tokens(c.get('state', 'H'), make_state(c.get('state', 'H'))),
                                 v3hex(c['k0']), v3hex(k1))
    if c['coated']:
        line += '1 %s %s %s %s' % (b01(c['reflect']), fhex(c['n1']), fhex(c['n2']), v3hex(nal))
    else:
        line += '0'
    return line, r


def surface_eval(ctx, c, r, out):
    k1, nal, P, inten, E1 = r
    k0 = np.array(c['k0'], dtype=float)
    ctx.case(c)
    mag = float(np.linalg.norm(np.cross(k0, k1)))
    branch = 'fallback (k0 x k1 == 0)' if mag == 0 else 'near-parallel (0 < |k0 x k1| < 1e-6)' if mag < 1e-6 \
        else 'regular'
    ctx.count('surface %s %s: %s' % ('coated' if c['coated'] else 'uncoated',
                                     'reflect' if c['reflect'] else 'refract', branch))
    # at exact normal-incidence reflection (k1 == -k0) every unit s perpendicular to k0 is admissible and the
    # matrix depends on it: the code's choice (k0 x xhat) is incidental -> soft observable there.
    # For directions parallel up to rounding (0 < |k0 x k1| < 1e-6) the model mirrors the tree's exact test
    # (`_code`, finding F-C17-2); an implementation that instead conforms to the specification (any unit s
    # perpendicular to k0: `_spec`) is accepted as well and only noted.
    m = unhex_arr(out)
    if c['coated']:
        aoi_s = math.acos(min(1.0, abs(float(np.dot(nal, k0)))))
        jd_s = textbook_fresnel(c['n1'], c['n2'], aoi_s, c['reflect'])
    else:
        jd_s = None
    soft = (mag == 0 and float(np.dot(k0, k1)) < 0)
    if 0 < mag < 1e-6 and not np.allclose(cplx_flat(P), m[:18], rtol=1e-9, atol=1e-12) and \
            conforms(P, k0, k1, jd_s):
        soft = True
        ctx.count('near-parallel surface: implementation agrees with _spec, not with _code (repaired upstream?)')
    cmp_arrays(ctx, 'rays.p after one surface', cplx_flat(P), m[:18], lambda i: c, hard=not soft)
    cmp_arrays(ctx, 'rays.i after one surface', [inten], m[18:19], lambda i: c, hard=not (soft and mag > 0))
    cmp_arrays(ctx, 'output field after one surface', cplx_flat(E1), m[19:25], lambda i: c, hard=not soft)
    # predicate: the matrix is o_out J o_in for unit s perpendicular to k0 and k1
    if c['coated']:
        aoi = math.acos(min(1.0, abs(float(np.dot(nal, k0)))))
        jd = textbook_fresnel(c['n1'], c['n2'], aoi, c['reflect'])
    else:
        jd = None
    if mag >= 1e-6:
        want = spec_surface(k0, k1, jd)
        if not np.allclose(P, want, rtol=0, atol=1e-8 if mag < 1e-3 else TOL):
            ctx.fail('single-surface polarization matrix equals o_out J o_in in the s,p,k frames', c, P.tolist(),
                     want.tolist())
        return
    # (nearly) parallel or antiparallel directions: every unit s perpendicular to k0 is admissible (at normal
    # incidence the s and p coefficients coincide); the property needs the uncoated matrix to be orthogonal
    # with P k0 = k1
    if not c['coated']:
        dev = max(float(np.max(np.abs(P.T @ P - np.eye(3)))), float(np.max(np.abs(P @ k0 - k1))))
        if not dev <= 1e-8:
            want = spec_surface(k0, k1, None)
            okspec = float(np.max(np.abs(want.T @ want - np.eye(3)))) <= 1e-12
            ctx.fail('uncoated surface matrix is orthogonal and maps k0 to k1', c, dev, 0.0,
                     finding_key=K_PAR if (okspec and mag > 0) else None)


# ------------------------------------------------------------------------------ part D: lenses
class Tap:
    """records the arguments of the public `PolarizedRays.update` and `JonesFresnel.calculate_matrix`
    during a trace (observation only: the original methods run unchanged)"""

    def __enter__(self):
        from optiland.rays.polarized_rays import PolarizedRays
        from optiland.jones import JonesFresnel
        self.events = []
        self.pending = None
        tap = self
        self.PR, self.JF = PolarizedRays, JonesFresnel
        self.o_update, self.o_calc = PolarizedRays.update, JonesFresnel.calculate_matrix

        def calc(jself, rays, reflect=False, aoi=None):
            J = tap.o_calc(jself, rays, reflect=reflect, aoi=aoi)
            n1 = np.broadcast_to(np.asarray(jself.material_pre.n(rays.w), dtype=float), rays.x.shape)
            n2 = np.broadcast_to(np.asarray(jself.material_post.n(rays.w), dtype=float), rays.x.shape)
            tap.pending = {'reflect': bool(reflect), 'aoi': np.array(aoi, dtype=float), 'n1': n1.copy(),
                           'n2': n2.copy(), 'J': np.array(J)}
            return J

        def update(rself, jones_matrix=None):
            ev = {'k0': np.array([rself.L0, rself.M0, rself.N0], dtype=float).T.copy(),
                  'k1': np.array([rself.L, rself.M, rself.N], dtype=float).T.copy(), 'fresnel': None}
            if jones_matrix is not None:
                ev['fresnel'] = tap.pending
                tap.pending = None
            tap.events.append(ev)
            return tap.o_update(rself, jones_matrix)

        PolarizedRays.update = update
        JonesFresnel.calculate_matrix = calc
        return self

    def __exit__(self, *a):
        self.PR.update = self.o_update
        self.JF.calculate_matrix = self.o_calc
        return False


class Pupil:
    def __init__(self, x, y):
        self.x = np.array(x, dtype=float)
        self.y = np.array(y, dtype=float)


def rand_state(rng):
    u = rng.random()
    if u < 0.2:
        # a component that is exactly zero next to an amplitude that is not 1 (the constructor normalises)
        a = rng.choice([2.0, 0.5, -3.0, 0.25, 7.5])
        ex, ey = (a, 0.0) if rng.random() < 0.5 else (0.0, a)
        return {'Ex': ex, 'Ey': ey, 'px': rng.uniform(-math.pi, math.pi), 'py': rng.uniform(-math.pi, math.pi)}
    k = rng.choice([1.0, 1.0, 3.0, 0.2])          # amplitudes of any size
    return {'Ex': k * rng.uniform(-1, 1), 'Ey': k * rng.uniform(-1, 1), 'px': rng.uniform(-math.pi, math.pi),
            'py': rng.uniform(-math.pi, math.pi)}


def orth_state(s):
    """(Ex e^{i px}, Ey e^{i py}) -> (Ey e^{i px}, -Ex e^{i py})"""
    return {'Ex': s['Ey'], 'Ey': -s['Ex'], 'px': s['px'], 'py': s['py']}


def make_state(s):
    from optiland.rays.polarization_state import PolarizationState, create_polarization
    if isinstance(s, str):
        return create_polarization(s)
    return PolarizationState(True, s['Ex'], s['Ey'], s['px'], s['py'])


def state_tokens(s, st):
    """driver tokens of a state: the raw constructor arguments (the model normalises itself); for a named
    state the implementation's normalised amplitudes (the table itself is compared through `polnamed`;
    normalising again is the identity to 1 ulp)"""
    if not st.is_polarized:
        return '0 %s %s %s %s' % (fhex(0), fhex(0), fhex(0), fhex(0))
    if isinstance(s, dict):
        return '1 %s %s %s %s' % (fhex(s['Ex']), fhex(s['Ey']), fhex(s['px']), fhex(s['py']))
    return '1 %s %s %s %s' % (fhex(st.Ex), fhex(st.Ey), fhex(st.phase_x), fhex(st.phase_y))


def lens_cases(ctx):
    out = []
    nrays = 7 if ctx.quick() else 12

    def one(lens, coated):
        px, py = [0.0], [0.0]
        while len(px) < nrays:
            r = 0.95 * math.sqrt(ctx.rng.random())
            a = ctx.rng.uniform(0, 2 * math.pi)
            px.append(r * math.cos(a))
            py.append(r * math.sin(a))
        Hy = ctx.rng.choice([0.0, 0.7, 1.0])
        Hx = ctx.rng.choice([0.0, 0.0, 0.5])
        if coated:
            a = rand_state(ctx.rng)
            pairs = [['H', 'V'], ['L+45', 'L-45'], ['RCP', 'LCP'], [a, orth_state(a)]]
            k = ctx.rng.randrange(3)
            pairs = [pairs[k], pairs[3]] if ctx.quick() else pairs
            states = ['unpolarized'] + [s for p in pairs for s in p]
        else:
            states = list(NAMED) + [rand_state(ctx.rng)]
            if ctx.quick():
                k = ctx.rng.sample(range(6), 3)
                states = [NAMED[j] for j in k] + states[6:]
        return {'part': 'lens', 'lens': lens, 'coated': coated, 'Hx': Hx, 'Hy': Hy, 'px': px, 'py': py,
                'states': states}
    for n, _ in lensgen.sample_classes():
        out.append(one({'sample': n}, False))
        out.append(one({'sample': n}, True))
    # two fixed configurations that exhibit the recorded findings on every run: the bundled Hubble telescope
    # (curved image surface between equal indices, F-C17-2) and a singlet with a tilted first surface (F-C17-3)
    fixed_pupil = {'Hx': 0.0, 'Hy': 1.0, 'px': [0.0, 0.3, -0.5, 0.6, -0.2, 0.1, 0.8], 'py': [0.0, 0.4, 0.2, -0.5, -0.7, 0.9, 0.1]}
    out.append(dict(one({'sample': 'telescopes.HubbleTelescope'}, False), states=list(NAMED), **fixed_pupil))
    tilted = {'surfaces': [{'index': 0, 'radius': INF_, 'thickness': INF_, 'material': {'kind': 'air'}},
                           {'index': 1, 'radius': 50.0, 'thickness': 5.0, 'material': {'kind': 'ideal', 'n': 1.5},
                            'is_stop': True, 'rx': 0.05, 'ry': -0.03},
                           {'index': 2, 'radius': -50.0, 'thickness': 45.0, 'material': {'kind': 'air'}},
                           {'index': 3, 'radius': INF_, 'thickness': 0, 'material': {'kind': 'air'}}],
              'aperture': ['EPD', 8.0], 'field_type': 'angle', 'fields': [[0.0], [5.0]],
              'wavelengths': [[0.5875618, 1]]}
    out.append(dict(one({'desc': tilted}, False), states=list(NAMED), **fixed_pupil))
    n = 60 if ctx.quick() else 2000
    for i in range(n):
        tilt = ctx.rng.random() < 0.15
        d = lensgen.gen_lens(ctx.rng, allow_asphere=ctx.rng.random() < 0.2, allow_tilt=tilt,
                             apertures=ctx.rng.random() < 0.25, dy=ctx.rng.random() < 0.2)
        out.append(one({'desc': d}, ctx.rng.random() < 0.5))
    return out


def surface_rotations(optic):
    """rotation (local -> global directions) of every surface, read off the implementation's own
    `globalize` applied to the unit vectors"""
    from optiland.rays import RealRays
    Rs = []
    for s in optic.surface_group.surfaces:
        cs = s.geometry.cs
        if not (float(cs.rx) or float(cs.ry) or float(getattr(cs, 'rz', 0.0))):
            Rs.append(None)
            continue
        e = np.eye(3)
        r = RealRays(np.zeros(3), np.zeros(3), np.zeros(3), e[:, 0].copy(), e[:, 1].copy(), e[:, 2].copy(),
                     np.ones(3), np.ones(3))
        cs.globalize(r)
        Rs.append(np.array([r.L, r.M, r.N]))     # columns = images of e_x, e_y, e_z
    return Rs


def spec_e0(st, k):
    p = unit(np.cross(k, np.array([1.0, 0.0, 0.0])))
    s = np.cross(p, k)
    return st.Ex * cmath.exp(1j * st.phase_x) * s + st.Ey * cmath.exp(1j * st.phase_y) * p


def spec_chain(events, r, Rs, exact_s, global_frames):
    """product of per-surface matrices for ray r under the two repairs (independent recomputation)"""
    P = np.eye(3, dtype=complex)
    for j, ev in enumerate(events):
        k0, k1 = ev['k0'][r], ev['k1'][r]
        jd = None
        if ev['fresnel'] is not None:
            J = ev['fresnel']['J'][r]
            jd = [J[0, 0], J[1, 1], J[2, 2]]
        if exact_s:
            M = spec_surface(k0, k1, jd)
        else:
            c = np.cross(k0, k1)
            mag = np.linalg.norm(c)
            if mag < 1e-8:          # the code's parallel test (after the repair of F-C17-2)
                c = np.cross(k0, np.array([1.0, 0.0, 0.0]))
                mag = np.linalg.norm(c)
            s = c / mag
            o_in = np.stack([s, np.cross(k0, s), k0], axis=0)
            o_out = np.stack([s, np.cross(k1, s), k1], axis=1)
            M = o_out @ o_in if jd is None else o_out @ np.diag(jd) @ o_in
        R = Rs[j + 1] if (global_frames and j + 1 < len(Rs)) else None
        if R is not None:
            M = R @ M @ R.T
        P = M @ P
    return P


def lens_prepare(ctx, c):
    """runs the traces; returns (lines, record) or (None, None)"""
    try:
        optic = lensgen.build_case(c['lens'])
        if c['coated']:
            optic.surface_group.set_fresnel_coatings()
    except Exception as e:  # noqa
        ctx.count('lens build_error:' + type(e).__name__)
        return None, None
    w = optic.primary_wavelength
    rec = {'optic': optic, 'traces': []}
    lines = []
    for s in c['states']:
        st = make_state(s)
        optic.set_polarization(st)
        try:
            with Tap() as tap:
                rays = optic.trace(c['Hx'], c['Hy'], w, len(c['px']), Pupil(c['px'], c['py']))
        except Exception as e:  # noqa
            ctx.count('lens trace_error:' + type(e).__name__)
            return None, None
        sg = optic.surface_group
        kin = np.stack([sg.L[0], sg.M[0], sg.N[0]], axis=1)
        i0 = np.asarray(sg.intensity[0], dtype=float)
        kout = np.stack([rays.L, rays.M, rays.N], axis=1)
        fin = np.isfinite(kout).all(axis=1) & np.isfinite(np.asarray(rays.p)).all(axis=(1, 2))
        if st.is_polarized:
            E0 = np.array([spec_e0(st, kin[r]) for r in range(kin.shape[0])])
            E1 = np.asarray(rays.get_output_field(E0))
        else:
            E1 = np.zeros((kin.shape[0], 3), dtype=complex)
        tr = {'state': s, 'st': st, 'p': np.array(rays.p), 'i': np.array(rays.i, dtype=float), 'E1': E1,
              'kin': kin, 'kout': kout, 'fin': fin, 'events': tap.events, 'line0': len(lines), 'rays': [],
              'clipped': np.asarray(sg.intensity[-1], dtype=float) == 0}
        # model command per finite ray; the raw constructor arguments go to the model's own normalisation
        sx = state_tokens(s, st)
        for r in range(kin.shape[0]):
            if not fin[r]:
                continue
            parts = ['poltrace', sx, v3hex(kin[r]), fhex(i0[r]), str(len(tap.events))]
            for ev in tap.events:
                parts.append(v3hex(ev['k0'][r]))
                parts.append(v3hex(ev['k1'][r]))
                f = ev['fresnel']
                if f is None:
                    parts.append('0')
                else:
                    parts.append('1 %s %s %s %s' % (b01(f['reflect']), fhex(f['n1'][r]), fhex(f['n2'][r]),
                                                    fhex(f['aoi'][r])))
            lines.append(' '.join(parts))
            tr['rays'].append(r)
        rec['traces'].append(tr)
    return lines, rec


def lens_eval(ctx, c, rec, outs):
    optic = rec['optic']
    ctx.case({k: c[k] for k in ('lens', 'coated', 'Hx', 'Hy')})
    nsurf = len(optic.surface_group.surfaces)
    Rs = surface_rotations(optic)
    tilted = any(R is not None for R in Rs)
    ctx.count('lens %s%s' % ('coated' if c['coated'] else 'uncoated', ' tilted' if tilted else ''))
    ctx.count('lens nsurf=%d' % nsurf)
    by_state = {}
    for tr in rec['traces']:
        label = tr['state'] if isinstance(tr['state'], str) else 'random'
        ctx.count('trace state=' + label)
        sub = {k: c[k] for k in c if k != 'states'}
        sub['states'] = [tr['state']]
        nfin = len(tr['rays'])
        ctx.count('rays traced', len(tr['fin']))
        ctx.count('rays finite', nfin)
        # ---- correspondence
        for n, r in enumerate(tr['rays']):
            m = unhex_arr(outs[tr['line0'] + n])
            case_r = dict(sub, ray=r)
            # a retro-reflected ray (k1 == -k0 exactly, fallback branch): matrix and field depend on the
            # incidental choice of s, the intensity does not -> p and field soft, intensity hard
            soft = any(float(np.linalg.norm(np.cross(e['k0'][r], e['k1'][r]))) == 0 and
                       float(np.dot(e['k0'][r], e['k1'][r])) < 0 for e in tr['events'])
            if soft:
                ctx.count('ray with an exact retro-reflection (p, field compared softly)')
            soft_i = False
            if not np.allclose(cplx_flat(tr['p'][r]), m[:18], rtol=1e-9, atol=1e-12) and any(
                    0 < float(np.linalg.norm(np.cross(e['k0'][r], e['k1'][r]))) < 1e-6 for e in tr['events']):
                # `_code` (model) disagrees on a ray with directions parallel up to rounding: accept `_spec`
                if np.allclose(tr['p'][r], spec_chain(tr['events'], r, Rs, True, False), rtol=0, atol=1e-8):
                    soft = soft_i = True
                    ctx.count('near-parallel ray: implementation agrees with _spec, not with _code (repaired upstream?)')
            cmp_arrays(ctx, 'rays.p', cplx_flat(tr['p'][r]), m[:18], lambda i: case_r, hard=not soft)
            cmp_arrays(ctx, 'rays.i', [tr['i'][r]], m[18:19], lambda i: case_r, hard=not soft_i)
            if tr['st'].is_polarized:
                cmp_arrays(ctx, 'output field', cplx_flat(tr['E1'][r]), m[19:25], lambda i: case_r, hard=not soft)
        # ---- predicates
        ev = tr['events']
        for r in tr['rays']:
            case_r = dict(sub, ray=r)
            if tr['clipped'][r] and tr['i'][r] > 0:
                ctx.count('F15: aperture-clipped ray with intensity restored by update_intensity')
            mags = [float(np.linalg.norm(np.cross(e['k0'][r], e['k1'][r]))) for e in ev]
            if any(0 < m < 1e-6 for m in mags):
                ctx.count('ray with a near-parallel surface event')
            if c['coated'] or not tr['st'].is_polarized:
                continue
            # uncoated: intensity preserved, field transverse
            di = abs(tr['i'][r] - 1.0)
            et = abs(complex(np.dot(tr['E1'][r], tr['kout'][r])))
            if di <= TOL and et <= TOL:
                continue
            # which clause, and is it one of the recorded defects?  recompute with the repairs
            E0 = spec_e0(tr['st'], tr['kin'][r])
            verdict = {}
            for name, (ex, gl) in (('exact_s', (True, False)),
                                   ('global', (False, True)), ('both', (True, True))):
                P = spec_chain(ev, r, Rs, ex, gl)
                E = P @ E0
                verdict[name] = (abs(float(np.sum(np.abs(E) ** 2)) - 1.0) <= TOL and
                                 abs(complex(np.dot(E, tr['kout'][r]))) <= TOL)
            near = any(0 < m < 1e-6 for m in mags)
            keys = []
            if verdict['exact_s'] and near:
                keys = [K_PAR]
            elif verdict['global'] and tilted:
                keys = [K_TILT]
            elif verdict['both'] and near and tilted:
                keys = [K_PAR, K_TILT]
            obs = {'|i-1|': di, '|E.k|': et, 'min |k0 x k1| > 0': min([m for m in mags if m > 0] or [0.0])}
            if di > TOL:
                ctx.fail('uncoated trace preserves intensity', case_r, obs, 'i = 1', finding_key=keys[0] if keys else None)
                for k in keys[1:]:
                    ctx.fail('uncoated trace preserves intensity', case_r, obs, 'i = 1', finding_key=k)
            if et > TOL:
                ctx.fail('propagated field stays transverse to the ray', case_r, obs, 'E.k = 0',
                         finding_key=keys[0] if keys else None)
                for k in keys[1:]:
                    ctx.fail('propagated field stays transverse to the ray', case_r, obs, 'E.k = 0', finding_key=k)
        by_state[json_key(tr['state'])] = tr
    # coated: unpolarized = mean of every orthogonal pair traced
    if c['coated'] and 'unpolarized' in c['states']:
        un = by_state.get(json_key('unpolarized'))
        rest = [s for s in c['states'] if s != 'unpolarized']
        for a, b in zip(rest[0::2], rest[1::2]):
            ta, tb = by_state.get(json_key(a)), by_state.get(json_key(b))
            if un is None or ta is None or tb is None:
                continue
            ctx.count('orthogonal pairs checked')
            for r in un['rays']:
                if not (ta['fin'][r] and tb['fin'][r]):
                    continue
                mean = 0.5 * (ta['i'][r] + tb['i'][r])
                if not abs(un['i'][r] - mean) <= TOL * max(1.0, abs(mean)):
                    sub = {k: c[k] for k in c if k != 'states'}
                    sub['states'] = ['unpolarized', a, b]
                    ctx.fail('unpolarized intensity equals the mean over two orthogonal input states',
                             dict(sub, ray=r), float(un['i'][r]), float(mean))


def json_key(s):
    return s if isinstance(s, str) else 'st:%r' % sorted(s.items())


# ------------------------------------------------------------------------------ run
def run(tier, seed, replay=None):
    ctx = Ctx('C17', tier, seed)
    ctx.stats['rule'] = (
        'A: 49 grid index pairs in {1,1.5,..,4}^2 + random pairs (equal / nearly equal indices included) x angles '
        '(0, Brewster, grid, random with points within 1e-6..1e-2 of the critical/grazing limit), all below the '
        'critical angle, reflect and transmit; B: element matrices over random and special angles, retardances, '
        'transmissions; C: random single surfaces (regular, exactly parallel and nearly parallel directions); '
        'D: 24 bundled samples + generated lenses (mirrors, conics, aspheres, tilts, decentres, apertures), '
        'uncoated with named + random states, Fresnel-coated with unpolarized + orthogonal pairs; a case is a '
        'Fresnel point, an element parameter set, a surface, or a lens configuration; distinct by descriptor hash')
    aud = audit('C17')
    drv = Driver()
    if replay:
        cases = [dict(replay)]
        if cases[0].get('part') == 'fresnel':
            cases[0]['single'] = True
    else:
        cases = fresnel_groups(ctx) + element_cases(ctx) + surface_cases(ctx) + lens_cases(ctx)
    lines, plan = [], []
    for c in cases:
        part = c.get('part')
        if part == 'fresnel':
            ls = fresnel_lines(c)
            aux = None
        elif part == 'element':
            ls, aux = [element_line(c)], None
        elif part == 'named':
            ls, aux = ['polnamed ' + c['name']], None
        elif part == 'state':
            ls, aux = ['polstate %s %s %s %s' % (fhex(c['Ex']), fhex(c['Ey']), fhex(c['px']), fhex(c['py']))], None
        elif part == 'surface':
            l, aux = surface_prepare(ctx, c)
            if l is None:
                continue
            ls = [l]
        elif part == 'lens':
            ls, aux = lens_prepare(ctx, c)
            if ls is None:
                continue
        else:
            ctx.notes.append('unknown case %r' % (part,))
            continue
        plan.append((c, aux, len(lines), len(ls)))
        lines += ls
    outs = drv.batch(lines)
    for c, aux, a, n in plan:
        o = outs[a:a + n]
        bad = [x for x in o if x.startswith('error') or x.startswith('bad-op')]
        if bad:
            ctx.disagreements.append({'what': 'driver error', 'model': bad[0], 'case': c})
            continue
        part = c['part']
        if part == 'fresnel':
            fresnel_eval(ctx, c, o)
        elif part == 'element':
            element_eval(ctx, c, o[0])
        elif part == 'named':
            named_eval(ctx, c, o[0])
        elif part == 'state':
            state_eval(ctx, c, o[0])
        elif part == 'surface':
            surface_eval(ctx, c, aux, o[0])
        elif part == 'lens':
            lens_eval(ctx, c, aux, o)
    n15 = ctx.stats.get('F15: aperture-clipped ray with intensity restored by update_intensity', 0)
    if n15:
        ctx.notes.append('DESIGN F15 observed on %d rays: update_intensity recomputes rays.i from the polarization '
                         'matrix alone, so aperture clipping (and absorption) applied during the trace is lost; '
                         'this is an intensity-removal defect (C16 with polarization on), no clause of C17 is '
                         'violated by it (the polarization factor itself is what C17 constrains)' % n15)
    return finish(ctx, aud,
                  partial=['field_stays_transverse needs the chain hypothesis (each surface receives the direction '
                           'the previous one produced, in one frame): false for tilted surfaces on the tree (F-C17-3)',
                           'diattenuator_rotation_covariant is false on the tree (F-C17-1); diagonal part proved '
                           '(diattenuator_rotation_covariant_partial) and the spec variant proved in full',
                           'floating-point robustness of the k0 || k1 test is outside the real-number theorems '
                           '(F-C17-2), checked numerically only'],
                  assumptions=['refractive indices are real (JonesFresnel reads material.n only)',
                               'NumPy float64/complex128 arithmetic is IEEE-754; BLAS matmul may re-associate sums '
                               '(absorbed by rtol 1e-9)',
                               'per-surface directions and angles of incidence fed to the model are the arguments the '
                               'implementation passes to its own public update / calculate_matrix'])
