"""C18  Catalogue materials return the index their data file defines.

EXHAUSTIVE over the catalogue in both tiers:
  * every row of database/catalog_nk.csv -> its YAML file, parsed here independently of the
    implementation -> `MaterialFile(path).n(w)` / `.k(w)` for scalar and array arguments at q 5 / t 64
    wavelengths across [min,max] (end points included, knots of tabulated files included), compared with
    the Lean model (`Model/Material.lean` at Float: `formulaK_code`, `interp`) evaluated on the file's
    coefficients / tables  [hard observables, rtol 1e-12; 1e-10 where `pow` with a real exponent occurs],
    and with an independent specification written here in plain Python from the published formulas
    (the property's predicate; the Lean `formulaK_spec` is compared against it as well);
  * every distinct catalogue name looked up with `Material(name)` (thorough: every distinct
    (name, reference) pair as well) against `lookup_code` (what the tree computes: regular expressions)
    and `lookup_spec` (what the property requires: literal substrings) of the regenerated table
    `Gen/Catalog.lean`; predicate: the returned entry has exactly the queried name;
  * Abbe number of every glass against (n_d-1)/(n_F-n_C); `AbbeMaterial` against `abbeCoeffs`/`polyval`
    and (numerical only) against the fit accuracy over the Schott glass map.
The catalogue table is regenerated (gen/gen_catalog.py) and rebuilt whenever the CSV hash changes."""
import os, sys, io, math, bisect, contextlib, collections, subprocess, warnings, csv, random, time
import multiprocessing as mp
import numpy as np
from .core import (fhex, unhex, Toks, Driver, Ctx, audit, finish, close, bitexact, VERIF, REPO, LEAN_DIR,
                   lake_build)

DATA = os.path.join(REPO, 'database', 'data-nk')
CSVP = os.path.join(REPO, 'database', 'catalog_nk.csv')
NPROC = max(1, min(16, os.cpu_count() or 1))
META = set('.^$*+?{}[]\\|()')
LAM_D, LAM_F, LAM_C = 0.5875618, 0.4861327, 0.6562725
# fit accuracy of the model glass (measured on the Schott map: 7.0e-4 and 4.6e-3; see DESIGN C18)
TOL_ND, TOL_DISP = 2e-3, 1e-2
POW_FORMULAS = (3, 4, 5, 6)

try:
    import yaml
    _Loader = getattr(yaml, 'CSafeLoader', yaml.SafeLoader)
except Exception:  # pragma: no cover
    yaml = None


# --------------------------------------------------------------------------- regeneration
def ensure_catalog(ctx):
    """regenerate lean/OptiModel/Gen/Catalog*.lean when the CSV hash changed (audit() rebuilds)"""
    gen = os.path.join(VERIF, 'gen', 'gen_catalog.py')
    rc = subprocess.run([sys.executable, gen, '--repo', REPO, '--check']).returncode
    if rc != 0:
        t0 = time.time()
        p = subprocess.run([sys.executable, gen, '--repo', REPO], stdout=subprocess.PIPE, stderr=subprocess.STDOUT)
        if p.returncode != 0:
            raise RuntimeError('gen_catalog failed: ' + p.stdout.decode()[-500:])
        ctx.notes.append('catalogue table regenerated from %s (%.1fs); Lean rebuild follows' % (CSVP, time.time() - t0))
        ctx.count('catalog-regenerated')


def read_csv_rows():
    with open(CSVP, newline='', encoding='utf-8') as fh:
        rd = csv.reader(fh)
        header = next(rd)
        return header, [r for r in rd]


def enc_str(s):
    return '%d %s' % (len(s), ' '.join(str(ord(c)) for c in s)) if s else '0'


def ascii_lower(s):
    return ''.join(chr(ord(c) + 32) if 'A' <= c <= 'Z' else c for c in s)


# --------------------------------------------------------------------------- collector (workers)
class Col:
    """what a worker process accumulates; merged into the Ctx by the parent"""

    def __init__(self):
        self.bit = [0, 0]
        self.dis, self.drift, self.fails = [], [], []
        self.counts = collections.Counter()
        self.cases = []
        self.extra = []

    def count(self, k, n=1):
        self.counts[k] += n

    def case(self, desc, nontrivial=True):
        self.cases.append((desc, nontrivial))

    def cmp(self, what, impl, model, case, rtol=1e-12, atol=0.0, hard=True):
        self.bit[1] += 1
        if bitexact(impl, model):
            self.bit[0] += 1
            return True
        if close(impl, model, rtol, atol):
            return True
        rec = {'what': what, 'impl': repr(float(impl)), 'model': repr(float(model)), 'case': case}
        tgt = self.dis if hard else self.drift
        if len(tgt) < 40:
            tgt.append(rec)
        else:
            self.count('suppressed-' + ('disagreements' if hard else 'drift'))
        return False

    def disagree(self, rec):
        if len(self.dis) < 40:
            self.dis.append(rec)

    def fail(self, clause, case, observed, expected=None, finding_key=None):
        self.fails.append((clause, case, observed, expected, finding_key))


def merge(ctx, col):
    ctx.bitexact[0] += col.bit[0]
    ctx.bitexact[1] += col.bit[1]
    ctx.disagreements.extend(col.dis)
    ctx.drift.extend(col.drift)
    for k, v in col.counts.items():
        ctx.count(k, v)
    for desc, nt in col.cases:
        ctx.case(desc, nt)
    for f in col.fails:
        ctx.fail(*f[:4], finding_key=f[4])


# --------------------------------------------------------------------------- independent specification
def _C(c, i):
    return c[i - 1] if i <= len(c) else np.float64(0.0)


def spec_formula(k, coeffs, lam):
    """the published refractiveindex.info formulas (database/doc/Dispersion formulas), plain Python"""
    c = [np.float64(v) for v in coeffs]
    l = np.float64(lam)
    with np.errstate(all='ignore'):
        if k == 1:
            s = _C(c, 1)
            for i in range(1, 9):
                s = s + _C(c, 2 * i) * l ** 2 / (l ** 2 - _C(c, 2 * i + 1) ** 2)
            return float(np.sqrt(1 + s))
        if k == 2:
            s = _C(c, 1)
            for i in range(1, 9):
                s = s + _C(c, 2 * i) * l ** 2 / (l ** 2 - _C(c, 2 * i + 1))
            return float(np.sqrt(1 + s))
        if k == 3:
            s = _C(c, 1)
            for i in range(1, 9):
                s = s + _C(c, 2 * i) * np.power(l, _C(c, 2 * i + 1))
            return float(np.sqrt(s))
        if k == 4:
            s = _C(c, 1) + _C(c, 2) * np.power(l, _C(c, 3)) / (l ** 2 - np.power(_C(c, 4), _C(c, 5))) \
                + _C(c, 6) * np.power(l, _C(c, 7)) / (l ** 2 - np.power(_C(c, 8), _C(c, 9)))
            for i in range(5, 9):
                s = s + _C(c, 2 * i) * np.power(l, _C(c, 2 * i + 1))
            return float(np.sqrt(s))
        if k == 5:
            s = _C(c, 1)
            for i in range(1, 6):
                s = s + _C(c, 2 * i) * np.power(l, _C(c, 2 * i + 1))
            return float(s)
        if k == 6:
            s = _C(c, 1)
            for i in range(1, 6):
                s = s + _C(c, 2 * i) / (_C(c, 2 * i + 1) - 1 / l ** 2)
            return float(1 + s)
        if k == 7:
            d = l ** 2 - 0.028
            return float(_C(c, 1) + _C(c, 2) / d + _C(c, 3) * (1 / d) ** 2 + _C(c, 4) * l ** 2
                         + _C(c, 5) * l ** 4 + _C(c, 6) * l ** 6)
        if k == 8:
            b = _C(c, 1) + _C(c, 2) * l ** 2 / (l ** 2 - _C(c, 3)) + _C(c, 4) * l ** 2
            return float(np.sqrt((1 + 2 * b) / (1 - b)))
        if k == 9:
            s = _C(c, 1) + _C(c, 2) / (l ** 2 - _C(c, 3)) + _C(c, 4) * (l - _C(c, 5)) / ((l - _C(c, 5)) ** 2 + _C(c, 6))
            return float(np.sqrt(s))
    raise ValueError(k)


def spec_defined(k, n):
    """coefficient counts for which the published formula K is defined (absent trailing coefficients are 0)"""
    if k in (1, 2, 3):
        return n % 2 == 1 and n <= 17
    if k == 4:
        return n % 2 == 1 and 9 <= n <= 17
    if k in (5, 6):
        return n % 2 == 1 and n <= 11
    if k == 7:
        return 3 <= n <= 6
    if k == 8:
        return n == 4
    if k == 9:
        return n == 6
    return False


def spec_interp(x, xs, fs):
    """linear interpolation of a table with non-decreasing abscissae, clamped outside"""
    j = bisect.bisect_right(xs, x) - 1          # last j with xs[j] <= x
    if j < 0:
        return fs[0]
    if j >= len(xs) - 1:
        return fs[-1]
    if xs[j] == x:
        return fs[j]
    t = (x - xs[j]) / (xs[j + 1] - xs[j])
    return fs[j] + t * (fs[j + 1] - fs[j])


def parse_yaml(path):
    """independent reading of a data file: (n_blocks, k_blocks); n block = ('formula', K, coeffs) or
    ('table', xs, fs); k block = (xs, ks)"""
    with open(path, 'r', encoding='utf-8') as fh:
        d = yaml.load(fh, Loader=_Loader)
    nb, kb = [], []
    for b in d['DATA']:
        t = b['type']
        if t.startswith('formula '):
            nb.append(('formula', int(t.split()[1]), [float(v) for v in b['coefficients'].split()]))
        elif t.startswith('tabulated'):
            rows = [ln.split() for ln in b['data'].splitlines() if ln.strip() and not ln.lstrip().startswith('#')]
            cols = [[float(r[j]) for r in rows] for j in range(len(rows[0]))]
            if t == 'tabulated n':
                nb.append(('table', cols[0], cols[1]))
            elif t == 'tabulated k':
                kb.append((cols[0], cols[1]))
            elif t == 'tabulated nk':
                nb.append(('table', cols[0], cols[1]))
                kb.append((cols[0], cols[2]))
    return nb, kb


def table_class(xs):
    if all(a < b for a, b in zip(xs, xs[1:])):
        return 'strict'
    if all(a <= b for a, b in zip(xs, xs[1:])):
        return 'nondecreasing'
    return 'unsorted'


def wavelengths(rng, lo, hi, n, knots=None):
    lo, hi = (lo, hi) if lo <= hi else (hi, lo)
    ws = [lo, hi]
    wide = lo > 0 and hi / lo > 50
    for i in range(n - 2):
        if i % 2 == 0:
            t = (i // 2 + 1) / ((n - 2 + 1) // 2 + 1)
        else:
            t = rng.random()
        ws.append(lo * (hi / lo) ** t if wide else lo + (hi - lo) * t)
    if knots:
        inside = [x for x in knots if lo <= x <= hi] or list(knots)
        for _ in range(1 if n <= 8 else 4):
            ws.append(inside[rng.randrange(len(inside))])
    return ws


def fl(v):
    return float(np.ravel(v)[0])


# --------------------------------------------------------------------------- per-row work (worker)
def impl_values(fun, ws):
    """scalar calls and one array call; returns (scalars, arrays) with ('error', cls) on failure"""
    sc = []
    for w in ws:
        try:
            sc.append(fl(fun(float(w))))
        except Exception as e:  # noqa
            sc.append(('error', 'value-error' if isinstance(e, ValueError) else type(e).__name__))
    try:
        ar = [float(v) for v in np.ravel(fun(np.array(ws, dtype=float)))]
        if len(ar) != len(ws):
            ar = ('error', 'shape')
    except Exception as e:  # noqa
        ar = ('error', 'value-error' if isinstance(e, ValueError) else type(e).__name__)
    return sc, ar


def knots_line(xs, fs, ws):
    return 'ninterp %d %s %d %s' % (len(xs), ' '.join(fhex(x) + ' ' + fhex(f) for x, f in zip(xs, fs)),
                                    len(ws), ' '.join(fhex(w) for w in ws))


def read_opts(out, n):
    t = Toks(out)
    if t.error:
        return None
    k = t.nat()
    vals = []
    for _ in range(k):
        vals.append(t.flt() if t.tok() == '1' else None)
    return vals if k == n else None


def row_work(task):
    """one catalogue row: implementation, independent spec, model lines"""
    from optiland.materials.material_file import MaterialFile
    warnings.filterwarnings('ignore')
    idx, fname, lo, hi, nw, seed, group = task
    rng = random.Random(seed * 7919 + idx)
    path = os.path.join(DATA, fname)
    res = {'idx': idx, 'file': fname, 'lines': [], 'tags': []}
    try:
        nb, kb = parse_yaml(path)
    except Exception as e:  # noqa
        res['parse_error'] = type(e).__name__
        return res
    res['nb'] = [(b[0], b[1] if b[0] == 'formula' else len(b[1])) for b in nb]
    res['nk'] = len(kb)
    try:
        with np.errstate(all='ignore'):
            m = MaterialFile(path)
        res['ctor'] = 'ok'
    except Exception as e:  # noqa
        res['ctor'] = 'value-error' if isinstance(e, ValueError) else type(e).__name__
        return res
    knots = nb[0][1] if (len(nb) == 1 and nb[0][0] == 'table') else None
    ws = wavelengths(rng, lo, hi, nw, knots)
    res['ws'] = ws
    with np.errstate(all='ignore'):
        if nb:
            res['n_sc'], res['n_ar'] = impl_values(m.n, ws)
        res['k_sc'], res['k_ar'] = impl_values(m.k, ws)
        # Abbe number of glasses whose range covers F..C
        if len(nb) == 1 and group == 'glass' and min(lo, hi) <= LAM_F and max(lo, hi) >= LAM_C:
            try:
                res['abbe'] = (fl(m.abbe()), fl(m.n(LAM_D)), fl(m.n(LAM_F)), fl(m.n(LAM_C)))
            except Exception as e:  # noqa
                res['abbe'] = ('error', type(e).__name__)
    # independent specification + model command lines
    if len(nb) >= 1:
        specs, lines = [], []
        for b in nb:
            if b[0] == 'formula':
                k, c = b[1], b[2]
                specs.append([spec_formula(k, c, w) if spec_defined(k, len(c)) else None for w in ws])
                lines.append('nform %d %d %s %d %s' % (k, len(c), ' '.join(fhex(v) for v in c), len(ws),
                                                      ' '.join(fhex(w) for w in ws)))
            else:
                xs, fs = b[1], b[2]
                cls = table_class(xs)
                specs.append([spec_interp(w, xs, fs) if cls != 'unsorted' else (min(fs), max(fs)) for w in ws])
                lines.append(knots_line(xs, fs, ws))
        res['n_spec'] = specs
        res['lines'] += lines
        res['n_table_class'] = [table_class(b[1]) if b[0] == 'table' else None for b in nb]
    if kb:
        xs, ks = kb[-1]
        cls = table_class(xs)
        res['k_table_class'] = cls
        res['k_spec'] = [spec_interp(w, xs, ks) if cls != 'unsorted' else (min(ks), max(ks)) for w in ws]
        res['lines'].append(knots_line(xs, ks, ws))
    if 'abbe' in res and not isinstance(res['abbe'][0], str) and len(nb) == 1 and nb[0][0] == 'formula':
        k, c = nb[0][1], nb[0][2]
        if spec_defined(k, len(c)):
            res['abbe_spec'] = [spec_formula(k, c, w) for w in (LAM_D, LAM_F, LAM_C)]
    return res


def judge_row(col, res, outs):
    """compare implementation / model / specification for one row (runs in the worker)"""
    idx, fname = res['idx'], res['file']
    case = {'kind': 'file', 'row': idx, 'file': fname}
    if 'parse_error' in res:
        col.count('harness-cannot-parse-yaml')
        col.case(case, False)
        return
    nb, nk = res['nb'], res['nk']
    col.count('blocks: ' + '+'.join('formula %d' % b[1] if b[0] == 'formula' else 'tabulated n' for b in nb)
              + ('' if not nk else '+k table') if nb else 'blocks: k table only')
    for b in nb:
        if b[0] == 'formula':
            col.count('formula %d rows' % b[1])
    # ---- two dispersion relations in one file (F11)
    if len(nb) >= 2:
        col.case(case, True)
        if res['ctor'] == 'value-error':
            col.fail('an entry whose file names two dispersion relations must still return one of them '
                     '(MaterialFile raises ValueError at construction)', case, 'ValueError',
                     'index by ' + ' or '.join(str(b) for b in nb), finding_key='two-dispersion-relations')
            return
    if res['ctor'] != 'ok':
        col.case(case, True)
        col.fail('MaterialFile(path) must load a catalogue file', case, res['ctor'], 'a material')
        return
    ws = res['ws']
    case['wavelengths'] = ws
    o = 0
    nontrivial = False
    # ---- refractive index
    if len(nb) == 0:
        col.count('no dispersion relation in the file (outside the quantifier)')
    else:
        n_sc, n_ar = res['n_sc'], res['n_ar']
        n_models = []
        for bi, b in enumerate(nb):
            out = outs[o]
            o += 1
            if b[0] == 'formula':
                t = Toks(out)
                vals = None
                if not t.error:
                    k = t.nat()
                    vals = []
                    for _ in range(k):
                        code = t.flt() if t.tok() == '1' else None
                        vals.append((code, t.flt()))
                n_models.append(('formula', b[1], vals))
            else:
                n_models.append(('table', None, read_opts(out, len(ws))))
        # which block does the implementation follow?  (exactly one unless the F11 defect is repaired)
        chosen = None
        for bi, (kind, kk, vals) in enumerate(n_models):
            if vals is None:
                col.disagree({'what': 'driver error (n)', 'model': outs[0][:200], 'case': case})
                return
            chosen = bi if chosen is None else chosen
        if len(nb) >= 2:
            # repaired F11: accept agreement with either block
            def dist(bi):
                kind, kk, vals = n_models[bi]
                mv = [v[0] if kind == 'formula' else v for v in vals]
                return sum(0 if (isinstance(a, float) and b is not None and close(a, b, 1e-9, 1e-12)) else 1
                           for a, b in zip(n_sc, mv))
            chosen = min(range(len(nb)), key=dist)
            col.count('two dispersion relations: implementation follows block %d' % chosen)
        kind, kk, vals = n_models[chosen]
        spec = res['n_spec'][chosen]
        tclass = res['n_table_class'][chosen]
        rt = 1e-10 if (kind == 'formula' and kk in POW_FORMULAS) else 1e-12
        for i, w in enumerate(ws):
            iv = n_sc[i]
            mv = vals[i][0] if kind == 'formula' else vals[i]
            wcase = dict(case, w=w, what='n')
            if isinstance(iv, tuple):
                # the implementation raised
                if mv is None and iv[1] == 'value-error':
                    col.count('n raises ValueError in implementation and model')
                    if spec[i] is not None:
                        col.fail('n(w) must equal the published formula (implementation raises, the formula is '
                                 'defined for this coefficient count)', wcase, iv[1], spec[i])
                    continue
                col.disagree({'what': 'n(w) raises %s, model gives %r' % (iv[1], mv), 'case': wcase})
                col.fail('n(w) must be defined inside the stated range', wcase, iv[1], spec[i])
                continue
            if mv is None:
                col.disagree({'what': 'model raises, implementation returns', 'impl': iv, 'case': wcase})
                continue
            nontrivial = nontrivial or math.isfinite(iv)
            hard = not (kind == 'table' and tclass == 'unsorted')
            col.cmp('n', iv, mv, wcase, rtol=rt, atol=0.0, hard=hard)
            if not hard:
                col.count('n: table not sorted (np.interp undefined; hull only)')
            # specification (Lean) vs specification (Python)
            if kind == 'formula' and spec[i] is not None:
                col.cmp('formula%d_spec (Lean) vs published formula (Python)' % kk, spec[i], vals[i][1], wcase,
                        rtol=1e-9, atol=1e-12)
            # predicate: implementation vs independent specification
            sp = spec[i]
            if sp is None:
                col.count('coefficient count outside the published formula')
            elif isinstance(sp, tuple):
                if not (sp[0] - 1e-12 <= iv <= sp[1] + 1e-12):
                    col.fail('tabulated n stays in the hull of the table', wcase, iv, list(sp))
            elif not close(iv, sp, 1e-9, 1e-12):
                col.fail('n(w) equals the %s named in the data file' %
                         ('dispersion formula %d' % kk if kind == 'formula' else 'linear interpolation of the table'),
                         wcase, iv, sp)
            # scalar and array arguments agree
            if isinstance(n_ar, tuple):
                col.fail('n accepts an array of wavelengths', wcase, n_ar[1], iv)
            elif not hard:
                # np.interp on unsorted abscissae depends on the search path (array calls reuse the previous
                # position as a guess): outside the property's domain, only the hull is checked
                if not (sp[0] - 1e-12 <= n_ar[i] <= sp[1] + 1e-12):
                    col.fail('tabulated n stays in the hull of the table (array argument)', wcase, n_ar[i], list(sp))
            elif not close(n_ar[i], iv, 1e-12 if rt == 1e-12 else 1e-10, 0.0):
                col.fail('scalar and array wavelength arguments agree (n)', wcase, [iv, n_ar[i]], None)
            else:
                col.bit[1] += 1
                col.bit[0] += 1 if bitexact(n_ar[i], iv) else 0
    # ---- extinction coefficient
    k_sc, k_ar = res['k_sc'], res['k_ar']
    if nk == 0:
        col.count('no k table')
        raised = [v for v in k_sc if isinstance(v, tuple)]
        if raised and all(isinstance(v, tuple) and v[1] == 'value-error' for v in k_sc):
            col.fail('k(w) of an entry without k table (ValueError; tracing through such a medium fails)',
                     dict(case, what='k'), 'ValueError', 'no extinction data: nothing to interpolate',
                     finding_key='no-k-table')
        elif raised:
            col.fail('k(w) of an entry without k table', dict(case, what='k'), [str(v) for v in k_sc[:3]], None)
        else:
            col.count('k without table returns a value')
    else:
        kv = read_opts(outs[o], len(ws))
        o += 1
        if kv is None:
            col.disagree({'what': 'driver error (k)', 'case': case})
            return
        kspec = res['k_spec']
        hard = res['k_table_class'] != 'unsorted'
        for i, w in enumerate(ws):
            iv = k_sc[i]
            wcase = dict(case, w=w, what='k')
            if isinstance(iv, tuple):
                col.fail('k(w) is the linear interpolation of the k table', wcase, iv[1], kspec[i])
                continue
            if kv[i] is None:
                col.disagree({'what': 'model raises for k, implementation returns', 'impl': iv, 'case': wcase})
                continue
            col.cmp('k', iv, kv[i], wcase, rtol=1e-12, atol=0.0, hard=hard)
            sp = kspec[i]
            if isinstance(sp, tuple):
                col.count('k: table not sorted (np.interp undefined; hull only)')
                if not (sp[0] - 1e-300 <= iv <= sp[1] + 1e-300):
                    col.fail('tabulated k stays in the hull of the table', wcase, iv, list(sp))
            elif not close(iv, sp, 1e-9, 1e-300):
                col.fail('k(w) is the linear interpolation of the k table', wcase, iv, sp)
            if isinstance(k_ar, tuple):
                col.fail('k accepts an array of wavelengths', wcase, k_ar[1], iv)
            elif not hard:
                if not (sp[0] - 1e-300 <= k_ar[i] <= sp[1] + 1e-300):
                    col.fail('tabulated k stays in the hull of the table (array argument)', wcase, k_ar[i], list(sp))
            elif not close(k_ar[i], iv, 1e-12, 0.0):
                col.fail('scalar and array wavelength arguments agree (k)', wcase, [iv, k_ar[i]], None)
        nontrivial = True
    # ---- Abbe number
    if 'abbe' in res:
        ab = res['abbe']
        acase = dict(case, what='abbe')
        if isinstance(ab[0], str):
            col.fail('abbe() of a glass whose range covers F..C', acase, ab[1], None)
        else:
            V, nd, nf, nc = ab
            col.count('abbe numbers checked')
            col.extra.append(('abbe', idx, fname, V, nd, nf, nc))
            with np.errstate(all='ignore'):
                want = (np.float64(nd) - 1) / (np.float64(nf) - np.float64(nc))
            if not close(V, float(want), 1e-12, 0.0):
                col.fail('Abbe number is (n_d - 1)/(n_F - n_C)', acase, V, float(want))
            if 'abbe_spec' in res:
                sd, sf, sc_ = res['abbe_spec']
                with np.errstate(all='ignore'):
                    want2 = (sd - 1) / (sf - sc_)
                if math.isfinite(want2) and not close(V, want2, 1e-6, 0.0):
                    col.fail('Abbe number is (n_d - 1)/(n_F - n_C) of the published formula', acase, V, want2)
    col.case(case, nontrivial)


def rows_chunk(tasks):
    """worker entry: implementation + spec for a chunk of rows, one driver batch, judgement"""
    col = Col()
    ress = [row_work(t) for t in tasks]
    lines = [ln for r in ress for ln in r['lines']]
    try:
        outs = Driver().batch(lines)
    except Exception as e:  # noqa
        col.disagree({'what': 'driver failed: %s' % e, 'case': {'rows': [t[0] for t in tasks]}})
        return col
    o = 0
    for r in ress:
        n = len(r['lines'])
        try:
            judge_row(col, r, outs[o:o + n])
        except Exception as e:  # noqa
            import traceback
            col.disagree({'what': 'harness error: ' + traceback.format_exc()[-400:], 'case': {'row': r['idx']}})
        o += n
    return col


# --------------------------------------------------------------------------- lookup (worker)
def _row_key(md):
    return (md.get('filename'), md.get('name'), md.get('reference'), md.get('category_name'))


def lookup_chunk(queries):
    """implementation side of the lookups: returns per query ('row', key) | ('value-error',) | ('other', cls)"""
    from optiland.materials.material import Material
    warnings.filterwarnings('ignore')
    out = []
    for name, ref in queries:
        buf = io.StringIO()
        with contextlib.redirect_stdout(buf), np.errstate(all='ignore'):
            try:
                m = Material(name, ref)
                out.append(('row', _row_key(m.material_data), None))
                continue
            except Exception as e:  # noqa
                first = type(e).__name__
            # did the lookup itself fail, or loading the file it found (F11)?
            try:
                b = Material.__new__(Material)
                b.name, b.reference, b.robust = name, ref, True
                b.min_wavelength = b.max_wavelength = None
                _f, md = b._retrieve_file()
                out.append(('row', _row_key(md), first))
            except ValueError:
                out.append(('value-error', None, first))
            except Exception as e2:  # noqa
                out.append(('other', type(e2).__name__, first))
    return out


def window_chunk(queries):
    """look-ups with the optional wavelength window: (name, ref, wmin, wmax) -> name of the entry found | error class"""
    from optiland.materials.material import Material
    warnings.filterwarnings('ignore')
    out = []
    for name, ref, wmin, wmax in queries:
        with contextlib.redirect_stdout(io.StringIO()), np.errstate(all='ignore'):
            try:
                b = Material.__new__(Material)
                b.name, b.reference, b.robust = name, ref, True
                b.min_wavelength, b.max_wavelength = wmin, wmax
                _f, md = b._retrieve_file()
                out.append(('row', _row_key(md)))
            except Exception as e:  # noqa
                out.append(('error', type(e).__name__))
    return out


def run_window_lookups(ctx, rows, amb_rows):
    """the exact-name clause with the optional arguments min_wavelength / max_wavelength set to the entry's own stated
    range (its limits included): the entry itself qualifies, so an entry with exactly that name must come back"""
    IN, IR = 4, 3
    amb_names = {rows[i][IN] for i in amb_rows}
    cand = [r for r in rows if r[IN] not in amb_names and not has_meta(r[IN]) and not has_meta(r[IR])
            and math.isfinite(float(r[6])) and math.isfinite(float(r[7])) and 0 < float(r[6]) < float(r[7])]
    # (two HIKARI rows of the CSV state a range whose lower limit exceeds the upper one: no wavelength lies inside)
    if ctx.quick():
        cand = ctx.rng.sample(cand, min(300, len(cand)))
    queries = []
    for r in cand:
        lo, hi = float(r[6]), float(r[7])
        queries.append((r[IN], r[IR], *ctx.rng.choice([(lo, hi), (lo, None), (None, hi), (lo, 0.5 * (lo + hi))])))
    chunks = [queries[i::NPROC * 2] for i in range(NPROC * 2)]
    chunks = [c for c in chunks if c]
    for c, o in zip(chunks, pool_map(window_chunk, chunks)):
        for q, res in zip(c, o):
            case = {'kind': 'window-lookup', 'name': q[0], 'reference': q[1], 'min_wavelength': q[2],
                    'max_wavelength': q[3]}
            ctx.case(case, True)
            ctx.count('lookups with a wavelength window')
            if res[0] != 'row' or res[1][1] != q[0]:
                ctx.fail('looking a material up by an exact catalogue name returns an entry with exactly that name '
                         '(wavelength window = the entry\'s own stated range)', case,
                         res[1][1] if res[0] == 'row' else res[1], q[0])


def has_meta(s):
    return bool(s) and any(c in META for c in s)


def read_rows_answer(ans):
    t = ans.split()
    if not t:
        return ('bad', None)
    if t[0] == 'rows':
        return ('rows', [int(v) for v in t[2:2 + int(t[1])]])
    return (t[0], None)


# --------------------------------------------------------------------------- main
def pool_map(fn, chunks):
    if NPROC == 1 or len(chunks) <= 1:
        return [fn(c) for c in chunks]
    ctxm = mp.get_context('fork')
    with ctxm.Pool(NPROC) as p:
        return p.map(fn, chunks, chunksize=1)


def check_table(ctx, drv, header, rows):
    """the regenerated Lean table equals the CSV as the implementation reads it"""
    from optiland.materials.material import Material
    df = Material._load_dataframe()
    outs = drv.batch(['catlen'] + ['catrow %d' % i for i in range(len(rows))] + ['catamb'])
    n, sha = outs[0].split()
    import hashlib
    real = hashlib.sha256(open(CSVP, 'rb').read()).hexdigest()
    if int(n) != len(rows) or sha != real or len(df) != len(rows):
        ctx.disagreements.append({'what': 'catalogue table out of date', 'model': outs[0], 'impl': [len(rows), real],
                                  'case': {'kind': 'table'}})
        return None
    cols = ['group', 'category_name', 'category_name_full', 'reference', 'name', 'filename']
    bad = 0
    for i, r in enumerate(rows):
        t = outs[1 + i].split()
        p = 0
        fields = []
        for _ in range(8):
            ln = int(t[p])
            fields.append(''.join(chr(int(v)) for v in t[p + 1:p + 1 + ln]))
            p += 1 + ln
        ok = fields == r and all(str(df[c].iloc[i]) == fields[j] for j, c in enumerate(cols)) \
            and float(fields[6]) == float(df['min_wavelength'].iloc[i]) \
            and float(fields[7]) == float(df['max_wavelength'].iloc[i])
        for s in fields[1:6]:
            if s.lower() != ascii_lower(s):
                ctx.drift.append({'what': 'str.lower differs from ASCII lower', 'case': {'row': i, 'text': s}})
        if not ok:
            bad += 1
            if bad <= 3:
                ctx.disagreements.append({'what': 'Lean catalogue row differs from CSV/DataFrame', 'model': fields,
                                          'impl': r, 'case': {'kind': 'table', 'row': i}})
    ctx.count('table rows compared with CSV and DataFrame', len(rows))
    amb = [int(v) for v in outs[-1].split()[1:]]
    return amb


def run_lookups(ctx, drv, rows, amb_rows, queries):
    """queries: list of (name, ref or None)"""
    IN, IR, IC, IF = 4, 3, 1, 5
    key_to_idx = collections.defaultdict(list)
    for i, r in enumerate(rows):
        key_to_idx[(r[IF], r[IN], r[IR], r[IC])].append(i)
    amb_names = {rows[i][IN] for i in amb_rows}
    chunks = [queries[i::NPROC * 4] for i in range(NPROC * 4)]
    chunks = [c for c in chunks if c]
    impl = {}
    for c, o in zip(chunks, pool_map(lookup_chunk, chunks)):
        for q, r in zip(c, o):
            impl[q] = r
    lines = []
    for name, ref in queries:
        tail = enc_str(name) + (' 1 ' + enc_str(ref) if ref is not None else ' 0')
        lines.append('lookup 0 ' + tail)
        lines.append('lookup 1 ' + tail)
    outs = drv.batch(lines)
    for qi, (name, ref) in enumerate(queries):
        case = {'kind': 'lookup', 'name': name, 'reference': ref}
        ctx.case(case, True)
        ctx.count('lookups' + (' with reference' if ref is not None else ''))
        ms = read_rows_answer(outs[2 * qi])
        mc = read_rows_answer(outs[2 * qi + 1])
        kind, key, ctor_err = impl[(name, ref)]
        I = key_to_idx.get(key, []) if kind == 'row' else []
        if kind == 'row' and not I:
            ctx.disagreements.append({'what': 'implementation returned a row that is not in the CSV', 'impl': key,
                                      'case': case})
            continue
        if ms[0] != 'rows':
            ctx.disagreements.append({'what': 'driver: ' + outs[2 * qi][:80], 'case': case})
            continue
        Ls = ms[1]
        # theorem by evaluation: outside the exception list every minimal row has the queried name
        if name not in amb_names and (not Ls or any(rows[j][IN] != name for j in Ls)):
            ctx.disagreements.append({'what': 'lookup_spec returns a row with another name although the name is not '
                                              'on the exception list (contradicts C18.lookup_exact_name)',
                                      'model': Ls, 'case': case})

        def agrees(m):
            if m[0] == 'rows':
                return (kind == 'row' and bool(set(I) & set(m[1]))) if m[1] else kind == 'value-error'
            if m[0] == 'reerr':
                return kind == 'other'
            return None
        a_spec, a_code = agrees(ms), agrees(mc)
        if mc[0] == 'unmodelled':
            ctx.count('lookup: regular expression outside the modelled subset')
        if a_code:
            ctx.count('lookup agrees with lookup_code')
        if a_spec:
            ctx.count('lookup agrees with lookup_spec')
        if not a_code and not a_spec and mc[0] != 'unmodelled':
            ctx.disagreements.append({'what': 'lookup result differs from lookup_code and lookup_spec',
                                      'impl': [kind, key], 'model': {'spec': ms, 'code': mc}, 'case': case})
        # predicate
        meta = has_meta(name) or has_meta(ref)
        if kind == 'row' and key[1] == name:
            if name in amb_names:
                ctx.count('ambiguous name resolved to the right row by tie order')
            if ctor_err:
                ctx.count('lookup fine, file cannot be loaded (%s)' % ctor_err)
            continue
        observed = key[1] if kind == 'row' else ('ValueError' if kind == 'value-error' else key)
        clause = 'looking a material up by an exact catalogue name returns an entry with exactly that name'
        if kind == 'row' and set(I) & set(Ls) and name in amb_names:
            ctx.count('finding: ambiguous name')
            ctx.fail(clause + ' (another row ties at score 0)', case, observed, name, finding_key='ambiguous-name')
        elif meta and (a_code or mc[0] == 'unmodelled') and Ls and all(rows[j][IN] == name for j in Ls):
            ctx.count('finding: regex semantics')
            ctx.fail(clause + ' (name interpreted as a regular expression)', case, observed, name,
                     finding_key='regex-lookup')
        else:
            ctx.fail(clause, case, observed, name)


def run_model_glass(ctx, drv, schott):
    """AbbeMaterial: coefficients and polynomial vs the model (hard); reproduction of (n_d, V_d) (numerical)"""
    from optiland.materials.abbe import AbbeMaterial
    coeff = np.load(os.path.join(REPO, 'database', 'glass_model_coefficients.npy'))
    cols = ['%d %s' % (coeff.shape[0], ' '.join(fhex(v) for v in coeff[:, j])) for j in range(coeff.shape[1])]
    pts = [(nd, V, 'catalogue:' + fn) for (nd, V, fn) in schott]
    n_extra = 200 if ctx.quick() else 5000
    for _ in range(n_extra if len(schott) >= 2 else 0):
        a, b = ctx.rng.sample(schott, 2)
        t = ctx.rng.random()
        pts.append((a[0] * t + b[0] * (1 - t), a[1] * t + b[1] * (1 - t), 'between'))
    ws = [0.38, LAM_F, 0.55, LAM_D, LAM_C, 0.75]
    lines, mats = [], []
    for nd, V, tag in pts:
        m = AbbeMaterial(nd, V)
        mats.append(m)
        lines.append('abbecoef %s %s %d %s' % (fhex(nd), fhex(V), len(cols), ' '.join(cols)))
        lines.append('polyval %d %s %d %s' % (len(m._p), ' '.join(fhex(v) for v in m._p), len(ws),
                                              ' '.join(fhex(w) for w in ws)))
    lines.append('abbe %s %s %s' % (fhex(1.5168), fhex(1.5224), fhex(1.5143)))
    outs = drv.batch(lines)
    lam = [unhex(v) for v in outs[-1].split()][1:]
    for a, b in zip(lam, (LAM_D, LAM_F, LAM_C)):
        ctx.cmp('Fraunhofer wavelength', b, a, {'kind': 'abbe-constants'}, rtol=0, atol=0)
    worst_n = worst_d = 0.0
    for i, ((nd, V, tag), m) in enumerate(zip(pts, mats)):
        case = {'kind': 'model-glass', 'nd': nd, 'V': V, 'origin': tag}
        ctx.case(case, True)
        ctx.count('model glasses (%s)' % tag.split(':')[0])
        pm = [unhex(v) for v in outs[2 * i].split()]
        scale = float(np.abs(np.array([nd, V, nd ** 2, V ** 2, nd ** 3, V ** 3])[:, None] * coeff).sum(axis=0).max())
        ctx.cmp_list('AbbeMaterial._p', list(m._p), pm, case, rtol=1e-12, atol=1e-13 * scale)
        vm = [unhex(v) for v in outs[2 * i + 1].split()]
        vi = [fl(m.n(w)) for w in ws]
        ctx.cmp_list('AbbeMaterial.n', vi, vm, case, rtol=1e-12, atol=1e-15)
        va = [float(v) for v in np.ravel(m.n(np.array(ws)))]
        for a, b in zip(vi, va):
            if not close(a, b, 1e-12, 0.0):
                ctx.fail('scalar and array wavelength arguments agree (model glass)', case, [a, b], None)
        if m.abbe != V or m.index != nd:
            ctx.fail('a model glass reports the (n_d, V_d) it was built from', case, [m.index, m.abbe], [nd, V])
        if fl(m.k(0.55)) != 0:
            ctx.fail('a model glass does not absorb', case, fl(m.k(0.55)), 0)
        dn = abs(vi[3] - nd)
        dd = abs((vi[1] - vi[4]) - (nd - 1) / V)
        worst_n, worst_d = max(worst_n, dn), max(worst_d, dd)
        if dn > TOL_ND:
            ctx.fail('a model glass reproduces n_d within the accuracy of its fit (|dn| <= %g)' % TOL_ND, case,
                     vi[3], nd)
        if dd > TOL_DISP:
            ctx.fail('a model glass reproduces n_F - n_C = (n_d-1)/V_d within the accuracy of its fit (<= %g)'
                     % TOL_DISP, case, vi[1] - vi[4], (nd - 1) / V)
    ctx.stats['model glass: worst |n(d) - n_d|'] = worst_n
    ctx.stats['model glass: worst |(n_F-n_C) - (n_d-1)/V_d|'] = worst_d


def run_abbe_model(ctx, drv, extras):
    """BaseMaterial.abbe vs the model's `abbe` on the implementation's own three indices"""
    ab = [e for e in extras if e[0] == 'abbe']
    outs = drv.batch(['abbe %s %s %s' % (fhex(e[4]), fhex(e[5]), fhex(e[6])) for e in ab])
    for e, o in zip(ab, outs):
        ctx.cmp('abbe', e[3], unhex(o.split()[0]), {'kind': 'file', 'row': e[1], 'file': e[2], 'what': 'abbe'},
                rtol=1e-12, atol=0.0)


def run_ideal(ctx):
    from optiland.materials.ideal import IdealMaterial
    for _ in range(20):
        n, k = ctx.rng.uniform(1, 4), ctx.rng.choice([0, ctx.rng.uniform(0, 1)])
        m = IdealMaterial(n, k)
        w = ctx.rng.uniform(0.2, 12)
        case = {'kind': 'ideal', 'n': n, 'k': k, 'w': w}
        ctx.case(case, True)
        if fl(m.n(w)) != n or fl(m.k(w)) != k or fl(m.n(np.array([w, 2 * w]))) != n:
            ctx.fail('an ideal material returns its constant index', case, [fl(m.n(w)), fl(m.k(w))], [n, k])


def run(tier, seed, replay=None):
    ctx = Ctx('C18', tier, seed)
    ctx.stats['rule'] = ('exhaustive: every row of catalog_nk.csv (file parsed independently; n and k at 5 (quick) / 64 '
                         '(thorough) wavelengths across [min,max] incl. end points and table knots, scalar and array '
                         'arguments); every distinct catalogue name looked up (thorough: every distinct (name, '
                         'reference) pair too); Abbe number of every glass covering F..C; model glasses on the Schott '
                         'glasses and on random points between them; non-trivial = file loads and returns finite '
                         'values / lookup executed; distinct by descriptor hash')
    if yaml is None:
        raise RuntimeError('PyYAML is needed for the independent parse of the data files')
    ensure_catalog(ctx)
    aud = audit('C18')
    drv = Driver()
    header, rows = read_csv_rows()
    nw = 5 if ctx.quick() else 64
    only_row = only_lookup = None
    if replay:
        if replay.get('kind') in ('file',) or 'row' in replay:
            only_row = int(replay['row'])
        elif replay.get('kind') == 'lookup':
            only_lookup = (replay['name'], replay.get('reference'))
    amb_rows = check_table(ctx, drv, header, rows)
    if amb_rows is None:
        amb_rows = []
    # ---- files
    tasks = []
    for i, r in enumerate(rows):
        if only_lookup is not None or (only_row is not None and i != only_row):
            continue
        tasks.append((i, r[5], float(r[6]), float(r[7]), nw, seed, r[0]))
    # big files first, round-robin over workers
    per = max(1, min(24, len(tasks) // (NPROC * 6) or 1))
    chunks = [tasks[i:i + per] for i in range(0, len(tasks), per)]
    extras = []
    for col in pool_map(rows_chunk, chunks):
        merge(ctx, col)
        extras += col.extra
    if extras:
        run_abbe_model(ctx, drv, extras)
    # ---- lookups
    IN, IR = 4, 3
    if only_row is None:
        if only_lookup is not None:
            queries = [only_lookup]
        else:
            seen, queries = set(), []
            for r in rows:
                if r[IN] not in seen:
                    seen.add(r[IN])
                    queries.append((r[IN], None))
            if not ctx.quick():
                seen2 = set()
                for r in rows:
                    if (r[IN], r[IR]) not in seen2:
                        seen2.add((r[IN], r[IR]))
                        queries.append((r[IN], r[IR]))
        run_lookups(ctx, drv, rows, amb_rows, queries)
        if only_lookup is None:
            run_window_lookups(ctx, rows, amb_rows)
    # ---- model glass, ideal material
    if not replay:
        schott = [(e[4], e[3], e[2]) for e in extras if e[0] == 'abbe' and e[2].startswith('glass/schott/')
                  and math.isfinite(e[3]) and math.isfinite(e[4])]
        ctx.count('Schott glasses on the map', len(schott))
        run_model_glass(ctx, drv, schott)
        run_ideal(ctx)
    return finish(ctx, aud,
                  partial=['IEEE rounding: theorems are over the reals; the Float model agrees with NumPy within 1e-12 '
                           '(1e-10 where pow with a real exponent occurs)',
                           'model_glass_reproduces_partial: reproduction of (n_d, V_d) by AbbeMaterial is checked '
                           'numerically against a measured fit accuracy (|dn_d| <= 2e-3, |d(n_F-n_C)| <= 1e-2), no theorem',
                           'lookup_code (regular-expression semantics of pandas str.contains) is modelled for patterns '
                           'with the metacharacters . ( ) only and is run, not reasoned about',
                           'np.interp on tables that are not sorted is outside the theorems (hull check only)',
                           'min_wavelength/max_wavelength filters of Material are not modelled'],
                  assumptions=['pandas sort_values picks some row of minimal score (unstable sort): any such row is accepted',
                               'str.lower() folds exactly the ASCII letters on every string of the table (checked per run)',
                               'PyYAML and float() read numbers as the implementation does',
                               'NumPy/libm pow within 1e-10 relative of the C library pow used by the driver'])
