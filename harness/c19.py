"""C19  Saving and reloading a lens preserves its behaviour.

Predicate (the property itself, evaluated on the real code, before and after an edit history):
  (a) d = o.to_dict(); o2 = Optic.from_dict(d); canon(o2.to_dict()) == canon(d)
  (b) save_optiland_file / load_optiland_file through a temporary directory succeeds and the
      reloaded lens has the same dictionary form
  (c) o, o2 (and the lens loaded from the file) trace identically (per-surface x,y,z,L,M,N,
      intensity, opd bit-identical; `c02.trace_case`) and have identical paraxial values
      (`c04.impl_all`); lenses with a scatter model: prescription only
Correspondence (hard observables): the implementation's dictionary, encoded into the model's
JSON tree `J`, is sent to the driver (`serial`), which answers `jsonOk j` and
`toDict (fromDict_code j)`; compared with `json.dump` succeeded / `Optic.from_dict(d).to_dict()`.
A second stream removes optional keys (`serialdef`) so that the `.get(key, default)` defaults of
every `from_dict` are compared too.
"""
import math, copy, json, os, tempfile, shutil, contextlib, io, random
import numpy as np
from .core import fhex, unhex, Toks, Driver, Ctx, audit, finish
from . import lensgen, c01, c02, c04, realenc
from .lensgen import dyadic, INF, _num


# ------------------------------------------------------------------ construction through the public API
def make_material(m):
    from optiland.materials import Material, MaterialFile, Mirror
    k = m['kind']
    if k == 'catalog_full':
        return Material(m['name'], m.get('ref'), robust_search=m.get('robust', True),
                        min_wavelength=m.get('min_wl'), max_wavelength=m.get('max_wl'))
    if k == 'matfile':
        return MaterialFile(Material(m['name']).filename)
    if k == 'mirror_obj':
        return Mirror()
    return lensgen.make_material(m)


def make_cs(c):
    from optiland.coordinate_system import CoordinateSystem
    if c is None:
        return None
    return CoordinateSystem(x=c.get('x', 0), y=c.get('y', 0), z=c.get('z', 0), rx=c.get('rx', 0),
                            ry=c.get('ry', 0), rz=c.get('rz', 0), reference_cs=make_cs(c.get('ref')))


def make_bsdf(b):
    from optiland.scatter import LambertianBSDF, GaussianBSDF
    if not b:
        return None
    if b == 'lambertian':
        return LambertianBSDF()
    return GaussianBSDF(b['sigma'])


def build(desc):
    """the Optic described by `desc`, public API only (superset of lensgen.build: scatter models, wavelength
    units, polarization, reference frames, ImageSurface, Material options)"""
    from optiland.optic import Optic
    from optiland.physical_apertures import RadialAperture
    from optiland.coatings import SimpleCoating
    from optiland.rays import PolarizationState
    o = Optic()
    for s in desc['surfaces']:
        kw = {}
        for key in ('conic', 'dx', 'dy', 'rx', 'ry', 'tol', 'max_iter', 'norm_x', 'norm_y'):
            if key in s:
                kw[key] = s[key]
        if 'coefficients' in s:
            st = s.get('surface_type')
            kw['coefficients'] = np.array(s['coefficients'], dtype=float) \
                if st in ('polynomial', 'chebyshev') or s.get('coeff_array') else list(s['coefficients'])
        if s.get('aperture'):
            kw['aperture'] = RadialAperture(r_max=s['aperture']['r_max'], r_min=s['aperture'].get('r_min', 0))
        c = s.get('coating')
        if c:
            kw['coating'] = 'fresnel' if c == 'fresnel' else SimpleCoating(c['T'], c['R'])
        if s.get('bsdf'):
            kw['bsdf'] = make_bsdf(s['bsdf'])
        mat = make_material(s.get('material', {'kind': 'air'}))
        if s.get('image_class') or s.get('frame'):
            # a surface object handed to add_surface(new_surface=...)
            from optiland.surfaces import ImageSurface
            from optiland.surfaces.standard_surface import Surface
            from optiland.geometries import Plane, StandardGeometry
            from optiland.materials import IdealMaterial
            prev = o.surface_group.surfaces[s['index'] - 1]
            z = float(np.ravel(prev.geometry.cs.z)[0]) + float(o.surface_group.surface_factory.last_thickness) \
                if s['index'] > 1 else 0.0
            fr = dict(s.get('frame') or {})
            fr.setdefault('z', z)
            cs = make_cs(fr)
            R = _num(s.get('radius', INF))
            geo = Plane(cs) if np.isinf(R) else StandardGeometry(cs, R, s.get('conic', 0.0))
            if s.get('image_class'):
                surf = ImageSurface(geo, prev.material_post, kw.get('aperture'))
            else:
                _, post = o.surface_group.surface_factory._configure_material(s['index'], mat)
                surf = Surface(geo, prev.material_post, post, s.get('is_stop', False), kw.get('aperture'),
                               kw.get('coating') if not isinstance(kw.get('coating'), str) else None,
                               kw.get('bsdf'))
            o.add_surface(new_surface=surf, index=s['index'])
            o.surface_group.surface_factory.last_thickness = _num(s.get('thickness', 0))
            continue
        o.add_surface(index=s['index'], surface_type=s.get('surface_type', 'standard'),
                      radius=_num(s.get('radius', INF)), thickness=_num(s.get('thickness', 0)),
                      material=mat, is_stop=s.get('is_stop', False), **kw)
    ap = desc.get('aperture')
    if ap:
        o.set_aperture(aperture_type=ap[0], value=ap[1])
    o.set_field_type(field_type=desc['field_type'])
    for f in desc['fields']:
        o.add_field(y=f[0], x=f[1] if len(f) > 1 else 0.0,
                    vx=f[2] if len(f) > 2 else 0.0, vy=f[3] if len(f) > 3 else 0.0)
    for w in desc['wavelengths']:
        o.add_wavelength(value=w[0], is_primary=bool(w[1]), unit=w[2] if len(w) > 2 else 'um')
    if desc.get('telecentric'):
        o.obj_space_telecentric = True
    pol = desc.get('polarization', 'ignore')
    if pol == 'unpolarized':
        o.set_polarization(PolarizationState(is_polarized=False))
    elif isinstance(pol, dict):
        o.set_polarization(PolarizationState(is_polarized=True, Ex=pol['Ex'], Ey=pol['Ey'],
                                             phase_x=pol['phase_x'], phase_y=pol['phase_y']))
    return o


def quiet(f, *a, **k):
    with contextlib.redirect_stdout(io.StringIO()):
        return f(*a, **k)


# ------------------------------------------------------------------ edit histories
def apply_op(o, op):
    """c01's operations plus scale_system and a short optimisation; returns None or the exception name"""
    k = op[0]
    try:
        if k == 'scale':
            o.scale_system(op[1])
        elif k == 'opt':
            from optiland.optimization import OptimizationProblem, OptimizerGeneric
            pb = OptimizationProblem()
            pb.add_operand('f2', op[3], 1, {'optic': o})
            for (vt, sn) in op[1]:
                pb.add_variable(o, vt, surface_number=sn)
            quiet(OptimizerGeneric(pb).optimize, maxiter=op[2], disp=False)
        elif k == 'pol':
            from optiland.rays import PolarizationState
            o.set_polarization(PolarizationState(is_polarized=True, Ex=op[1], Ey=op[2], phase_x=0.0, phase_y=op[3]))
        elif k == 'tele':
            o.obj_space_telecentric = bool(op[1])
            o.fields.set_telecentric(bool(op[1]))
        elif k == 'rm':
            # edits of the surface list itself: the neighbours keep the media they were built with
            o.surface_group.remove_surface(op[1])
        elif k == 'ins':
            o.add_surface(index=op[1], radius=op[2], thickness=op[3],
                          material=lensgen.make_material({'kind': 'ideal', 'n': op[4]}))
        else:
            return c01.apply_op(o, op)
    except Exception as e:  # noqa
        return type(e).__name__
    return None


def gen_ops(rng, desc, nmax=8):
    n = len(desc['surfaces'])          # object + optical + image
    if n < 3:
        return []
    obj_inf = desc['surfaces'][0].get('thickness') == INF
    plain = [s['index'] for s in desc['surfaces'][1:-1]]
    ops = []
    for _ in range(rng.randint(1, nmax)):
        u = rng.random()
        k = rng.choice(plain)
        if u < 0.12:
            ops.append(('sr', dyadic(rng, 15, 300, 3) * rng.choice([1, -1]), k))
        elif u < 0.20:
            ops.append(('sc', dyadic(rng, -3, 1, 5), k))
        elif u < 0.34:
            ops.append(('st', dyadic(rng, 0.5, 30, 4), rng.randint(0 if not obj_inf else 1, n - 2)))
        elif u < 0.42:
            if k == n - 2 and desc['surfaces'][-1].get('image_class'):
                # set_index in front of an ImageSurface leaves its back medium on the old object: the model's
                # image record has one medium only (outside the model; the predicate still covers it elsewhere)
                continue
            ops.append(('si', dyadic(rng, 1.3, 2.0, 8), k))
        elif u < 0.47:
            ops.append(('sa', rng.uniform(-1, 1) * 1e-7, k, rng.randint(0, 1)))
        elif u < 0.52:
            ops.append((rng.choice(['tx', 'ty']), dyadic(rng, -0.05, 0.05, 8), k))
        elif u < 0.57:
            ops.append((rng.choice(['ddx', 'ddy']), dyadic(rng, -0.25, 0.25, 6), k))
        elif u < 0.61:
            ops.append(('aw', dyadic(rng, 0.45, 0.65, 6), rng.random() < 0.4))
        elif u < 0.72:
            attr = rng.choice(['radius', 'conic', 'thickness'])
            src, tgt = rng.choice(plain), rng.choice(plain)
            if rng.random() < 0.3:
                # surfaces counted from the image, as in Python indexing (the samples use -1 for the image surface)
                src, tgt = (src - n if rng.random() < 0.7 else src), (tgt - n if rng.random() < 0.7 else tgt)
            ops.append(('pk', src, attr, tgt, rng.choice([1.0, -1.0, 0.5, 2.0]),
                        dyadic(rng, -2, 2, 3) if rng.random() < 0.5 else 0.0))
        elif u < 0.78:
            sidx = rng.randint(2, n - 1)
            if rng.random() < 0.3:
                sidx -= n
            ops.append(('sv', sidx, dyadic(rng, -1, 1, 4) if rng.random() < 0.5 else 0.0))
        elif u < 0.86:
            ops.append(('up',))
        elif u < 0.92:
            ops.append(('is',))
        elif u < 0.97:
            ops.append(('scale', rng.choice([0.5, 2.0, 1.25, 3.0])))
        else:
            vs = [(rng.choice(['radius', 'thickness', 'conic']), rng.choice(plain)) for _ in range(rng.randint(1, 2))]
            ops.append(('opt', vs, 3, dyadic(rng, 30, 120, 2)))
    if n >= 4 and rng.random() < 0.15:
        # the surface list itself is edited (remove_surface / add_surface in the middle of the list)
        if rng.random() < 0.5:
            e = ('rm', rng.randint(1, n - 2))
        else:
            e = ('ins', rng.randint(1, n - 2), dyadic(rng, 15, 300, 3) * rng.choice([1, -1]), dyadic(rng, 0.5, 8, 4),
                 dyadic(rng, 1.3, 2.0, 8))
        ops.insert(rng.randint(0, len(ops)), e)
    return ops


# ------------------------------------------------------------------ canonical dictionary form
class Opaque:
    """a live Python object found in a dictionary form (material inside FresnelCoating.to_dict, PolarizationState)"""

    def __init__(self, tag, fields):
        self.tag, self.fields = tag, fields

    def __eq__(self, other):
        return isinstance(other, Opaque) and (self.tag, self.fields) == (other.tag, other.fields)

    def __repr__(self):
        return 'Opaque(%s,%r)' % (self.tag, self.fields)


class NdArray:
    def __init__(self, values):
        self.values = values

    def __eq__(self, other):
        return isinstance(other, NdArray) and _same(self.values, other.values)

    def __repr__(self):
        return 'NdArray(%r)' % (self.values,)


def _same(a, b):
    """structural equality with NaN == NaN"""
    if isinstance(a, float) and isinstance(b, float):
        return a == b or (a != a and b != b)
    if isinstance(a, (list, tuple)) and isinstance(b, (list, tuple)):
        return len(a) == len(b) and all(_same(x, y) for x, y in zip(a, b))
    if isinstance(a, dict) and isinstance(b, dict):
        return a.keys() == b.keys() and all(_same(a[k], b[k]) for k in a)
    if isinstance(a, NdArray) or isinstance(a, Opaque):
        return a == b
    return type(a) == type(b) and a == b


def canon(x, keep_arrays=False):
    """Python numbers/lists only: numpy scalars -> float/int/bool, arrays -> lists (or NdArray markers when
    keep_arrays), ints -> floats (1 == 1.0 in Python), objects with to_dict -> Opaque(tag, canonical dict)"""
    if x is None or isinstance(x, str):
        return x
    if isinstance(x, (bool, np.bool_)):
        return bool(x)
    if isinstance(x, (int, float, np.integer, np.floating)):
        return float(x)
    if isinstance(x, np.ndarray):
        v = canon(x.tolist(), keep_arrays)
        return NdArray(v) if keep_arrays else v
    if isinstance(x, (list, tuple)):
        return [canon(v, keep_arrays) for v in x]
    if isinstance(x, dict):
        return {str(k): canon(v, keep_arrays) for k, v in x.items()}
    if hasattr(x, 'to_dict'):
        return Opaque(type(x).__name__, canon(x.to_dict(), keep_arrays))
    fields = {k: canon(v, keep_arrays) for k, v in sorted(vars(x).items())} if hasattr(x, '__dict__') else repr(x)
    return Opaque(type(x).__name__, fields)


def squeeze(x):
    """1-element lists standing for numbers (cs.z stored as a 1-element array) -> the number"""
    if isinstance(x, dict):
        return {k: (squeeze(v) if not (k == 'z' and isinstance(v, list) and len(v) == 1) else v[0])
                for k, v in x.items()}
    if isinstance(x, list):
        return [squeeze(v) for v in x]
    if isinstance(x, Opaque):
        return Opaque(x.tag, squeeze(x.fields))
    return x


def first_diff(a, b, path=''):
    if isinstance(a, dict) and isinstance(b, dict):
        for k in sorted(set(a) | set(b)):
            if k not in a or k not in b:
                return path + '/' + k + (' missing in reloaded' if k not in b else ' only in reloaded')
            d = first_diff(a[k], b[k], path + '/' + k)
            if d:
                return d
        return None
    if isinstance(a, list) and isinstance(b, list):
        if len(a) != len(b):
            return '%s length %d vs %d' % (path, len(a), len(b))
        for i, (x, y) in enumerate(zip(a, b)):
            d = first_diff(x, y, '%s[%d]' % (path, i))
            if d:
                return d
        return None
    if isinstance(a, Opaque) and isinstance(b, Opaque) and a.tag == b.tag:
        return first_diff(a.fields, b.fields, path + '<' + a.tag + '>')
    return None if _same(a, b) else '%s: %r vs %r' % (path, a, b)


# ------------------------------------------------------------------ behaviour
def has_bsdf(o):
    return any(s.bsdf is not None for s in o.surface_group.surfaces)


def behaviour(o, case):
    """ray records at every surface + every paraxial query, as comparable Python data"""
    wl = o.wavelengths.get_wavelengths()
    out = {}
    vals, rays = c04.impl_all(o)
    out['paraxial'] = {k: (v if isinstance(v, tuple) else float(v)) for k, v in vals.items()}
    out['paraxial_rays'] = rays
    if has_bsdf(o):
        out['trace'] = 'scatter-model (prescription only)'
        return out
    px, py = c02.disk_points(random.Random(case['seed']), case['nray'])
    recs = []
    for Hy, wi in ((case['Hy'], case.get('wi', 0)), (0.0, -1)):
        w = wl[wi % len(wl)]
        rec = c02.trace_case(o, Hy, px, py, w)
        if isinstance(rec, tuple):
            recs.append(rec)
        else:
            recs.append({f: np.array(rec[f], dtype=float) for f in realenc.FIELDS})
    out['trace'] = recs
    return out


def same_behaviour(b1, b2):
    """None when identical (bit for bit, NaN = NaN), else a description of the first difference"""
    for k in b1['paraxial']:
        a, b = b1['paraxial'][k], b2['paraxial'][k]
        if isinstance(a, tuple) or isinstance(b, tuple):
            if a != b:
                return 'paraxial %s: %r vs %r' % (k, a, b)
        elif not (a == b or (a != a and b != b)):
            return 'paraxial %s: %r vs %r' % (k, a, b)
    for k in b1['paraxial_rays']:
        a, b = b1['paraxial_rays'][k], b2['paraxial_rays'][k]
        if (a[0] == 'error') != (b[0] == 'error'):
            return 'paraxial %s: %r vs %r' % (k, a[:2], b[:2])
        if a[0] != 'error' and not _same(a, b):
            return 'paraxial %s differs' % k
    if isinstance(b1['trace'], str) or isinstance(b2['trace'], str):
        return None if b1['trace'] == b2['trace'] else 'trace: %r vs %r' % (b1['trace'], b2['trace'])
    for i, (r1, r2) in enumerate(zip(b1['trace'], b2['trace'])):
        if isinstance(r1, tuple) or isinstance(r2, tuple):
            if not (isinstance(r1, tuple) and isinstance(r2, tuple) and r1 == r2):
                return 'trace %d: %s vs %s' % (i, r1 if isinstance(r1, tuple) else 'traced',
                                               r2 if isinstance(r2, tuple) else 'traced')
            continue
        for f in realenc.FIELDS:
            x, y = r1[f], r2[f]
            if x.shape != y.shape:
                return 'trace %d field %s shape %r vs %r' % (i, f, x.shape, y.shape)
            neq = ~((x == y) | (np.isnan(x) & np.isnan(y)))
            if neq.any():
                j = np.argwhere(neq)[0]
                return 'trace %d: %s at surface %d ray %d: %r vs %r' % (i, f, j[0], j[1], float(x[tuple(j)]),
                                                                        float(y[tuple(j)]))
    return None


# ------------------------------------------------------------------ generator
GLASS_REF = [('N-BK7', 'schott'), ('N-SF11', 'schott'), ('SF6', 'schott'), ('N-SK16', 'schott')]


def gen_case(rng, quick=True):
    kind = rng.random()
    d = lensgen.gen_lens(rng, nsurf=rng.randint(1, 8) if quick else rng.randint(1, 12),
                         allow_asphere=kind < 0.35, poly=0.35 <= kind < 0.6, allow_tilt=rng.random() < 0.35,
                         catalog=rng.random() < 0.35, apertures=rng.random() < 0.35, coatings=rng.random() < 0.3,
                         absorbing=rng.random() < 0.25, dy=rng.random() < 0.2)
    feats = []
    optical = d['surfaces'][1:-1]
    finite = d['surfaces'][0]['thickness'] != INF
    # media
    for s in optical:
        m = s.get('material', {})
        if m.get('kind') == 'ideal' and rng.random() < 0.25:
            s['material'] = {'kind': 'abbe', 'n': dyadic(rng, 1.45, 1.85, 8), 'abbe': dyadic(rng, 25, 70, 2)}
            feats.append('abbe')
        elif m.get('kind') == 'catalog' and rng.random() < 0.35:
            nm, ref = rng.choice(GLASS_REF)
            s['material'] = {'kind': 'catalog_full', 'name': nm, 'ref': ref, 'robust': rng.random() < 0.8}
            if rng.random() < 0.3:
                s['material'].update(min_wl=0.4, max_wl=0.7)
            feats.append('catalog-ref')
        elif m.get('kind') == 'catalog' and rng.random() < 0.2:
            s['material'] = {'kind': 'matfile', 'name': m['name']}
            feats.append('matfile')
    # non-default Newton-Raphson settings
    for s in optical:
        if s.get('surface_type') in ('polynomial', 'chebyshev') and rng.random() < 0.5:
            s['tol'] = rng.choice([1e-8, 1e-9, 1e-12])
            s['max_iter'] = rng.choice([50, 200])
        if s.get('surface_type') == 'even_asphere' and rng.random() < 0.12:
            s['coeff_array'] = True
            feats.append('asphere-ndarray')
    # coatings / scatter
    u = rng.random()
    if u < 0.15:
        for s in optical:
            if rng.random() < 0.6 and s.get('material', {}).get('kind') != 'mirror':
                s['coating'] = 'fresnel'
                feats.append('fresnel')
    u = rng.random()
    if u < 0.12:
        s = rng.choice(optical)
        s['bsdf'] = 'lambertian' if rng.random() < 0.5 else {'sigma': dyadic(rng, 0.01, 0.2, 8)}
        feats.append('bsdf')
    # fields with vignetting factors
    if rng.random() < 0.3:
        for f in d['fields']:
            while len(f) < 2:
                f.append(0.0)
            f += [dyadic(rng, 0, 0.3, 6), dyadic(rng, 0, 0.3, 6)]
        feats.append('vignetting')
    if rng.random() < 0.08:
        d['fields'].append([d['fields'][-1][0] / 2, dyadic(rng, 0.25, 2, 3)])
        feats.append('x-field')
    # wavelengths and units
    if rng.random() < 0.35:
        unit, fac = rng.choice([('nm', 1000.0), ('mm', 1e-3), ('NM', 1000.0), ('m', 1e-6), ('cm', 1e-4), ('Um', 1.0)])
        for w in d['wavelengths']:
            if rng.random() < 0.7:
                w[0] = w[0] * fac
                w.append(unit) if len(w) < 3 else None
        feats.append('units')
    # telecentric object space
    if finite and rng.random() < 0.25:
        d['aperture'] = ['objectNA', dyadic(rng, 0.005, 0.06, 10)]
        d['field_type'] = 'object_height'
        d['telecentric'] = True
        feats.append('telecentric')
    # polarization
    u = rng.random()
    if u < 0.12:
        d['polarization'] = {'Ex': 1.0, 'Ey': rng.choice([0.0, 1.0, 0.5]), 'phase_x': 0.0,
                             'phase_y': rng.choice([0.0, math.pi / 2])}
        feats.append('polarization-state')
    elif u < 0.18:
        d['polarization'] = 'unpolarized'
        feats.append('polarization-unpolarized')
    # surface objects handed over directly
    u = rng.random()
    if u < 0.05:
        d['surfaces'][-1]['image_class'] = True
        feats.append('ImageSurface')
    elif u < 0.12 and len(optical) >= 2:
        s = rng.choice(optical[1:])
        if s.get('surface_type', 'standard') == 'standard' and s.get('material', {}).get('kind') != 'mirror':
            s['frame'] = {'x': s.get('dx', 0.0), 'y': s.get('dy', 0.0), 'rx': s.get('rx', 0.0), 'ry': s.get('ry', 0.0),
                          'ref': {'x': dyadic(rng, -0.1, 0.1, 6), 'y': dyadic(rng, -0.1, 0.1, 6), 'z': 0.0,
                                  'rx': dyadic(rng, -0.02, 0.02, 8),
                                  'ref': None if rng.random() < 0.5 else {'ry': dyadic(rng, -0.02, 0.02, 8)}}}
            feats.append('reference-frame')
    if rng.random() < 0.02:
        d['aperture'] = None
        feats.append('no-aperture')
    ops = gen_ops(rng, d) if rng.random() < 0.75 else []
    post = []
    if any(op[0] in ('pk', 'sv') for op in ops):
        # later use of the reloaded lens: the same edits + update() on the original and on every reloaded lens
        ns = len(d['surfaces'])
        srcs = sorted({op[1] % ns for op in ops if op[0] == 'pk'} | {rng.randint(1, ns - 2)})
        for k in srcs[:4]:
            post.append(('sr', dyadic(rng, 15, 300, 3) * rng.choice([1, -1]), k))
            if rng.random() < 0.5:
                post.append(('sc', dyadic(rng, -3, 1, 5), k))
        post.append(('st', dyadic(rng, 0.5, 30, 4), rng.randint(1, ns - 2)))
        post.append(('up',))
        feats.append('later-use')
    return {'desc': d, 'ops': ops, 'post': post, 'Hy': rng.choice([0.0, 1.0, -1.0, rng.uniform(-1, 1)]),
            'nray': 12 if quick else 24, 'seed': rng.randint(0, 10 ** 9), 'wi': rng.randint(0, 2), 'features': feats}


# ------------------------------------------------------------------ the round trips on the real code
def round_trip(o, case, tmpdir, tag, post=None):
    """all three round trips of one lens state; returns a result record (never raises)"""
    from optiland.optic import Optic
    from optiland.fileio.optiland_handler import save_optiland_file, load_optiland_file
    res = {'stage': tag}
    o2 = o3 = None
    try:
        raw = o.to_dict()
    except Exception as e:  # noqa
        res['to_dict_error'] = type(e).__name__
        return res
    d = canon(raw)
    res['dict'] = d
    res['dict_arrays'] = canon(raw, keep_arrays=True)
    try:
        json.dumps(raw)
        res['json_ok'] = True
    except Exception as e:  # noqa
        res['json_ok'] = False
        res['json_error'] = '%s: %s' % (type(e).__name__, e)
    beh = behaviour(o, case)
    res['behaviour_ok'] = not isinstance(beh['trace'], str) and not all(isinstance(r, tuple) for r in beh['trace'])
    # (a) in memory
    try:
        o2 = quiet(Optic.from_dict, raw)
    except Exception as e:  # noqa
        res['from_dict_error'] = '%s: %s' % (type(e).__name__, e)
        o2 = None
    if o2 is not None:
        raw2 = o2.to_dict()
        d2 = canon(raw2)
        res['dict2'] = d2
        res['dict2_arrays'] = canon(raw2, keep_arrays=True)
        res['a_diff'] = first_diff(squeeze(d), squeeze(d2))
        res['c_mem'] = same_behaviour(beh, behaviour(o2, case))
        res['orig_changed'] = first_diff(d, canon(o.to_dict()))
    # (b) through a file
    path = os.path.join(tmpdir, 'lens_%s.json' % tag)
    try:
        save_optiland_file(o, path)
    except Exception as e:  # noqa
        res['save_error'] = '%s: %s' % (type(e).__name__, e)
    else:
        try:
            o3 = quiet(load_optiland_file, path)
        except Exception as e:  # noqa
            res['load_error'] = '%s: %s' % (type(e).__name__, e)
        else:
            d3 = canon(o3.to_dict())
            res['dict3'] = d3
            res['b_diff'] = first_diff(squeeze(d), squeeze(d3))
            res['c_file'] = same_behaviour(beh, behaviour(o3, case))
    if 'save_error' in res:
        # the file a repaired `to_dict` would write (cs.z as numbers): exercises load_optiland_file all the same
        try:
            text = json.dumps(pythonize(squeeze(d)), indent=4)
        except Exception:  # noqa
            text = None
        if text is not None:
            with open(path, 'w') as fh:
                fh.write(text)
            try:
                o4 = quiet(load_optiland_file, path)
            except Exception as e:  # noqa
                res['load2_error'] = '%s: %s' % (type(e).__name__, e)
            else:
                d4 = canon(o4.to_dict())
                res['dict4'] = d4
                res['b2_diff'] = first_diff(squeeze(d), squeeze(d4))
                res['c_file2'] = same_behaviour(beh, behaviour(o4, case))
    if post and (o2 is not None or o3 is not None):
        # later use: the reloaded lenses first, the original last (nothing else looks at it afterwards)
        def later(lens):
            errs = [apply_op(lens, tuple(op)) for op in post]
            try:
                return errs, behaviour(lens, case)
            except Exception as e:  # noqa
                return errs, type(e).__name__
        l2 = later(o2) if o2 is not None else None
        l3 = later(o3) if o3 is not None else None
        l0 = later(o)
        for key, l in (('c_mem_post', l2), ('c_file_post', l3)):
            if l is None:
                continue
            if l[0] != l0[0]:
                res[key] = 'later edits: %r vs %r' % (l0[0], l[0])
            elif isinstance(l0[1], str) or isinstance(l[1], str):
                res[key] = None if l0[1] == l[1] else 'later use: %r vs %r' % (l0[1], l[1])
            else:
                res[key] = same_behaviour(l0[1], l[1])
        res['post_done'] = True
    return res


def pythonize(x, key=None):
    """canonical form -> what Python code can consume again (surface indices as ints)"""
    if isinstance(x, dict):
        return {k: pythonize(v, k) for k, v in x.items()}
    if isinstance(x, list):
        return [pythonize(v) for v in x]
    if isinstance(x, float) and key in INDEX_KEYS + ('max_iter',) and x == int(x):
        return int(x)
    return x


OPTIONAL_KEYS = {'x', 'y', 'z', 'rx', 'ry', 'rz', 'conic', 'tol', 'max_iter', 'coefficients', 'norm_x', 'norm_y',
                 'absorp', 'reference', 'robust_search', 'min_wavelength', 'max_wavelength', 'vx', 'vy',
                 'is_primary', 'unit', 'object_space_telecentric', 'scale', 'offset', 'version', 'filename'}


def drop_optional(x, rng, p=0.35, parent=None):
    """remove keys that every `from_dict` reads with `.get(key, default)` (or not at all)"""
    if isinstance(x, dict):
        out = {}
        for k, v in x.items():
            droppable = k in OPTIONAL_KEYS and not (k == 'filename' and x.get('type') != 'Material') \
                and not (k == 'object_space_telecentric' and 'fields' in x)
            if droppable and rng.random() < p:
                continue
            out[k] = drop_optional(v, rng, p, k)
        return out
    if isinstance(x, list):
        return [drop_optional(v, rng, p) for v in x]
    return x


def defaults_stream(d, seed):
    """from_dict of a dictionary with optional keys removed -> ('ok', dict with arrays kept) | ('error', name)"""
    from optiland.optic import Optic
    if any(isinstance(n, (Opaque, NdArray)) for _, n in walk(d)):
        return None
    dd = drop_optional(d, random.Random(seed))
    try:
        o = quiet(Optic.from_dict, pythonize(copy.deepcopy(dd)))
        return dd, ('ok', canon(o.to_dict(), keep_arrays=True))
    except Exception as e:  # noqa
        return dd, ('error', type(e).__name__)


def make(case):
    if 'sample' in case:
        return lensgen.build_case({'sample': case['sample']})
    return quiet(build, case['desc'])


def run_case_impl(case, tmpdir):
    """build, round trip, edit, round trip again -> list of result records"""
    out = []
    try:
        o = make(case)
    except Exception as e:  # noqa
        return [{'stage': 'build', 'build_error': type(e).__name__ + ': ' + str(e)}], None
    r0 = round_trip(o, case, tmpdir, 'fresh')
    if 'dict_arrays' in r0:
        r0['defaults'] = defaults_stream(r0['dict_arrays'], case['seed'])
    out.append(r0)
    if case.get('ops'):
        errs, etoks = [], []
        for op in case['ops']:
            op = tuple(op)
            try:
                tk = edit_tokens(o, op)
            except Exception:  # noqa
                tk = None
            e = apply_op(o, op)
            errs.append(e)
            if tk is None or (e is not None and op[0] in ('scale', 'opt')):
                etoks = None
            if etoks is not None:
                etoks += tk
        r = round_trip(o, case, tmpdir, 'edited', post=case.get('post'))
        r['op_errors'] = errs
        r['edit_tokens'] = etoks
        r['z_kinds'] = z_kinds(o)
        out.append(r)
    return out, o


# ------------------------------------------------------------------ encoding into the model's tree syntax
INDEX_KEYS = ('source_surface_idx', 'target_surface_idx', 'surface_idx')


def enc_str(s):
    return 'x' + s.encode('utf-8').hex()


def dec_str(t):
    return bytes.fromhex(t[1:]).decode('utf-8')


def enc_j(x, key=None):
    if x is None:
        return ['n']
    if isinstance(x, bool):
        return ['t' if x else 'f']
    if isinstance(x, float):
        if key in INDEX_KEYS:
            if x != int(x) or x < 0:
                raise ValueError('index')
            return ['i', str(int(x))]
        return ['d', fhex(x)]
    if isinstance(x, str):
        return ['s', enc_str(x)]
    if isinstance(x, list):
        out = ['a', str(len(x))]
        for v in x:
            out += enc_j(v)
        return out
    if isinstance(x, dict):
        out = ['o', str(len(x))]
        for k, v in x.items():
            out += [enc_str(k)] + enc_j(v, k)
        return out
    if isinstance(x, NdArray):
        if any(not isinstance(v, float) for v in x.values):
            raise ValueError('ndarray of rank > 1')
        return ['y', str(len(x.values))] + [fhex(v) for v in x.values]
    if isinstance(x, Opaque):
        if not isinstance(x.fields, dict):
            raise ValueError('opaque object without attributes')
        return ['p', enc_str(x.tag)] + enc_j(x.fields)
    raise ValueError('cannot encode %r' % type(x))


def dec_j(t):
    k = t.tok()
    if k == 'n':
        return None
    if k in 'tf':
        return k == 't'
    if k == 'd':
        return t.flt()
    if k == 'i':
        return float(t.nat())
    if k == 's':
        return dec_str(t.tok())
    if k == 'a':
        return [dec_j(t) for _ in range(t.nat())]
    if k == 'o':
        out = {}
        for _ in range(t.nat()):
            key = dec_str(t.tok())
            out[key] = dec_j(t)
        return out
    if k == 'y':
        return NdArray(t.floats())
    if k == 'p':
        tag = dec_str(t.tok())
        return Opaque(tag, dec_j(t))
    raise ValueError('token ' + k)


def walk(x, path=''):
    """(path, node) for every node"""
    yield path, x
    if isinstance(x, dict):
        for k, v in x.items():
            yield from walk(v, path + '/' + k)
    elif isinstance(x, list):
        for i, v in enumerate(x):
            yield from walk(v, '%s[%d]' % (path, i))
    elif isinstance(x, Opaque):
        yield from walk(x.fields, path + '<' + x.tag + '>')


def env_tokens(d):
    """the implementation's own answers to every `Material(...)` the dictionary asks for"""
    from optiland.materials import Material
    tbl = {}
    for _, node in walk(d):
        if isinstance(node, dict) and node.get('type') == 'Material' and isinstance(node.get('name'), str):
            name, ref = node['name'], node.get('reference')
            robust = node.get('robust_search', True)
            lo, hi = node.get('min_wavelength'), node.get('max_wavelength')
            key = '|'.join([enc_str(name), '-' if ref is None else enc_str(ref), '1' if robust else '0',
                            '-' if lo is None else fhex(lo), '-' if hi is None else fhex(hi)])
            if key in tbl:
                continue
            try:
                fn = quiet(Material, name, ref, robust, lo, hi).filename
                tbl[key] = ['ok', enc_str(fn)]
            except Exception:  # noqa
                tbl[key] = ['err']
    out = [str(len(tbl))]
    for k, v in tbl.items():
        out += [k] + v
    return out


def cmp_tree(ctx, what, impl, model, case):
    """leaf-wise comparison of two dictionary forms (numbers with the usual tolerance)"""
    li, lm = list(walk(impl)), list(walk(model))
    li = [(p, v) for p, v in li if not isinstance(v, (dict, list, Opaque))]
    lm = [(p, v) for p, v in lm if not isinstance(v, (dict, list, Opaque))]
    si, sm = sorted(p for p, _ in li), sorted(p for p, _ in lm)
    if si != sm:
        diff = sorted(set(si) ^ set(sm))[:4]
        ctx.disagreements.append({'what': what + ' (shape)', 'impl': diff, 'model': '', 'case': case})
        return False
    dm = dict(lm)
    ok = True
    for p, v in li:
        w = dm[p]
        if isinstance(v, float) and isinstance(w, float) and not isinstance(v, bool):
            if not ctx.cmp(what + p, v, w, case):
                ok = False
                break
        elif isinstance(v, NdArray) and isinstance(w, NdArray) and len(v.values) == len(w.values):
            for a, b in zip(v.values, w.values):
                if not ctx.cmp(what + p, a, b, case):
                    ok = False
        elif not _same(v, w):
            ctx.disagreements.append({'what': what + p, 'impl': repr(v), 'model': repr(w), 'case': case})
            ok = False
            break
    return ok


# ------------------------------------------------------------------ edit tokens for `serialrun`
def edit_tokens(o, op):
    """tokens of the model edits that correspond to one harness op, taken from the lens state *before* the op"""
    k = op[0]
    if k in ('rm', 'ins'):
        raise ValueError('edit of the surface list: outside the model')
    if k in ('sr', 'sc', 'st', 'si', 'tx', 'ty', 'ddx', 'ddy'):
        return [[k, fhex(op[1]), str(op[2])]]
    if k == 'pk':
        return [['pk', str(op[1]), op[2], str(op[3]), fhex(op[4]), fhex(op[5])]]
    if k == 'sv':
        return [['sv', str(op[1]), fhex(op[2]), fhex(0.0)]]
    if k == 'up':
        n = len(o.solves)
        return [['up', str(n)] + [fhex(0.0)] * n]
    if k == 'is':
        return [['is', fhex(0.0)]]
    if k == 'aw':
        return [['aw', fhex(op[1]), '1' if op[2] else '0']]
    if k == 'pol':
        return [['pol']]
    if k == 'scale':
        sg = o.surface_group
        out = []
        n = sg.num_surfaces
        radii = sg.radii
        th = [float(np.ravel(sg.get_thickness(i))[0]) for i in range(n - 1)]
        for i in range(n):
            if not np.isinf(radii[i]):
                out.append(['sr', fhex(float(radii[i]) * op[1]), str(i)])
            if i != n - 1 and not np.isinf(th[i]):
                out.append(['st', fhex(th[i] * op[1]), str(i)])
        return out
    if k == 'opt':
        out = []
        for vt, sn in op[1]:
            out.append([{'radius': 'sr', 'conic': 'sc', 'thickness': 'st'}[vt], fhex(1.0), str(sn)])
        n = len(o.solves)
        out.append(['up', str(n)] + [fhex(0.0)] * n)
        return out
    return []


def z_kinds(o):
    return ''.join('a' if isinstance(s.geometry.cs.z, np.ndarray) else 's' for s in o.surface_group.surfaces)


# ------------------------------------------------------------------ classification of failures (known findings)
def non_json_leaves(d):
    """(path, node, finding key) for every value json.dump rejects"""
    out = []
    for path, node in walk(d):
        if '<' in path.rsplit('/', 1)[0] and isinstance(node, (NdArray, Opaque)) and path.count('<') > (1 if isinstance(node, Opaque) else 0):
            continue     # inside an object already reported
        if isinstance(node, NdArray):
            if re_cs_z.search(path) and len(node.values) == 1:
                out.append((path, node, 'ndarray-cs-z'))
            elif path.endswith('/geometry/coefficients'):
                out.append((path, node, 'asphere-coefficients-ndarray'))
            else:
                out.append((path, node, None))
        elif isinstance(node, Opaque):
            if (path.endswith('/coating/material_pre') or path.endswith('/coating/material_post')) \
                    and node.tag in ('IdealMaterial', 'Material', 'AbbeMaterial', 'Mirror', 'MaterialFile'):
                out.append((path, node, 'fresnel-coating-objects'))
            elif path == '/wavelengths/polarization' and node.tag == 'PolarizationState':
                out.append((path, node, 'polarization-state-object'))
            else:
                out.append((path, node, None))
    return out


import re  # noqa
re_cs_z = re.compile(r'/geometry/cs(/reference_cs)*/z$')


def classify_load_error(msg, d):
    surfs = d.get('surface_group', {}).get('surfaces', [])
    if 'ImageSurface.__init__()' in msg and any(s.get('type') == 'ImageSurface' for s in surfs):
        return 'image-surface-from-dict'
    if "'NoneType' object is not iterable" in msg and d.get('aperture') is None:
        return 'no-aperture-from-dict'
    if "'Plane' object has no attribute 'k'" in msg:
        for p in d.get('pickups', []):
            i = int(p['source_surface_idx'])
            if p['attr_type'] == 'conic' and i < len(surfs) and surfs[i]['geometry']['type'] == 'Plane':
                return 'plane-conic-pickup'
    return None


def pickups_once_more(case):
    """dictionary form of the same lens after one more `pickups.apply()` (what a reload is expected to give if the
    only defect is that `PickupManager.from_dict` re-applies every pickup)"""
    o = make(case)
    for op in case.get('ops', []):
        apply_op(o, tuple(op))
    try:
        o.pickups.apply()
    except Exception:  # noqa
        return None
    return squeeze(canon(o.to_dict()))


def evaluate(ctx, case, recs):
    """the property's clauses on the result records of one case"""
    for r in recs:
        st = r['stage']
        cs = dict(case, stage=st)
        if 'build_error' in r:
            ctx.count('build_error')
            continue
        if 'to_dict_error' in r:
            ctx.fail('to_dict succeeds (%s lens)' % st, cs, r['to_dict_error'])
            continue
        d = r['dict']
        ctx.count('stage:' + st)
        # ---- serialisable
        leaves = non_json_leaves(r['dict_arrays'])
        if not r['json_ok']:
            ctx.count('not serialisable (%s)' % st)
            keys = sorted({k for _, _, k in leaves}, key=str)
            if not leaves:
                ctx.fail('lens is serialisable: json.dump(to_dict()) (%s lens)' % st, cs, r.get('json_error'))
            for k in keys:
                path = [p for p, _, kk in leaves if kk == k][0]
                ctx.fail('lens is serialisable: json.dump(to_dict()) (%s lens)' % st, cs,
                         {'error': r.get('json_error'), 'first offending value at': path}, 'JSON-able', finding_key=k)
            if 'save_error' not in r:
                ctx.fail('save_optiland_file agrees with json.dump', cs, 'saved although json.dumps failed')
        elif 'save_error' in r:
            ctx.fail('save_optiland_file succeeds (%s lens)' % st, cs, r['save_error'])
        # ---- reload in memory / from the file
        pk = None
        for which, errk, diffk, behk, dk in (('from_dict(to_dict())', 'from_dict_error', 'a_diff', 'c_mem', 'dict2'),
                                             ('load(save())', 'load_error', 'b_diff', 'c_file', 'dict3'),
                                             ('load(file with cs.z as numbers)', 'load2_error', 'b2_diff', 'c_file2',
                                              'dict4')):
            if errk in r:
                ctx.fail('%s succeeds (%s lens)' % (which, st), cs, r[errk], finding_key=classify_load_error(r[errk], d))
                continue
            if dk not in r:
                continue
            ctx.count('reloaded: ' + which)
            key = None
            if r.get(diffk) or r.get(behk):
                if d.get('pickups'):
                    if pk is None:
                        pk = pickups_once_more(case) if st == 'edited' else False
                    if pk and first_diff(pk, squeeze(r[dk])) is None:
                        key = 'pickups-reapplied-on-load'
            if r.get(diffk):
                ctx.fail('dictionary form of the reloaded lens equals the original: %s (%s lens)' % (which, st), cs,
                         r[diffk], finding_key=key)
            if r.get(behk):
                ctx.fail('reloaded lens traces identically / same paraxial values: %s (%s lens)' % (which, st), cs,
                         r[behk], finding_key=key)
            elif r.get('behaviour_ok'):
                ctx.count('behaviour compared: ' + which)
        if r.get('orig_changed'):
            ctx.fail('from_dict leaves the original lens unchanged (%s lens)' % st, cs, r['orig_changed'])
        if r.get('post_done'):
            ctx.count('later use compared (same edits + update() on the original and the reloaded lenses)')
            for which, k in (('from_dict(to_dict())', 'c_mem_post'), ('load(save())', 'c_file_post')):
                if r.get(k):
                    ctx.fail('reloaded lens behaves like the original under the same later edits and update(): %s'
                             % which, cs, r[k])


# ------------------------------------------------------------------ correspondence with the Lean model
def serial_line(d_arrays):
    return 'serial ' + ' '.join(env_tokens(d_arrays) + enc_j(d_arrays))


def parse_serial(out):
    """-> (jsonOk, code, spec) with code/spec = ('ok', tree) | ('error',) | ('outside',)"""
    t = Toks(out)
    if t.error:
        raise ValueError(out[:200])
    js = t.tok() == '1'
    res = []
    for _ in range(2):
        k = t.tok()
        res.append(('ok', dec_j(t)) if k == 'ok' else (k,))
        if not t.done():
            assert t.tok() == '|'
    return js, res[0], res[1]


def correspond(ctx, what, case, impl, out, json_ok=None):
    """impl = ('ok', dictionary with arrays kept) | ('error', name)"""
    try:
        js, code, spec = parse_serial(out)
    except Exception as e:  # noqa
        ctx.disagreements.append({'what': what + ': driver answer', 'model': out[:200], 'impl': str(e), 'case': case})
        return
    if json_ok is not None:
        ctx.bitexact[1] += 1
        if js == json_ok:
            ctx.bitexact[0] += 1
        else:
            ctx.disagreements.append({'what': what + ': jsonOk', 'impl': json_ok, 'model': js, 'case': case})
    if code[0] == 'outside':
        ctx.count('outside the model (reference frame under a thickness pickup)')
        return

    def agrees(m):
        if impl[0] == 'error' or m[0] != 'ok':
            return impl[0] == 'error' and m[0] == 'error'
        probe = Ctx.__new__(Ctx)
        probe.disagreements, probe.drift, probe.bitexact = [], [], [0, 0]
        return cmp_tree(probe, what, impl[1], m[1], case)

    if agrees(code):
        if impl[0] == 'ok':
            cmp_tree(ctx, what, impl[1], code[1], case)     # counts the values
        else:
            ctx.count('error class agrees: ' + what)
        return
    if agrees(spec):
        ctx.count('implementation agrees with the _spec model (defect repaired upstream): ' + what)
        return
    if impl[0] == 'ok' and code[0] == 'ok':
        cmp_tree(ctx, what, impl[1], code[1], case)
    else:
        ctx.disagreements.append({'what': what + ': from_dict outcome', 'impl': impl[0] if impl[0] == 'ok' else impl,
                                  'model': code[0], 'case': case})


def work(case):
    tmp = tempfile.mkdtemp(prefix='c19_')
    try:
        recs, _ = run_case_impl(case, tmp)
    finally:
        shutil.rmtree(tmp, ignore_errors=True)
    return recs


def gen_cases(ctx):
    out = []
    for name, _ in lensgen.sample_classes():
        out.append({'sample': name, 'ops': [], 'Hy': 1.0, 'nray': 12, 'seed': 7, 'wi': 0, 'features': ['sample']})
    n = 150 if ctx.quick() else 8000
    for _ in range(n - len(out)):
        out.append(gen_case(ctx.rng, ctx.quick()))
    return out


def run(tier, seed, replay=None):
    ctx = Ctx('C19', tier, seed)
    ctx.stats['rule'] = ('bundled samples + generated lenses (1-12 surfaces; plane/conic/even asphere/polynomial/Chebyshev; '
                         'tilts, decentres, reference frames; ideal/Abbe/catalogue/file media, mirrors; radial apertures; '
                         'simple and Fresnel coatings; scatter models; vignetting fields; wavelengths in several units; '
                         'EPD/imageFNO/objectNA; telecentric; polarization ignore/state; ImageSurface), each checked '
                         'fresh and after an edit history (set_radius/conic/thickness/index, tilts, pickups, solves, '
                         'update, image_solve, scale_system, short optimisation); distinct by descriptor hash; '
                         'non-trivial = the lens builds')
    aud = audit('C19')
    drv = Driver()
    cases = [replay] if replay else gen_cases(ctx)
    for c in cases:
        c.pop('stage', None)
    nproc = 1 if replay else min(4 if ctx.quick() else 8, os.cpu_count() or 1)
    if nproc > 1:
        import multiprocessing as mp
        with mp.get_context('fork').Pool(nproc) as pool:
            results = pool.map(work, cases, chunksize=8)
    else:
        results = [work(c) for c in cases]
    lines, owners = [], []
    for case, recs in zip(cases, results):
        built = 'build_error' not in recs[0]
        ctx.case({k: v for k, v in case.items() if k != 'features'}, nontrivial=built)
        for f in set(case.get('features', [])):
            ctx.count('feature:' + f)
        if not built:
            ctx.count('build_error')
            continue
        for op in case.get('ops', []):
            ctx.count('op:' + op[0])
        for s in recs[0].get('dict', {}).get('surface_group', {}).get('surfaces', []):
            ctx.count('geom:' + s['geometry']['type'])
            for m in ('material_pre', 'material_post'):
                if m in s:
                    ctx.count('medium:' + s[m]['type'])
        evaluate(ctx, case, recs)
        for r in recs:
            if 'dict_arrays' not in r:
                continue
            cs = dict(case, stage=r['stage'])
            if r['stage'] == 'edited' and any(op[0] in ('rm', 'ins') for op in case.get('ops', [])):
                # edits of the surface list lead to lens states the model's record does not describe (no stop
                # surface, neighbours with media that do not chain): the predicates on the real code stay hard
                ctx.count('reload edited: outside the model (surface list edited)')
                continue
            try:
                ln = serial_line(r['dict_arrays'])
            except Exception as e:  # noqa
                ctx.count('encode_error:' + str(e)[:40])
                continue
            impl = ('ok', r['dict2_arrays']) if 'dict2_arrays' in r else ('error', r.get('from_dict_error'))
            lines.append(ln)
            owners.append(('reload ' + r['stage'], cs, impl, r['json_ok']))
            if r.get('defaults'):
                dd, res = r['defaults']
                try:
                    lines.append(serial_line(dd))
                    owners.append(('defaults', cs, res, None))
                except Exception as e:  # noqa
                    ctx.count('encode_error:' + str(e)[:40])
            if r.get('edit_tokens') is not None and 'dict_arrays' in recs[0]:
                try:
                    base = env_tokens(recs[0]['dict_arrays']) + enc_j(recs[0]['dict_arrays'])
                    et = r['edit_tokens']
                    lines.append('serialrun ' + ' '.join(base + [str(len(et))] + [t for e in et for t in e]))
                    owners.append(('history', cs, (r['json_ok'], r['z_kinds'], non_json_leaves(r['dict_arrays'])), None))
                except Exception as e:  # noqa
                    ctx.count('encode_error:' + str(e)[:40])
    outs = drv.batch(lines)
    for (what, cs, impl, js), out in zip(owners, outs):
        if what == 'history':
            json_ok, kinds, leaves = impl
            t = out.split()
            if t[0] in ('error', 'outside'):
                ctx.count('history: outside the model (reference frame)' if t[0] == 'outside' else
                          'history: model could not parse the fresh lens')
                continue
            ctx.count('history compared')
            code, spec = [x.split() for x in out.split('|')]
            ctx.bitexact[1] += 2
            if code[1][1:] == kinds and (code[0] == '1') == json_ok:
                ctx.bitexact[0] += 2
            elif spec[1][1:] == kinds and ((spec[0] == '1') == json_ok or
                                           all(k in ('fresnel-coating-objects', 'polarization-state-object',
                                                     'asphere-coefficients-ndarray') for _, _, k in leaves)):
                # floats written back by set_thickness / the solves: the defect F-C19-1 has been repaired upstream
                ctx.count('history: implementation agrees with the _spec model (floats in cs.z)')
            else:
                ctx.disagreements.append({'what': 'representation of cs.z after the edit history (s = float, '
                                                  'a = ndarray) and json.dump outcome',
                                          'impl': [json_ok, kinds], 'model': out, 'case': cs})
        else:
            ctx.count('correspondence: ' + what.split()[0])
            if what == 'defaults':
                # soft observable: the property only speaks about dictionaries produced by to_dict; the defaults of
                # `.get(key, default)` matter for hand-written / older files.  Model drift, never a VIOLATION.
                n0 = len(ctx.disagreements)
                correspond(ctx, what, cs, impl, out, js)
                ctx.drift += ctx.disagreements[n0:]
                del ctx.disagreements[n0:]
            else:
                correspond(ctx, what, cs, impl, out, js)
    return finish(ctx, aud,
                  partial=['catalogue lookup (Material name -> file) is an oracle of the model (subject of C18)',
                           'ill-typed leaves (a string where a number is expected) are rejected by the model, stored '
                           'unchecked by the implementation',
                           'thickness pickups on lenses with reference frames: positions not modelled'],
                  assumptions=['json.dump/json.load round-trip Python floats exactly (repr round trip) and accept '
                               'Infinity (allow_nan default)',
                               'the same process, NumPy and numba builds evaluate the same float expressions identically'])
