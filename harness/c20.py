"""C20  Zemax import reproduces the prescription written in the file.

Correspondence (hard observables):
  * reader dictionary `ZemaxFileReader(path).data`  <->  `zread` of the Lean model run by the driver on the
    same decoded text lines (the harness decodes the file the way `_read_file` iterates it);
  * the `Optic` returned by `load_zemax_file(path)` (surface_group.radii / positions / conic, geometry.c,
    stop_index, media, aperture, fields, wavelengths, primary)  <->  `convert` of the model;
  * the generated text is, line for line, `printZmx p` and `zload` of it equals `expected p`
    (`C20.parse_print` evaluated at Float) for the canonically ordered files.
Property predicate (independent of the Lean model): the loaded `Optic` against the prescription the
generator wrote, media against the catalogue CSV / `AbbeMaterial(nd, Vd)`, paraxial f2 / EPL against the
C04 model evaluated on the written numbers; non-sequential files must raise."""
import os, re, math, tempfile, shutil, io, contextlib, codecs
import numpy as np
from .core import fhex, unhex, b01, Toks, Driver, Ctx, audit, finish, REPO, VERIF, close
from . import zmxgen, c04

INF = zmxgen.INF
HEX16 = re.compile(r'^[0-9a-f]{16}$')
FT_NAMES = ['angle', 'object_height', 'paraxial_image_height', 'real_image_height', 'theodolite_angle',
            'unsupported']
SCRATCH = os.path.join(VERIF, '.scratch')


# ------------------------------------------------------------------ implementation side
def quiet(fn, *a):
    with contextlib.redirect_stdout(io.StringIO()):
        return fn(*a)


def err_class(e):
    if isinstance(e, UnicodeError):
        return 'unicode'
    if isinstance(e, KeyError):
        return 'key'
    if isinstance(e, ValueError):
        return 'value'
    return 'other:' + type(e).__name__


def decoded_lines(path):
    """the text lines `_read_file` dispatches, in order (both encoding passes)"""
    lines = []
    for enc in ('utf-16', 'utf-8'):
        try:
            with open(path, 'r', encoding=enc) as fh:
                for line in fh:
                    lines.append(line)
        except UnicodeError:
            continue
    return lines


def hex_text(lines):
    text = '\n'.join(l[:-1] if l.endswith('\n') else l for l in lines)
    return text.encode('utf-8').hex() if text else '-'


def fnum(v):
    return float(np.ravel(v)[0])


def canon_impl_dict(data):
    from optiland.materials import BaseMaterial, Material
    d = {}
    d['ap'] = [(k, None if v is True else float(v)) for k, v in data['aperture'].items()]
    d['gcat'] = list(data['glass_catalogs']) if 'glass_catalogs' in data else None
    f = data['fields']
    d['ft'] = FT_NAMES.index(f['type']) if 'type' in f else None
    d['tele'] = f.get('object_space_telecentric')
    d['nf'] = f.get('num_fields')
    w = data['wavelengths']
    d['nw'] = w.get('num_wavelengths')
    d['fields'] = sorted(((float(x), float(y)) for x, y in zip(f['x'], f['y'])), key=lambda q: (q[1], q[0]))
    d['waves'] = [float(v) for v in w['data']]
    d['pw'] = w.get('primary_index')
    surfs = []
    for idx in sorted(data['surfaces']):
        s = data['surfaces'][idx]
        m = s.get('material')
        if isinstance(m, str):
            mat = ('air',) if m == 'air' else ('name', m)
        elif isinstance(m, BaseMaterial):
            mat = ('glas', m.name if isinstance(m, Material) else None, float(s['index']), float(s['abbe']))
        else:
            mat = ('?', repr(m))
        surfs.append({'type': {'standard': 0, 'even_asphere': 1}.get(s.get('type'), 2), 'stop': bool(s.get('is_stop')),
                      'radius': float(s['radius']) if 'radius' in s else None,
                      'thick': float(s['thickness']) if 'thickness' in s else None,
                      'conic': float(s.get('conic')), 'mat': mat,
                      'parms': {int(k[6:]): float(v) for k, v in s.items() if k.startswith('param_')}})
    d['surfs'] = surfs
    return d


def observe(optic):
    """the property's observation points on the loaded lens"""
    from optiland.materials import Material, AbbeMaterial, IdealMaterial
    from optiland.geometries import EvenAsphere
    sg = optic.surface_group
    o = {'n': sg.num_surfaces, 'radii': [fnum(v) for v in sg.radii], 'pos': [fnum(v) for v in sg.positions],
         'conic': [fnum(v) for v in sg.conic], 'stop': sg.stop_index}
    o['asph'] = [isinstance(s.geometry, EvenAsphere) for s in sg.surfaces]
    o['coeffs'] = [[float(c) for c in s.geometry.c] if isinstance(s.geometry, EvenAsphere) else None
                   for s in sg.surfaces]
    mats = []
    for s in sg.surfaces:
        m = s.material_post
        if isinstance(m, Material):
            mats.append(('cat', m.name, m.material_data['filename']))
        elif isinstance(m, AbbeMaterial):
            mats.append(('abbe', float(m.index), float(m.abbe)))
        elif isinstance(m, IdealMaterial):
            mats.append(('ideal', fnum(m.n(0.55)), fnum(m.k(0.55))))
        else:
            mats.append(('other', type(m).__name__))
    o['mat'] = mats
    o['reflective'] = [bool(s.is_reflective) for s in sg.surfaces]
    o['ap'] = (optic.aperture.ap_type, float(optic.aperture.value)) if optic.aperture is not None else None
    o['ft'] = optic.field_type
    o['fields'] = [(float(f.x), float(f.y)) for f in optic.fields.fields]
    o['waves'] = [float(v) for v in optic.wavelengths.get_wavelengths()]
    o['primary'] = optic.wavelengths.primary_index
    return o


# ------------------------------------------------------------------ model side (driver output)
class TL:
    def __init__(self, toks):
        self.t, self.i = toks, 0

    def tok(self):
        v = self.t[self.i]
        self.i += 1
        return v

    def expect(self, w):
        v = self.tok()
        if v != w:
            raise ValueError('driver output: expected %s got %s at %d' % (w, v, self.i))

    def nat(self):
        return int(self.tok())

    def flt(self):
        return unhex(self.tok())

    def optflt(self):
        v = self.tok()
        return None if v == '-' else unhex(v)

    def optint(self):
        v = self.tok()
        return None if v == '-' else int(v)


def parse_model(out):
    t = TL(out.split())
    head = t.tok()
    if head == 'U':
        return {'unmodelled': True}
    if head == 'E':
        return {'read_error': t.tok()}
    if head != 'R':
        raise ValueError('driver: ' + out[:200])
    d = {}
    t.expect('ap')
    d['ap'] = [(t.tok(), t.optflt()) for _ in range(t.nat())]
    t.expect('gcat')
    v = t.tok()
    d['gcat'] = None if v == '-' else [t.tok() for _ in range(int(v))]
    t.expect('ft')
    ft = t.optint()
    d['ft'] = None if ft is None else min(ft, 5)
    v = t.tok()
    d['tele'] = None if v == '-' else v == '1'
    d['nf'] = t.optint()
    d['nw'] = t.optint()
    t.expect('fields')
    d['fields'] = sorted(((t.flt(), t.flt()) for _ in range(t.nat())), key=lambda q: (q[1], q[0]))
    t.expect('waves')
    d['waves'] = [t.flt() for _ in range(t.nat())]
    t.expect('pw')
    d['pw'] = t.optint()
    def zsurf():
        s = {'type': t.nat(), 'stop': t.tok() == '1', 'radius': t.optflt(), 'thick': t.optflt(), 'conic': t.flt()}
        k = t.tok()
        if k == 'air':
            s['mat'] = ('air',)
        elif k == 'name':
            s['mat'] = ('name', t.tok())
        else:
            s['mat'] = ('glas', t.tok(), t.flt(), t.flt())
        parms = {}
        for _ in range(t.nat()):
            key = int(t.tok())
            parms[key] = t.flt()
        s['parms'] = parms
        return s

    def osurf():
        s = {'asph': t.tok() == '1', 'radius': t.flt(), 'thick': t.flt(), 'conic': t.flt(), 'stop': t.tok() == '1'}
        k = t.tok()
        if k in ('air', 'mirror'):
            s['med'] = (k,)
        elif k == 'cat':
            s['med'] = ('cat', t.tok(), t.tok())
        else:
            s['med'] = ('abbe', t.flt(), t.flt())
        v = t.tok()
        s['coeffs'] = None if v == '-' else [t.flt() for _ in range(int(v))]
        return s
    t.expect('surfs')
    d['surfs'] = [zsurf() for _ in range(t.nat())]
    res = {'dict': d}
    t.expect('L')
    res['last'] = None if t.tok() == '-' else zsurf()
    t.expect('C')
    k = t.tok()
    if k == 'E':
        res['conv_error'] = t.tok()
        return res
    c = {}
    t.expect('surfs')
    c['surfs'] = [osurf() for _ in range(t.nat())]
    t.expect('stop')
    c['stop'] = t.optint()
    t.expect('pos')
    c['pos'] = [t.flt() for _ in range(t.nat())]
    t.expect('ap')
    c['ap'] = (t.tok(), t.flt())
    t.expect('ft')
    c['ft'] = t.nat()
    t.expect('fields')
    c['fields'] = [(t.flt(), t.flt()) for _ in range(t.nat())]
    t.expect('waves')
    c['waves'] = [t.flt() for _ in range(t.nat())]
    t.expect('prim')
    c['primary'] = t.optint()
    t.expect('I')
    c['image'] = None if t.tok() == '-' else osurf()
    res['conv'] = c
    return res


def cmp_struct(ctx, what, a, b, case):
    """a = implementation, b = model; floats through ctx.cmp, everything else by equality"""
    if isinstance(a, float) and isinstance(b, float):
        return ctx.cmp(what, a, b, case)
    if isinstance(a, dict) and isinstance(b, dict):
        if sorted(a) != sorted(b):
            ctx.disagreements.append({'what': what + ' (keys)', 'impl': sorted(a), 'model': sorted(b), 'case': case})
            return False
        return all([cmp_struct(ctx, '%s.%s' % (what, k), a[k], b[k], case) for k in sorted(a)])
    if isinstance(a, (list, tuple)) and isinstance(b, (list, tuple)):
        if len(a) != len(b):
            ctx.disagreements.append({'what': what + ' (length)', 'impl': len(a), 'model': len(b), 'case': case})
            return False
        return all([cmp_struct(ctx, '%s[%d]' % (what, i), x, y, case) for i, (x, y) in enumerate(zip(a, b))])
    if a != b:
        ctx.disagreements.append({'what': what, 'impl': repr(a), 'model': repr(b), 'case': case})
        return False
    return True


def with_variants(ctx, fn):
    """run the comparison `fn(variant)` for the `_code` variant of the model and, if that disagrees,
    for the `_spec` variant of finding F-C20-1 (image block kept); agreement with either is accepted"""
    saved, nb = list(ctx.disagreements), list(ctx.bitexact)
    if fn('code'):
        return True
    code_dis, code_nb = ctx.disagreements, list(ctx.bitexact)
    ctx.disagreements, ctx.bitexact = list(saved), list(nb)
    if fn('spec'):
        ctx.count('agrees with the _spec variant of F-C20-1 (image block kept)')
        return True
    ctx.disagreements, ctx.bitexact = code_dis, code_nb
    return False


def compare_dict(ctx, impl, model, case, last=None):
    impl = dict(impl)
    model = dict(model)
    if last is not None:
        model['surfs'] = list(model['surfs']) + [last]
    # the AbbeMaterial object no longer knows the name written in the file
    ms = []
    for si, sm in zip(impl['surfs'], model['surfs']):
        sm = dict(sm)
        if si['mat'][0] == 'glas' and sm['mat'][0] == 'glas' and si['mat'][1] is None:
            sm['mat'] = ('glas', None) + tuple(sm['mat'][2:])
        ms.append(sm)
    if len(ms) == len(model['surfs']):
        model['surfs'] = ms
    return cmp_struct(ctx, 'reader', impl, model, case)


def compare_optic(ctx, obs, conv, case, variant='code'):
    """loaded Optic <-> model `convert` (`spec`: the image surface carries the written block)"""
    ok = True
    n = len(conv['surfs'])
    img = conv.get('image') if variant == 'spec' else None
    if variant == 'spec' and img is None:
        return False
    if obs['n'] != n + 1:
        ctx.disagreements.append({'what': 'optic.surface count', 'impl': obs['n'], 'model': n + 1, 'case': case})
        return False
    for i, s in enumerate(conv['surfs']):
        ok &= ctx.cmp('optic.radius[%d]' % i, obs['radii'][i], s['radius'], case)
        plane = math.isinf(s['radius']) and not s['asph']
        if not plane:
            ok &= ctx.cmp('optic.conic[%d]' % i, obs['conic'][i], s['conic'], case)
        ok &= cmp_struct(ctx, 'optic.asph[%d]' % i, obs['asph'][i], s['asph'], case)
        ok &= cmp_struct(ctx, 'optic.coeffs[%d]' % i, obs['coeffs'][i], s['coeffs'], case)
        m, o = s['med'], obs['mat'][i]
        if m[0] == 'air':
            good = o[0] == 'ideal' and o[1] == 1.0 and o[2] == 0.0
        elif m[0] == 'cat':
            good = o[0] == 'cat' and o[1] == m[1]
        elif m[0] == 'abbe':
            good = o[0] == 'abbe' and ctx.cmp('optic.nd[%d]' % i, o[1], m[1], case) and \
                ctx.cmp('optic.vd[%d]' % i, o[2], m[2], case)
        else:
            good = False
        if not good:
            ctx.disagreements.append({'what': 'optic.medium[%d]' % i, 'impl': repr(o), 'model': repr(m), 'case': case})
            ok = False
    if img is None:
        ok &= ctx.cmp('optic.radius[image]', obs['radii'][n], math.inf, case)
    else:
        ok &= ctx.cmp('optic.radius[image]', obs['radii'][n], img['radius'], case)
        if not math.isinf(img['radius']):
            ok &= ctx.cmp('optic.conic[image]', obs['conic'][n], img['conic'], case)
    ok &= cmp_struct(ctx, 'optic.positions', obs['pos'], conv['pos'], case)
    ok &= cmp_struct(ctx, 'optic.stop_index', obs['stop'], conv['stop'], case)
    ok &= cmp_struct(ctx, 'optic.aperture', obs['ap'], conv['ap'], case)
    ok &= cmp_struct(ctx, 'optic.field_type', obs['ft'], FT_NAMES[min(conv['ft'], 5)], case)
    key = lambda q: (q[1], q[0])  # noqa
    ok &= cmp_struct(ctx, 'optic.fields', sorted(obs['fields'], key=key), sorted(conv['fields'], key=key), case)
    ok &= cmp_struct(ctx, 'optic.wavelengths', obs['waves'], conv['waves'], case)
    ok &= cmp_struct(ctx, 'optic.primary_index', obs['primary'], conv['primary'], case)
    return ok


# ------------------------------------------------------------------ independent specification
def spec_from_text(text):
    """what a sequential .zmx text says, read declaratively (one regular expression per datum);
    used for the bundled files and as a self-check of the generator"""
    def num(s):
        return INF if s == 'INFINITY' else float(s)
    parts = re.split(r'(?m)^[ \t]*SURF\b.*$', text)
    head, blocks = parts[0], parts[1:]
    p = {}
    m = re.search(r'(?m)^[ \t]*GCAT[ \t]+(.*)$', head)
    p['gcat'] = m.group(1).split() if m else None
    for kw, key in (('ENPD', 'EPD'), ('FNUM', 'imageFNO'), ('OBNA', 'objectNA')):
        m = re.search(r'(?m)^[ \t]*%s[ \t]+(\S+)' % kw, head)
        if m:
            p['ap'] = [key, float(m.group(1))]
    m = re.search(r'(?m)^[ \t]*FTYP[ \t]+(\d+)[ \t]+(\d+)[ \t]+(\d+)[ \t]+(\d+)', head)
    ft, tele, nf, nw = [int(v) for v in m.groups()]
    p['field_type'] = FT_NAMES[ft]
    p['tele'] = tele == 1
    xs = re.search(r'(?m)^[ \t]*XFLN[ \t]+(.*)$', head).group(1).split()[:nf]
    ys = re.search(r'(?m)^[ \t]*YFLN[ \t]+(.*)$', head).group(1).split()[:nf]
    p['fields'] = [[float(x), float(y)] for x, y in zip(xs, ys)]
    wv = re.findall(r'(?m)^[ \t]*WAVM[ \t]+(\d+)[ \t]+(\S+)', head)
    p['waves'] = [float(v) for i, v in sorted(wv, key=lambda q: int(q[0])) if int(i) <= nw]
    p['primary'] = int(re.search(r'(?m)^[ \t]*PWAV[ \t]+(\d+)', head).group(1)) - 1
    surfs = []
    for b in blocks:
        s = {}
        m = re.search(r'(?m)^[ \t]*TYPE[ \t]+(\S+)', b)
        s['type'] = {'STANDARD': 'standard', 'EVENASPH': 'even_asphere'}[m.group(1)] if m else 'standard'
        s['stop'] = re.search(r'(?m)^[ \t]*STOP\b', b) is not None
        s['curv'] = float(re.search(r'(?m)^[ \t]*CURV[ \t]+(\S+)', b).group(1))
        s['thick'] = num(re.search(r'(?m)^[ \t]*DISZ[ \t]+(\S+)', b).group(1))
        m = re.search(r'(?m)^[ \t]*CONI[ \t]+(\S+)', b)
        s['conic'] = float(m.group(1)) if m else None
        m = re.search(r'(?m)^[ \t]*GLAS[ \t]+(\S+)(?:[ \t]+\S+[ \t]+\S+[ \t]+(\S+)[ \t]+(\S+))?', b)
        if m:
            s['glass'] = {'name': m.group(1), 'nd': float(m.group(2)) if m.group(2) else None,
                          'vd': float(m.group(3)) if m.group(3) else None}
        else:
            s['glass'] = None
        pm = {int(k): float(v) for k, v in re.findall(r'(?m)^[ \t]*PARM[ \t]+(\d+)[ \t]+(\S+)', b)}
        s['coeffs'] = [pm[k] for k in range(1, 9)] if s['type'] == 'even_asphere' else []
        surfs.append(s)
    p['surfaces'] = surfs
    return p


def same_presc(a, b):
    def strip(p):
        q = dict(p)
        q['surfaces'] = [dict(s, glass=(None if s['glass'] is None else
                                        {k: s['glass'][k] for k in ('name', 'nd', 'vd')})) for s in p['surfaces']]
        q['fields'] = [list(f) for f in p['fields']]
        q['ap'] = list(p['ap'])
        return q
    import json
    return json.dumps(strip(a), sort_keys=True) == json.dumps(strip(b), sort_keys=True)


def eq(a, b, rtol=1e-12):
    return close(a, b, rtol=rtol, atol=0.0)


def expected_positions(p):
    ts = [math.inf if s['thick'] == INF else s['thick'] for s in p['surfaces'][:-1]]
    pos = [-ts[0]]
    z = 0.0
    for t in ts[1:]:
        pos.append(z)
        z = z + t
    pos.append(z)
    return pos


def spec_index(cat, g, obs_mat, w):
    """refractive index the written medium has at wavelength w (None if it cannot be told)"""
    from optiland.materials import AbbeMaterial, MaterialFile
    if g is None:
        return 1.0
    files = cat.exact_files(g['name'])
    if files:
        if obs_mat[0] == 'cat' and obs_mat[2] in files:
            return fnum(MaterialFile(os.path.join(REPO, 'database', 'data-nk', obs_mat[2])).n(w))
        return None
    return fnum(AbbeMaterial(g['nd'], g['vd']).n(w))


def predicate(ctx, cat, p, obs, optic, case, want_parax):
    """the property's clauses on the loaded lens against the written prescription; returns the
    paraxial command line (or None)"""
    from optiland.materials import AbbeMaterial
    S = p['surfaces']
    if obs['n'] != len(S):
        ctx.fail('surface count equals the number of SURF blocks', case, obs['n'], len(S))
        return None
    n = len(S)
    for i, s in enumerate(S):
        last = i == n - 1
        R = math.inf if s['curv'] == 0 else 1.0 / s['curv']
        if not eq(obs['radii'][i], R):
            key = 'image-surface-dropped' if (last and math.isinf(obs['radii'][i])) else None
            ctx.fail('radius of surface %d equals 1/CURV' % i, case, obs['radii'][i], R, finding_key=key)
            if key is None:
                return None
            continue
        asph = s['type'] == 'even_asphere'
        if obs['asph'][i] != asph:
            ctx.fail('surface %d has the written type' % i, case, obs['asph'][i], asph)
            return None
        if (s['curv'] != 0 or asph) and not last:
            k = 0.0 if s['conic'] is None else s['conic']
            if not eq(obs['conic'][i], k):
                ctx.fail('conic of surface %d equals CONI' % i, case, obs['conic'][i], k)
                return None
        if asph:
            c = obs['coeffs'][i]
            if len(c) != 8 or not all(eq(a, b) for a, b in zip(c, s['coeffs'])):
                ctx.fail('aspheric coefficients of surface %d equal PARM 1..8' % i, case, c, s['coeffs'])
                return None
    pos = expected_positions(p)
    if not all(eq(a, b) for a, b in zip(obs['pos'], pos)):
        ctx.fail('vertex positions equal the running sum of DISZ', case, obs['pos'], pos)
        return None
    stops = [i for i, s in enumerate(S[:-1]) if s['stop'] and i >= 1]
    if len(stops) == 1 and obs['stop'] != stops[0]:
        ctx.fail('stop surface is the one flagged STOP', case, obs['stop'], stops[0])
        return None
    # media
    for i, s in enumerate(S[:-1]):
        g, o = s['glass'], obs['mat'][i]
        if g is None:
            good = o[0] == 'ideal' and o[1] == 1.0 and o[2] == 0.0
            exp = 'air'
            key = None
        else:
            files = cat.exact_files(g['name'])
            key = None
            if files:
                good = o[0] == 'cat' and o[2] in files
                exp = ('catalogue glass', g['name'], sorted(files)[:3])
                if not good and (set(g['name']) & zmxgen.META) and g['nd'] is not None and \
                        o == ('abbe', float(g['nd']), float(g['vd'])):
                    key = 'catalogue-name-with-regex-characters'
            else:
                good = o[0] == 'abbe' and eq(o[1], g['nd']) and eq(o[2], g['vd'])
                exp = ('model glass', g['nd'], g['vd'])
                if good:
                    m = optic.surface_group.surfaces[i].material_post
                    ref = AbbeMaterial(g['nd'], g['vd'])
                    for w in p['waves']:
                        if not eq(fnum(m.n(w)), fnum(ref.n(w)), 1e-12):
                            good = False
                            exp = ('n(%r) of AbbeMaterial(nd,Vd)' % w, fnum(ref.n(w)))
                            o = fnum(m.n(w))
        if not good:
            ctx.fail('medium after surface %d is the written one' % i, case, o, exp, finding_key=key)
            if key is None:
                return None
    if obs['mat'][n - 1][:2] != ('ideal', 1.0):
        ctx.fail('image space medium', case, obs['mat'][n - 1], 'air')
        return None
    if obs['ap'] is None or obs['ap'][0] != p['ap'][0] or not eq(obs['ap'][1], p['ap'][1]):
        ctx.fail('aperture type and value', case, obs['ap'], p['ap'])
        return None
    if obs['ft'] != p['field_type']:
        ctx.fail('field type', case, obs['ft'], p['field_type'])
        return None
    want = sorted(set((float(x), float(y)) for x, y in p['fields']), key=lambda q: (q[1], q[0]))
    got = sorted(obs['fields'], key=lambda q: (q[1], q[0]))
    if got != want:
        ctx.fail('field points are the written set', case, got, want)
        return None
    ys = [f[1] for f in obs['fields']]
    if any(a > b for a, b in zip(ys, ys[1:])):
        ctx.fail('field points are ordered by y', case, obs['fields'], want)
        return None
    if obs['waves'] != [float(w) for w in p['waves']]:
        ctx.fail('wavelengths are the first num_wavelengths written', case, obs['waves'], p['waves'])
        return None
    if obs['primary'] != p['primary']:
        ctx.fail('primary wavelength index is PWAV-1', case, obs['primary'], p['primary'])
        return None
    if not want_parax:
        return None
    # paraxial data computed from the written numbers (C04 model)
    w = float(p['waves'][p['primary']])
    try:
        ns = [spec_index(cat, s['glass'], obs['mat'][i], w) for i, s in enumerate(S[:-1])] + [1.0]
    except Exception:
        ctx.count('parax: index unavailable')
        return None
    if any(v is None for v in ns):
        return None
    toks = [p['ap'][0], fhex(p['ap'][1]), 'angle' if p['field_type'] == 'angle' else 'object_height',
            fhex(max(f[1] for f in p['fields'])), b01(S[0]['thick'] == INF), str(n)]
    for i, s in enumerate(S):
        R = math.inf if (s['curv'] == 0 or (i == n - 1 and math.isinf(obs['radii'][i]))) else 1.0 / s['curv']
        n1 = ns[0] if i == 0 else ns[i - 1]
        toks += ['o' if i == 0 else 's', fhex(0.0), fhex(pos[i]), fhex(R), fhex(n1), fhex(ns[i]), '0',
                 b01(bool(stops) and i == stops[-1])]
    return 'paraxall ' + ' '.join(toks)


# ------------------------------------------------------------------ driver command lines
def known_tokens(names):
    names = sorted(set(names))
    return [str(len(names))] + names


def presc_tokens(p, pads):
    t = ['-'] if p['gcat'] is None else [str(len(p['gcat']))] + list(p['gcat'])
    t += [{'EPD': 'epd', 'imageFNO': 'fno', 'objectNA': 'na'}[p['ap'][0]], fhex(p['ap'][1]),
          str(FT_NAMES.index(p['field_type'])), b01(p['tele'])]
    t += [str(len(p['fields']))] + [fhex(v) for f in p['fields'] for v in f]
    for key in ('x', 'y'):
        t += [str(len(pads[key]))] + [fhex(v) for v in pads[key]]
    t += [str(len(p['waves']))] + [fhex(v) for v in p['waves']]
    t += [str(len(pads['w']))] + [fhex(v) for v in pads['w']]
    t += [str(p['primary']), str(len(p['surfaces']))]
    for s in p['surfaces']:
        t += [b01(s['type'] == 'even_asphere'), b01(s['stop']), fhex(s['curv']),
              'inf' if s['thick'] == INF else fhex(s['thick']), '-' if s['conic'] is None else fhex(s['conic'])]
        g = s['glass']
        t += ['-'] if g is None else [g['name'], fhex(g['nd']), fhex(g['vd'])]
        t += [str(len(s['coeffs']))] + [fhex(c) for c in s['coeffs']]
    return t


def glass_names(lines):
    out = []
    for l in lines:
        d = l.split()
        if len(d) >= 2 and d[0] == 'GLAS':
            out.append(d[1])
    return out


def oracle(cat, names):
    """`known name` for the model: the catalogue has a glass of exactly that name; for names the
    lookup treats as regular expressions (and for names outside known / unknown) ask the lookup itself"""
    from optiland.materials import Material
    known = []
    for nm in set(names):
        if re.match(r'^[A-Za-z0-9\-]+$', nm) and (cat.exact_files(nm) or not cat.substring_hit(nm)):
            if cat.exact_files(nm):
                known.append(nm)
        else:
            try:
                quiet(Material, nm)
                known.append(nm)
            except Exception:
                pass
    return known


# ------------------------------------------------------------------ cases
HARMLESS = ['XYZW 1 2 3', 'CURV', 'DISZ', 'CONI', 'PARM', 'PARM 2', 'WAVM 3', 'FNUM 4.0', 'OBNA 0.1', 'ENPD', 'TYPE',
            'MODE', 'PWAV', 'GLAS', 'FTYP 0 0', 'FNUM 3.0 7', 'FNUM abc 5', 'OBNA zz 3', '', '   ', '\t', 'surf 3',
            'Curv 0.5', 'STOPX', 'WAVL 0.5', 'XFLD 1 2 3', 'DIAM 1e 0', 'COMM CURV 0.1', '!CURV 0.3', 'NSCD 1 2']


def gen_cases(ctx, cat):
    rng = ctx.rng
    q = ctx.quick()
    n = 200 if q else 10000
    cases = [{'kind': 'bundled', 'file': 'lens1.zmx'}, {'kind': 'bundled', 'file': 'lens2.zmx'}]
    bases = []
    for i in range(n):
        p = zmxgen.gen_presc(rng, cat, catalog_rate=0.3 if q else 0.08, meta_rate=0.02 if q else 0.004,
                             curved_image=0.04, glass_rate=0.5 if q else 0.3, max_vendors=3 if q else 1)
        canonical = rng.random() < 0.5
        lines, pads = zmxgen.render(rng, p, canonical=canonical, noise=rng.random() < 0.85)
        enc = rng.choice(zmxgen.ENCODINGS)
        if enc == 'utf-8-sig' and not lines[0].startswith('VERS'):
            enc = 'utf-8'
        c = {'kind': 'wellformed', 'presc': p, 'pads': pads, 'canonical': canonical, 'lines': lines, 'encoding': enc,
             'newline': rng.choice(['\n', '\r\n'])}
        cases.append(c)
        if len(bases) < (40 if q else 600) and len(p['surfaces']) <= 12:
            bases.append(c)
    # malformed streams derived from well-formed ones
    for b in bases:
        lines = list(b['lines'])
        u = rng.random()
        c = dict(b)
        if u < 0.35:
            for _ in range(rng.randint(1, 12)):
                lines.insert(rng.randint(1, len(lines)), rng.choice(['', '  ']) + rng.choice(HARMLESS))
            c.update(kind='harmless-noise', canonical=False)
        elif u < 0.55:
            mode = rng.choice(['MODE NSC', 'MODE NSEQ', 'MODE seq', 'MODE MIXED 1'])
            if rng.random() < 0.5:
                lines = [mode if l.split()[:1] == ['MODE'] else l for l in lines]
            else:
                lines.insert(rng.randint(1, len(lines)), mode)
            c.update(kind='nonsequential')
        elif u < 0.75:
            idx = [i for i, l in enumerate(lines) if l.split()[:1] and l.split()[0] in
                   ('CURV', 'DISZ', 'CONI', 'PARM', 'WAVM', 'ENPD', 'FNUM', 'OBNA', 'PWAV', 'GLAS', 'FTYP')]
            i = rng.choice(idx)
            d = lines[i].split()
            pos = {'PARM': rng.choice([1, 2]), 'WAVM': 2, 'GLAS': rng.choice([4, 5]), 'FTYP': rng.choice([1, 2, 3, 4])}.get(d[0], 1)
            d[pos] = rng.choice(['abc', '1,5', '1.0.0', '--3', '1e', '0x10', '1.5D+01'])
            lines[i] = '  ' + ' '.join(d)
            c.update(kind='bad-number')
        else:
            v = rng.randrange(9)
            if v == 0:       # GLAS with the name only (known and unknown names)
                idx = [i for i, l in enumerate(lines) if l.split()[:1] == ['GLAS']]
                if idx:
                    i = rng.choice(idx)
                    nm = rng.choice([rng.choice(cat.pool), lines[i].split()[1]])
                    lines[i] = '  GLAS ' + nm + rng.choice(['', ' 1 0', ' 1 0 1.5'])
            elif v == 1:     # no PWAV
                lines = [l for l in lines if l.split()[:1] != ['PWAV']]
            elif v == 2:     # no aperture line
                lines = [l for l in lines if l.split()[:1] not in (['ENPD'], ['FNUM'], ['OBNA'])]
            elif v == 3:     # a surface without CURV / DISZ
                kw = rng.choice(['CURV', 'DISZ'])
                idx = [i for i, l in enumerate(lines) if l.split()[:1] == [kw]]
                del lines[rng.choice(idx[:-1] or idx)]
            elif v == 4:     # unsupported surface type / a missing PARM
                idx = [i for i, l in enumerate(lines) if l.split()[:1] == ['PARM']]
                if idx and rng.random() < 0.5:
                    del lines[rng.choice(idx)]
                else:
                    idx = [i for i, l in enumerate(lines) if l.split()[:1] == ['TYPE']]
                    idx = idx[:-1]      # not the image block: whether it is read at all is finding F-C20-1 (repaired)
                    if idx:
                        lines[rng.choice(idx)] = '  TYPE TOROIDAL'
            elif v == 5:     # unsupported aperture kinds
                i = [i for i, l in enumerate(lines) if l.split()[:1] in (['ENPD'], ['FNUM'], ['OBNA'])][0]
                lines[i] = rng.choice(['FLOA', 'FNUM 4.5 1', 'OBNA 0.1 1', 'FLOA 1\nENPD 5'])
                lines = '\n'.join(lines).split('\n')
            elif v == 6:     # FTYP with four tokens, or fields before FTYP
                i = [i for i, l in enumerate(lines) if l.split()[:1] == ['FTYP']][0]
                if rng.random() < 0.5:
                    lines[i] = ' '.join(lines[i].split()[:4])
                else:
                    j = [k for k, l in enumerate(lines) if l.split()[:1] == ['XFLN']][0]
                    lines[i], lines[j] = lines[j], lines[i]
            elif v == 7:     # PWAV 0, two STOP lines, STOP in the object block
                w = rng.randrange(3)
                if w == 0:
                    lines = ['PWAV 0' if l.split()[:1] == ['PWAV'] else l for l in lines]
                else:
                    idx = [i for i, l in enumerate(lines) if l.split()[:1] == ['SURF']]
                    lines.insert((idx[0] if w == 1 else rng.choice(idx[:-1])) + 1, '  STOP')
            else:            # repeated aperture / field / wavelength lines
                kw = rng.choice(['ENPD', 'FNUM', 'OBNA', 'XFLN', 'PWAV', 'FTYP'])
                idx = [i for i, l in enumerate(lines) if l.split()[:1] == [kw]]
                extra = {'ENPD': 'ENPD 3.25', 'FNUM': 'FNUM 7 0', 'OBNA': 'OBNA 0.07 0', 'XFLN': 'XFLN 1 2 3',
                         'PWAV': 'PWAV 1', 'FTYP': 'FTYP 1 0 1 1 0 0 0'}[kw]
                lines.insert(rng.randint(1, len(lines)), extra)
            c.update(kind='variant-%d' % v)
        c['lines'] = lines
        cases.append(c)
    return cases


def number_syntax_check(ctx, drv):
    """Python `float(token)` <-> the lexer's decimal reader (`pyFloat?`), bit for bit, on random number
    texts in every syntax the generator uses plus exact ties, subnormals and rejected spellings"""
    from fractions import Fraction
    rng = ctx.rng
    n = 3000 if ctx.quick() else 60000
    toks = []
    special = ['inf', '-inf', 'Infinity', 'nan', '1_000.5', '1__0', '_1', '1_', '.5', '5.', '.', 'e5', '1e', '1e+',
               '1.5e3', '1E-3', '0x10', '--1', '1.2.3', '1e5.0', '0', '-0', '-0.0', '00012.500', '1e400', '-1e400',
               '1e-400', '4.9e-324', '2.2250738585072011e-308', '1.7976931348623157e308', '1.7976931348623159e308',
               '9007199254740993', '9007199254740992.5', '0.1', '1e23', '8.41e21', '2.4703282292062327e-324',
               '2.4703282292062328e-324', '1,5', '1.5D+01', 'INFINITY', '+.5e-3']
    for _ in range(n):
        u = rng.random()
        if u < 0.5:
            toks.append(zmxgen.fmt(rng, zmxgen.rnd_value(rng, -1, 1) * 10.0 ** rng.randint(-20, 20)))
        elif u < 0.7:
            toks.append('%.*E' % (rng.randint(0, 20), rng.uniform(-1, 1) * 10.0 ** rng.randint(-320, 308)))
        elif u < 0.85:
            m = rng.getrandbits(53) | (1 << 52)
            v = Fraction(2 * m + 1, 2) * Fraction(2) ** rng.randint(-1130, 900)      # exactly between two doubles
            k2 = v.denominator.bit_length() - 1
            toks.append('%dE-%d' % (v.numerator * 5 ** k2, k2))
        elif u < 0.95:
            toks.append(rng.choice(special))
        else:
            toks.append(''.join(rng.choice('0123456789.eE+-_') for _ in range(rng.randint(1, 8))))
    outs = drv.batch(['zmxnum ' + ' '.join(toks[i:i + 100]) for i in range(0, len(toks), 100)])
    res = [o for l in outs for o in l.split()]
    if len(res) != len(toks):
        ctx.disagreements.append({'what': 'zmxnum answer count', 'impl': len(toks), 'model': len(res), 'case': None})
        return
    for t, r in zip(toks, res):
        try:
            x = float(t)
        except ValueError:
            x = None
        ctx.count('number texts compared with float()')
        if x is None or r == 'bad':
            if not (x is None and r == 'bad'):
                ctx.disagreements.append({'what': 'float() accepts / lexer rejects (or the reverse)', 'impl': repr(x),
                                          'model': r, 'case': {'token': t}})
        else:
            ctx.bitexact[1] += 1
            if fhex(x) == r or (x != x and unhex(r) != unhex(r)):
                ctx.bitexact[0] += 1
            else:
                ctx.disagreements.append({'what': 'float(token) differs from the lexer', 'impl': fhex(x), 'model': r,
                                          'case': {'token': t}})


def case_summary(c):
    if c['kind'] == 'bundled':
        return c
    p = c.get('presc')
    return {'kind': c['kind'], 'encoding': c['encoding'], 'newline': c['newline'], 'canonical': c.get('canonical'),
            'nsurf': len(p['surfaces']) - 2, 'ap': p['ap'], 'field_type': p['field_type'], 'fields': p['fields'],
            'waves': p['waves'], 'primary': p['primary'],
            'surfaces': [[s['type'][0], s['curv'], s['thick'], s['conic'], s['glass'] and s['glass']['name']]
                         for s in p['surfaces']]}


def run(tier, seed, replay=None):
    ctx = Ctx('C20', tier, seed)
    ctx.stats['rule'] = ('random well-formed sequential .zmx texts (1-30 surfaces STANDARD/EVENASPH, zero curvature, '
                         'finite/INFINITY thickness, ENPD/FNUM/OBNA, angle/object-height fields incl. repeated and '
                         'unsorted points, 1-12 wavelengths, any primary, padded XFLN/YFLN/WAVM slots, catalogue and '
                         'model glasses, foreign keywords, 4 number syntaxes, UTF-8 / UTF-8-BOM / UTF-16-LE / '
                         'UTF-16-BE, LF / CRLF) + malformed variants + the two bundled files; a case is non-trivial '
                         'when the file is dispatched by the model; distinct by descriptor hash')
    aud = audit('C20')
    drv = Driver()
    cat = zmxgen.Catalogue(REPO)
    from optiland.fileio import load_zemax_file, ZemaxFileReader
    cases = [replay] if replay else gen_cases(ctx, cat)
    os.makedirs(SCRATCH, exist_ok=True)
    tmp = tempfile.mkdtemp(prefix='c20_', dir=SCRATCH)
    dict_every = 1 if (ctx.quick() or replay) else 4
    if not replay:
        number_syntax_check(ctx, drv)
    work, lines_out = [], []
    try:
        for ci, c in enumerate(cases):
            if c['kind'] == 'bundled':
                path = os.path.join(REPO, 'tests', 'zemax_files', c['file'])
            else:
                path = os.path.join(tmp, 'case_%d.zmx' % ci)
                with open(path, 'wb') as fh:
                    fh.write(zmxgen.encode(c['lines'], c['encoding'], c['newline']))
            dl = decoded_lines(path)
            if c['kind'] == 'bundled':
                text = ''.join(dl)
                c = dict(c, presc=spec_from_text(text))
            elif c['kind'] == 'wellformed':
                # generator self-check: the text says what the generator meant
                try:
                    if not same_presc(spec_from_text('\n'.join(c['lines'])), c['presc']):
                        ctx.notes.append('generator/text mismatch in case %d' % ci)
                        ctx.count('generator self-check failed')
                except Exception as e:  # noqa
                    ctx.count('generator self-check error:' + type(e).__name__)
            # implementation
            rec = {'case': c, 'path': path}
            if ci % dict_every == 0 or c['kind'] not in ('wellformed',):
                try:
                    rec['dict'] = canon_impl_dict(quiet(ZemaxFileReader, path).data)
                except Exception as e:  # noqa
                    rec['dict_err'] = err_class(e)
            try:
                optic = quiet(load_zemax_file, path)
                rec['optic'] = optic
                rec['obs'] = observe(optic)
            except Exception as e:  # noqa
                rec['load_err'] = err_class(e)
            # model
            known = oracle(cat, glass_names(dl))
            i0 = len(lines_out)
            lines_out.append('zmx ' + ' '.join(known_tokens(known) + [hex_text(dl)]))
            rec['i_zmx'] = i0
            if c['kind'] == 'wellformed' and c['canonical']:
                rec['i_rt'] = len(lines_out)
                lines_out.append('zmxrt ' + ' '.join(known_tokens(known) + presc_tokens(c['presc'], c['pads'])
                                                     + [hex_text(dl)]))
            work.append(rec)
            if c['kind'] != 'bundled' and 'optic' not in rec:
                pass
            if c['kind'] != 'bundled':
                os.remove(path)
        outs = []
        CH = 400
        for i in range(0, len(lines_out), CH):
            outs += drv.batch(lines_out[i:i + CH])
        # compare
        parax_lines, parax_recs = [], []
        for rec in work:
            c = rec['case']
            desc = c if c['kind'] == 'bundled' else {k: c[k] for k in ('kind', 'presc', 'pads', 'canonical', 'lines',
                                                                      'encoding', 'newline')}
            summ = case_summary(c)
            out = outs[rec['i_zmx']]
            if out.startswith('error') or out == 'bad-op':
                ctx.disagreements.append({'what': 'driver error', 'model': out[:200], 'case': desc})
                continue
            m = parse_model(out)
            ctx.case(summ, nontrivial='unmodelled' not in m)
            ctx.count('kind=' + c['kind'])
            if c['kind'] != 'bundled':
                ctx.count('encoding=' + c['encoding'])
                ctx.count('nsurf=%d' % (len(c['presc']['surfaces']) - 2))
                ctx.count('ap=' + c['presc']['ap'][0])
                ctx.count('field=' + c['presc']['field_type'])
                ctx.count('nwave=%d' % len(c['presc']['waves']))
                ctx.count('object=' + ('infinite' if c['presc']['surfaces'][0]['thick'] == INF else 'finite'))
            if 'unmodelled' in m:
                ctx.count('unmodelled')
                continue
            # ---- correspondence: reader dictionary
            if 'dict' in rec or 'dict_err' in rec:
                if 'read_error' in m:
                    if rec.get('dict_err') != m['read_error']:
                        ctx.disagreements.append({'what': 'reader error class', 'impl': rec.get('dict_err', 'ok'),
                                                  'model': m['read_error'], 'case': desc})
                elif 'dict_err' in rec:
                    ctx.disagreements.append({'what': 'reader error class', 'impl': rec['dict_err'], 'model': 'ok',
                                              'case': desc})
                else:
                    with_variants(ctx, lambda v: compare_dict(ctx, rec['dict'], m['dict'], desc,
                                                               m['last'] if v == 'spec' else None)
                                  if (v == 'code' or m['last'] is not None) else False)
            # ---- correspondence: converted lens
            merr = m.get('read_error') or m.get('conv_error')
            if merr or 'load_err' in rec:
                ctx.count('load error: model=%s impl=%s' % (merr or 'ok', rec.get('load_err', 'ok')))
                if (merr or 'ok') != rec.get('load_err', 'ok'):
                    ctx.disagreements.append({'what': 'load error class', 'impl': rec.get('load_err', 'ok'),
                                              'model': merr or 'ok', 'case': desc})
            else:
                with_variants(ctx, lambda v: compare_optic(ctx, rec['obs'], m['conv'], desc, v))
            # ---- correspondence: the text is printZmx p, and the theorem's equation at Float
            if 'i_rt' in rec:
                rt = outs[rec['i_rt']].split()
                if rt[:1] in (['error'], ['bad-op']) or len(rt) != 3:
                    ctx.disagreements.append({'what': 'driver error (zmxrt)', 'model': outs[rec['i_rt']][:200], 'case': desc})
                else:
                    ctx.count('canonical files checked against printZmx')
                    if rt[2] != '1':
                        ctx.disagreements.append({'what': 'generated prescription is not WF', 'model': rt, 'case': desc})
                    if rt[0] != '1':
                        ctx.disagreements.append({'what': 'lexed text differs from printZmx p', 'impl': 'text', 'model': rt,
                                                  'case': desc})
                    if rt[1] != '1':
                        ctx.disagreements.append({'what': 'zload (lex text) differs from expected p (parse_print at Float)',
                                                  'impl': 'text', 'model': rt, 'case': desc})
            # ---- property predicate
            k = c['kind']
            if k == 'nonsequential':
                first = [l for l in c['lines'] if l.split()[:1] == ['MODE']]
                if 'load_err' not in rec:
                    ctx.fail('files in non-sequential mode are rejected', desc, 'loaded', 'ValueError')
                elif rec['load_err'] != 'value':
                    ctx.fail('files in non-sequential mode are rejected with ValueError', desc, rec['load_err'], 'value')
                del first
            elif k in ('wellformed', 'harmless-noise', 'bundled'):
                if 'load_err' in rec:
                    ctx.fail('a well-formed sequential file loads', desc, rec['load_err'], 'Optic')
                else:
                    pl = predicate(ctx, cat, c['presc'], rec['obs'], rec['optic'], desc, True)
                    if pl:
                        parax_lines.append(pl)
                        parax_recs.append((rec, desc))
        # ---- paraxial data from the written numbers (C04 model) vs the loaded lens
        pouts = []
        for i in range(0, len(parax_lines), CH):
            pouts += drv.batch(parax_lines[i:i + CH])
        for (rec, desc), line, out in zip(parax_recs, parax_lines, pouts):
            t = Toks(out)
            if t.error:
                ctx.count('parax: driver error')
                continue
            mv = dict(zip(c04.SCALARS, t.floats(len(c04.SCALARS))))
            vals = {}
            for name in ('f2', 'EPL'):
                try:
                    vals[name] = float(np.ravel(getattr(rec['optic'].paraxial, name)())[0])
                except Exception as e:  # noqa
                    vals[name] = ('error', type(e).__name__)
            try:
                own = 'paraxall ' + ' '.join(c04.sys_tokens(rec['optic']))
            except Exception:
                own = None
            same_tokens = own is not None and tokens_close(own, line)
            for name in ('f2', 'EPL'):
                iv = vals[name]
                if isinstance(iv, tuple):
                    ctx.count('parax: impl error ' + name)
                    continue
                ctx.count('parax: compared ' + name)
                if not close(iv, mv[name], 1e-9, 1e-12):
                    if same_tokens:
                        ctx.drift.append({'what': 'C04 model vs implementation on identical data: ' + name,
                                          'impl': iv, 'model': mv[name], 'case': desc})
                    else:
                        ctx.fail('paraxial %s equals the value computed from the written numbers' % name, desc,
                                 iv, mv[name])
                else:
                    ctx.bitexact[1] += 1
                    ctx.bitexact[0] += 1 if fhex(iv) == fhex(mv[name]) or (iv != iv and mv[name] != mv[name]) else 0
            if own is not None and not same_tokens:
                ctx.fail('the loaded lens carries the written numbers (paraxial system data)', desc, own[:400], line[:400])
    finally:
        shutil.rmtree(tmp, ignore_errors=True)
        try:
            os.rmdir(SCRATCH)
        except OSError:
            pass
    return finish(ctx, aud,
                  partial=['text level: that Python float()/int()/str.split() read the number syntax as the lexer '
                           'layer (Model/ZmxLex.lean) does is exercised by the correspondence, not proved',
                           'fields_sorted needs a strict weak order on the y values (floats without NaN)',
                           'glass names that are proper substrings of catalogue names are outside known/unknown '
                           '(DESIGN section 7); the catalogue lookup itself belongs to C18',
                           'paraxial_follows: checked numerically through the C04 model, no separate theorem'],
                  assumptions=['the catalogue CSV decides which glass names are known (exact, case-insensitive match of '
                               'the glass or page name)',
                               'AbbeMaterial(nd, Vd).n and MaterialFile.n are taken from the implementation (C18)',
                               'scalar NumPy float64 arithmetic is IEEE-754 and deterministic'])


def tokens_close(a, b):
    ta, tb = a.split(), b.split()
    if len(ta) != len(tb):
        return False
    for x, y in zip(ta, tb):
        if x == y:
            continue
        if HEX16.match(x) and HEX16.match(y) and close(unhex(x), unhex(y), 1e-12, 0.0):
            continue
        return False
    return True
