"""Harness core: paths, hex protocol, driver process, comparison, evidence, violation
protocol, Lean build/audit.  Run by /venv/bin/python with /repo first on sys.path."""
import os, sys, json, struct, subprocess, time, hashlib, random, math, re, warnings, shutil

VERIF = os.path.dirname(os.path.dirname(os.path.abspath(__file__)))
REPO = os.environ.get('OPTILAND_REPO', '/repo')
LEAN_DIR = os.path.join(VERIF, 'lean')
DRIVER = os.path.join(LEAN_DIR, '.lake', 'build', 'bin', 'optidrv')
# evidence/ describes runs against /repo itself; a run against a scratch tree (OPTILAND_REPO) writes elsewhere
EVIDENCE_DIR = os.path.join(VERIF, 'evidence') if os.path.realpath(REPO) == os.path.realpath('/repo') \
    else os.path.join(VERIF, '.scratch', 'evidence')
REPLAY_DIR = os.path.join(VERIF, 'replays')
ALLOWED_AXIOMS = {'propext', 'Classical.choice', 'Quot.sound'}

os.environ.setdefault('OPTILAND_VERIF', '1')
os.environ.setdefault('MPLBACKEND', 'Agg')
if REPO not in sys.path:
    sys.path.insert(0, REPO)
warnings.filterwarnings('ignore')


# ---------------------------------------------------------------- hex protocol
def fhex(x):
    return '%016x' % struct.unpack('<Q', struct.pack('<d', float(x)))[0]


def unhex(s):
    return struct.unpack('<d', struct.pack('<Q', int(s, 16)))[0]


def b01(b):
    return '1' if b else '0'


class Driver:
    """Batch interface to the native Lean driver: write all lines, read all answers."""

    def __init__(self):
        if not os.path.exists(DRIVER):
            raise RuntimeError('driver not built: ' + DRIVER)

    def batch(self, lines):
        if not lines:
            return []
        inp = ('\n'.join(lines) + '\n').encode()
        p = subprocess.run([DRIVER], input=inp, stdout=subprocess.PIPE, stderr=subprocess.PIPE)
        if p.returncode != 0:
            raise RuntimeError('driver failed: ' + p.stderr.decode()[:500])
        out = p.stdout.decode().split('\n')
        if out and out[-1] == '':
            out.pop()
        if len(out) != len(lines):
            raise RuntimeError('driver answered %d lines for %d commands' % (len(out), len(lines)))
        return out


class Toks:
    """reader for a driver answer line"""

    def __init__(self, line):
        self.t = line.split()
        self.i = 0
        self.error = self.t[0] if self.t and self.t[0] in ('error', 'bad-op') else None

    def tok(self):
        v = self.t[self.i]
        self.i += 1
        return v

    def flt(self):
        return unhex(self.tok())

    def nat(self):
        return int(self.tok())

    def floats(self, n=None):
        if n is None:
            n = self.nat()
        return [self.flt() for _ in range(n)]

    def done(self):
        return self.i >= len(self.t)


# ---------------------------------------------------------------- comparison
def fclass(x):
    if x != x:
        return 'nan'
    if x == math.inf:
        return '+inf'
    if x == -math.inf:
        return '-inf'
    return 'fin'


def close(a, b, rtol=1e-9, atol=1e-12):
    """NaN must match NaN, infinities must match in sign, finite within tolerance."""
    a = float(a)
    b = float(b)
    ca, cb = fclass(a), fclass(b)
    if ca != 'fin' or cb != 'fin':
        return ca == cb
    return abs(a - b) <= atol + rtol * max(abs(a), abs(b))


def bitexact(a, b):
    return fhex(a) == fhex(b) or (a != a and b != b)


# ---------------------------------------------------------------- Lean build + audit
def sh(cmd, cwd=None, timeout=3600):
    p = subprocess.run(cmd, shell=True, cwd=cwd, stdout=subprocess.PIPE, stderr=subprocess.STDOUT,
                       timeout=timeout)
    return p.returncode, p.stdout.decode(errors='replace')


def lake_build(targets=''):
    # checks of several properties may run side by side (also on a tree where nothing is built yet): Lake has no
    # build lock of its own, two cold builds would write the same .olean files at the same time
    import fcntl
    with open(os.path.join(LEAN_DIR, '.build.lock'), 'w') as lk:
        fcntl.flock(lk, fcntl.LOCK_EX)
        try:
            rc, out = sh('lake build ' + targets, cwd=LEAN_DIR)
        finally:
            fcntl.flock(lk, fcntl.LOCK_UN)
    return rc == 0, out


_FORBIDDEN = re.compile(r'\b(sorry|admit|native_decide|bv_decide|implemented_by|unsafe)\b|^\s*axiom\s|maxHeartbeats 0',
                        re.M)


def strip_comments(src):
    src = re.sub(r'/-.*?-/', '', src, flags=re.S)
    src = re.sub(r'--[^\n]*', '', src)
    return src


def lean_files_for(pid):
    """Props file for a property plus every OptiModel file it imports transitively."""
    root = os.path.join(LEAN_DIR, 'OptiModel', 'Props', pid + '.lean')
    seen, todo = [], [root]
    while todo:
        f = todo.pop()
        if f in seen or not os.path.exists(f):
            continue
        seen.append(f)
        for m in re.findall(r'^import\s+(OptiModel[\w.]*)', open(f).read(), flags=re.M):
            todo.append(os.path.join(LEAN_DIR, *m.split('.')) + '.lean')
    return seen


def source_hashes(repo=None):
    """AST-normalised sha256 of every module of the package under verification (comments / layout do not matter)"""
    import ast, glob
    repo = repo or REPO
    out = {}
    for f in sorted(glob.glob(os.path.join(repo, 'optiland', '**', '*.py'), recursive=True)):
        rel = os.path.relpath(f, repo)
        try:
            out[rel] = hashlib.sha256(ast.dump(ast.parse(open(f).read())).encode()).hexdigest()[:20]
        except Exception:  # noqa  (a file that does not parse is certainly different)
            out[rel] = 'unparsable'
    return out


def source_drift():
    """modules whose code differs from baseline/source_hashes.json (None when there is no baseline)"""
    p = os.path.join(VERIF, 'baseline', 'source_hashes.json')
    if not os.path.exists(p):
        return None
    base = json.load(open(p))['files']
    cur = source_hashes()
    return sorted(k for k in set(base) | set(cur) if base.get(k) != cur.get(k))


SOURCE_DRIFT = None        # filled by main.py
_AUDIT_CACHE = {}
CORPUS_RESULT = None       # filled by main.py: what the regression corpus of this property did in this run


def audit(pid, allowed_extra=()):
    """Returns dict: theorems -> axioms, problems list.  Rebuilds the Props module, greps the
    sources for forbidden constructs, runs `#print axioms` on every theorem of Props/<pid>.
    (Memoised per process: the corpus cases of one run share the audit of the main run.)"""
    key = (pid, tuple(allowed_extra))
    if key not in _AUDIT_CACHE:
        _AUDIT_CACHE[key] = _audit(pid, allowed_extra)
    import copy
    return copy.deepcopy(_AUDIT_CACHE[key])


def _audit(pid, allowed_extra=()):
    res = {'theorems': {}, 'problems': [], 'files': [], 'statement_hash': {}}
    props = os.path.join(LEAN_DIR, 'OptiModel', 'Props', pid + '.lean')
    if not os.path.exists(props):
        res['problems'].append('missing ' + props)
        return res
    ok, out = lake_build('OptiModel.Props.' + pid + ' optidrv')
    if not ok:
        res['problems'].append('lake build failed: ' + out[-1500:])
        return res
    files = lean_files_for(pid)
    res['files'] = [os.path.relpath(f, LEAN_DIR) for f in files]
    for f in files:
        src = strip_comments(open(f).read())
        for m in _FORBIDDEN.finditer(src):
            word = m.group(0).strip()
            if word in allowed_extra:
                continue
            res['problems'].append('forbidden construct %r in %s' % (word, os.path.relpath(f, LEAN_DIR)))
    src = open(props).read()
    body = strip_comments(src)
    # fully qualified theorem names: follow `namespace X` / `end X`
    names, stack = [], []
    for line in body.split('\n'):
        m = re.match(r'^\s*namespace\s+([\w.]+)', line)
        if m:
            stack.append(m.group(1))
            continue
        m = re.match(r'^\s*end\s+([\w.]+)\s*$', line)
        if m and stack and stack[-1] == m.group(1):
            stack.pop()
            continue
        m = re.match(r'^\s*(?:private\s+|protected\s+)?theorem\s+([^\s:({\[]+)', line)
        if m:
            names.append('.'.join(stack + [m.group(1)]))
    prefix = ''
    # statement hashes: text from `theorem name` up to `:= by` / `:=`
    for m in re.finditer(r'theorem\s+([^\s:({\[]+)(.*?):=', body, flags=re.S):
        res['statement_hash'][m.group(1)] = hashlib.sha256(
            re.sub(r'\s+', ' ', m.group(2)).encode()).hexdigest()[:16]
    adir = os.path.join(LEAN_DIR, '.audit')
    os.makedirs(adir, exist_ok=True)
    afile = os.path.join(adir, 'Audit_%s.lean' % pid)
    with open(afile, 'w') as fh:
        fh.write('import OptiModel.Props.%s\n' % pid)
        for n in names:
            fh.write('#print axioms %s%s\n' % (prefix, n))
    rc, out = sh('lake env lean ' + afile, cwd=LEAN_DIR)
    if rc != 0:
        res['problems'].append('audit failed: ' + out[-1500:])
        return res
    if os.environ.get('VERIF_TIER_NOW') == 'thorough':
        # independent re-check of the compiled declarations by the toolchain's leanchecker (thorough tier only)
        mods = []
        for f in files:
            rel = os.path.relpath(f, LEAN_DIR)
            if rel.endswith('.lean') and not rel.startswith('..'):
                mods.append(rel[:-5].replace(os.sep, '.'))
        rc2, out2 = sh('lake env leanchecker ' + ' '.join(mods), cwd=LEAN_DIR)
        res['leanchecker'] = {'modules': mods, 'exit': rc2}
        if rc2 != 0:
            res['problems'].append('leanchecker rejects: ' + out2[-1500:])
    cur = None
    for m in re.finditer(r"^'(.+?)' (depends on axioms: \[([^\]]*)\]|does not depend on any axioms)", out, flags=re.M):
        name = m.group(1)
        axs = [a.strip() for a in (m.group(3) or '').replace('\n', ' ').split(',') if a.strip()]
        res['theorems'][name] = axs
        bad = [a for a in axs if a not in ALLOWED_AXIOMS and a not in allowed_extra]
        if bad:
            res['problems'].append('theorem %s uses axioms %s' % (name, bad))
    missing = [n for n in names if (prefix + n) not in res['theorems']]
    if missing:
        res['problems'].append('no axiom report for %s' % missing)
    return res


# ---------------------------------------------------------------- known findings
def load_known():
    p = os.path.join(VERIF, 'known_findings.json')
    if not os.path.exists(p):
        return []
    return json.load(open(p)).get('findings', [])


# ---------------------------------------------------------------- check context
class Ctx:
    def __init__(self, pid, tier, seed):
        self.pid = pid
        self.tier = tier
        self.seed = seed
        self.rng = random.Random(seed * 1000003 + int(pid[1:]))
        self.t0 = time.time()
        self.stats = {}            # free-form counters (input distribution etc.)
        self.samples = []          # a few actual cases
        self.evaluations = 0
        self.distinct = set()      # hashes of non-trivial cases
        self.disagreements = []    # model vs implementation (hard observables)
        self.drift = []            # soft observables
        self.failures = []         # property predicate false on the implementation: concrete inputs
        self.known_hits = {}       # finding id -> example
        self.notes = []
        self.bitexact = [0, 0]
        self.known = [k for k in load_known() if k.get('property') == pid and k.get('status') == 'open']

    def quick(self):
        return self.tier == 'quick'

    def count(self, key, n=1):
        self.stats[key] = self.stats.get(key, 0) + n

    def case(self, desc, nontrivial=True):
        """register one explored case; desc must be JSON-able"""
        self.evaluations += 1
        if nontrivial:
            self.distinct.add(hashlib.md5(json.dumps(desc, sort_keys=True, default=str).encode()).hexdigest())
        if len(self.samples) < 3:
            self.samples.append(desc)

    def cmp(self, what, impl, model, case, rtol=1e-9, atol=1e-12, hard=True):
        """compare one scalar; returns True when it agrees"""
        self.bitexact[1] += 1
        if bitexact(impl, model):
            self.bitexact[0] += 1
            return True
        if close(impl, model, rtol, atol):
            return True
        rec = {'what': what, 'impl': repr(float(impl)), 'model': repr(float(model)), 'case': case}
        (self.disagreements if hard else self.drift).append(rec)
        return False

    def cmp_list(self, what, impl, model, case, **kw):
        impl = [float(v) for v in impl]
        model = [float(v) for v in model]
        if len(impl) != len(model):
            self.disagreements.append({'what': what + ' (length)', 'impl': len(impl), 'model': len(model),
                                       'case': case})
            return False
        ok = True
        for i, (a, b) in enumerate(zip(impl, model)):
            if not self.cmp('%s[%d]' % (what, i), a, b, case, **kw):
                ok = False
                break
        return ok

    def fail(self, clause, case, observed, expected=None, finding_key=None):
        """the property's own predicate is false on the implementation for this concrete input"""
        rec = {'clause': clause, 'case': case, 'observed': observed, 'expected': expected}
        for k in self.known:
            if finding_key is not None and k.get('key') == finding_key:
                self.known_hits.setdefault(k['id'], rec)
                return
        self.failures.append(rec)


def merge_ctx(ctx, other):
    """fold the results of a worker's context into the main one"""
    for k, v in other.stats.items():
        if k == 'rule':
            continue
        ctx.stats[k] = ctx.stats.get(k, 0) + v
    for smp in other.samples:
        if len(ctx.samples) < 3:
            ctx.samples.append(smp)
    ctx.evaluations += other.evaluations
    ctx.distinct |= other.distinct
    ctx.disagreements += other.disagreements
    ctx.drift += other.drift
    ctx.failures += other.failures
    for k, v in other.known_hits.items():
        ctx.known_hits.setdefault(k, v)
    ctx.notes += other.notes
    ctx.bitexact[0] += other.bitexact[0]
    ctx.bitexact[1] += other.bitexact[1]


def _pwork(args):
    modname, fname, pid, tier, seed, idx, chunk = args
    import importlib
    os.environ['OMP_NUM_THREADS'] = '1'
    mod = importlib.import_module(modname)
    sub = Ctx(pid, tier, seed * 7919 + idx + 1)
    getattr(mod, fname)(sub, chunk)
    sub.rng = None
    return sub


def run_parallel(ctx, modname, fname, cases, nproc=None, chunk=None):
    """run `modname.fname(sub_ctx, chunk_of_cases)` over all cases in worker processes and merge"""
    import multiprocessing as mp
    nproc = nproc or min(16, os.cpu_count() or 4)
    if len(cases) < 64 or nproc == 1:
        import importlib
        getattr(importlib.import_module(modname), fname)(ctx, cases)
        return
    try:        # import the library (and load the catalogue) once, before forking
        import optiland.optic, optiland.materials  # noqa
        optiland.materials.Material._load_dataframe()
    except Exception:
        pass
    chunk = chunk or max(4, min(400, len(cases) // (nproc * 6) + 1))
    order = list(range(len(cases)))
    random.Random(ctx.seed).shuffle(order)          # balance expensive cases (catalogue look-ups) over workers
    cases = [cases[i] for i in order]
    chunks = [cases[i:i + chunk] for i in range(0, len(cases), chunk)]
    with mp.Pool(nproc) as pool:
        for sub in pool.imap_unordered(_pwork, [(modname, fname, ctx.pid, ctx.tier, ctx.seed, i, c)
                                                for i, c in enumerate(chunks)]):
            merge_ctx(ctx, sub)


def _jsonable(o):
    try:
        import numpy as np
        if isinstance(o, np.ndarray):
            return o.tolist()
        if isinstance(o, (np.floating, np.integer, np.bool_)):
            return o.item()
    except Exception:
        pass
    return str(o)


def write_replay(pid, payload):
    os.makedirs(REPLAY_DIR, exist_ok=True)
    h = hashlib.md5(json.dumps(payload, sort_keys=True, default=_jsonable).encode()).hexdigest()[:10]
    p = os.path.join(REPLAY_DIR, '%s_%s.json' % (pid, h))
    with open(p, 'w') as fh:
        json.dump(payload, fh, indent=1, default=_jsonable)
    return p


def finish(ctx, aud, level='proof', partial=(), assumptions=(), trusted=(), search=None):
    """Apply the violation protocol, write the evidence, print the result lines, return exit code."""
    pid = ctx.pid
    exit_code = 0
    lines = []
    for fid, rec in ctx.known_hits.items():
        k = [k for k in ctx.known if k['id'] == fid][0]
        lines.append('KNOWN-FINDING: property=%s %s (%s)' % (pid, fid, k['what']))
    broken = list(aud['problems'])
    if ctx.failures:
        rec = ctx.failures[0]
        path = write_replay(pid, {'property': pid, 'kind': 'failing-input', 'seed': ctx.seed, 'tier': ctx.tier,
                                  'failure': rec, 'more': ctx.failures[1:5],
                                  'replay_cmd': './check %s --replay <this file>' % pid})
        lines.append('VIOLATION property=%s replay=%s' % (pid, path))
        exit_code = 1
    elif ctx.disagreements or broken:
        found = None
        if search is not None:
            found = search(ctx)
        if found:
            path = write_replay(pid, {'property': pid, 'kind': 'failing-input', 'seed': ctx.seed,
                                      'tier': ctx.tier, 'failure': found,
                                      'broken': broken, 'disagreements': ctx.disagreements[:5]})
            lines.append('VIOLATION property=%s replay=%s' % (pid, path))
        else:
            path = write_replay(pid, {'property': pid, 'kind': 'obligation-broken', 'seed': ctx.seed,
                                      'tier': ctx.tier, 'broken_obligations': broken,
                                      'correspondence_disagreements': ctx.disagreements[:10],
                                      'note': 'model/implementation correspondence or a proof obligation no '
                                              'longer checks; no concrete failing input was found'})
            lines.append('VIOLATION property=%s replay=%s no-failing-input-found' % (pid, path))
        exit_code = 1
    if CORPUS_RESULT and CORPUS_RESULT.get('failed') and not os.environ.get('VERIF_REPLAY'):
        exit_code = 1      # VIOLATION lines of the corpus cases were printed when they ran (replay = the corpus file)
    nthm = len(aud['theorems'])
    discharged = sum(1 for n, ax in aud['theorems'].items()
                     if all(a in ALLOWED_AXIOMS or a in trusted for a in ax)) if not aud['problems'] else 0
    cov = {
        'obligations': max(nthm, 1),
        'discharged': discharged if not broken else min(discharged, max(nthm - 1, 0)),
        'checker_cmd': 'cd lean && lake build OptiModel.Props.%s && lake env lean .audit/Audit_%s.lean' % (pid, pid)
                       + (' && lake env leanchecker <modules> (exit %s)' % aud['leanchecker']['exit']
                          if aud.get('leanchecker') else ''),
        'trusted_base': ['Lean 4.33.0 kernel', 'Mathlib v4.33.0', 'axioms: propext, Classical.choice, Quot.sound']
                        + list(trusted) +
                        ['hand-written model tied to /repo by the correspondence run below',
                         'IEEE-754 double ~ real arithmetic within stated tolerances'],
        'theorems': aud['theorems'],
        'statement_hash': aud.get('statement_hash', {}),
        'partial_clauses': list(partial),
        'evaluations': ctx.evaluations,
        'distinct_nontrivial': len(ctx.distinct),
        'rule': ctx.stats.pop('rule', 'see DESIGN.md section 5 for this property'),
        'samples': ctx.samples[:3] or ['(none)'],
        'programs': ctx.evaluations,
        'disagreements_checked': len(ctx.disagreements),
        'model_drift_soft': len(ctx.drift),
        'bitexact_fraction': (ctx.bitexact[0] / ctx.bitexact[1]) if ctx.bitexact[1] else None,
        'values_compared': ctx.bitexact[1],
        'distribution': ctx.stats,
        'known_findings_hit': sorted(ctx.known_hits),
        'notes': ctx.notes,
        'regression_corpus': CORPUS_RESULT if CORPUS_RESULT is not None else 'not run (replay or no corpus)',
        'source_drift': SOURCE_DRIFT if SOURCE_DRIFT is not None else 'not computed',
    }
    ev = {'property_id': pid, 'tier': ctx.tier, 'seed': ctx.seed, 'level': level, 'coverage': cov,
          'assumptions': list(assumptions), 'wall_s': round(time.time() - ctx.t0, 2),
          'violations': 1 if exit_code else 0}
    evdir = os.path.join(VERIF, '.scratch', 'evidence') if os.environ.get('VERIF_REPLAY') else EVIDENCE_DIR
    os.makedirs(evdir, exist_ok=True)
    with open(os.path.join(evdir, pid + '.json'), 'w') as fh:
        json.dump(ev, fh, indent=1, default=_jsonable)
    for l in lines:
        print(l)
    print('%s %s tier=%s seed=%d: theorems=%d discharged=%d cases=%d values=%d bitexact=%.3f '
          'disagreements=%d failures=%d known=%d wall=%.1fs' % (
              pid, 'FAIL' if exit_code else 'ok', ctx.tier, ctx.seed, nthm, cov['discharged'], ctx.evaluations,
              ctx.bitexact[1], cov['bitexact_fraction'] or 0, len(ctx.disagreements), len(ctx.failures),
              len(ctx.known_hits), ev['wall_s']))
    return exit_code
