"""Lens descriptors (JSON-able), construction of real `Optic` objects from them through the
public API, a structured random generator, and the bundled sample designs."""
import math, inspect
from . import core  # noqa: F401  (sets sys.path)
import numpy as np

INF = 'inf'


def _num(v):
    if v == INF:
        return np.inf
    if v == '-inf':
        return -np.inf
    return v


def make_material(m):
    from optiland.materials import IdealMaterial, Material, AbbeMaterial
    k = m['kind']
    if k == 'air':
        return 'air'
    if k == 'mirror':
        return 'mirror'
    if k == 'ideal':
        return IdealMaterial(n=m['n'], k=m.get('k', 0.0))
    if k == 'catalog':
        return (m['name'], m['ref']) if m.get('ref') else m['name']
    if k == 'abbe':
        return AbbeMaterial(m['n'], m['abbe'])
    raise ValueError(k)


def build(desc):
    """Construct the Optic described by `desc` with the public API only."""
    from optiland.optic import Optic
    from optiland.physical_apertures import RadialAperture
    from optiland.coatings import SimpleCoating
    o = Optic()
    for s in desc['surfaces']:
        kw = {}
        for key in ('conic', 'dx', 'dy', 'rx', 'ry', 'coefficients', 'tol', 'max_iter', 'norm_x', 'norm_y'):
            if key in s:
                kw[key] = s[key] if key != 'coefficients' else (
                    np.array(s[key], dtype=float) if s.get('surface_type') in ('polynomial', 'chebyshev')
                    else list(s[key]))
        if 'aperture' in s and s['aperture']:
            kw['aperture'] = RadialAperture(r_max=s['aperture']['r_max'], r_min=s['aperture'].get('r_min', 0))
        if 'coating' in s and s['coating']:
            c = s['coating']
            if c == 'fresnel':
                kw['coating'] = 'fresnel'
            else:
                kw['coating'] = SimpleCoating(c['T'], c['R'])
        radius = _num(s.get('radius', INF))
        via = bool(desc.get('via_setters')) and s['index'] >= 1 and s.get('surface_type', 'standard') in \
            ('standard', 'even_asphere') and not (isinstance(radius, float) and math.isinf(radius))
        if via:
            # reach the same prescription through the public setters: created as a sphere of another radius,
            # then set_radius / set_conic (exercises state that is derived at construction time)
            kw2 = dict(kw)
            conic = kw2.pop('conic', None)
            if s.get('surface_type') == 'even_asphere':
                kw2['conic'] = 0.0
            o.add_surface(index=s['index'], surface_type=s.get('surface_type', 'standard'),
                          radius=radius * 1.5, thickness=_num(s.get('thickness', 0)),
                          material=make_material(s.get('material', {'kind': 'air'})),
                          is_stop=s.get('is_stop', False), **kw2)
            if desc.get('via_setters') == 'conic_first':
                # the two setters commute: conic first, then the radius
                if conic is not None:
                    o.set_conic(conic, s['index'])
                o.set_radius(radius, s['index'])
            else:
                o.set_radius(radius, s['index'])
                if conic is not None:
                    o.set_conic(conic, s['index'])
            continue
        o.add_surface(index=s['index'], surface_type=s.get('surface_type', 'standard'),
                      radius=radius, thickness=_num(s.get('thickness', 0)),
                      material=make_material(s.get('material', {'kind': 'air'})),
                      is_stop=s.get('is_stop', False), **kw)
    ap = desc['aperture']
    o.set_aperture(aperture_type=ap[0], value=ap[1])
    if not desc.get('fields_first'):
        o.set_field_type(field_type=desc['field_type'])
    for f in desc['fields']:
        o.add_field(y=f[0], x=f[1] if len(f) > 1 else 0.0,
                    vx=f[2] if len(f) > 2 else 0.0, vy=f[3] if len(f) > 3 else 0.0)
    if desc.get('fields_first'):
        # the order of the two public calls is free: field points first, their type afterwards
        o.set_field_type(field_type=desc['field_type'])
    for w in desc['wavelengths']:
        o.add_wavelength(value=w[0], is_primary=bool(w[1]))
    if desc.get('telecentric'):
        o.obj_space_telecentric = True
    return o


def construction_diffs(desc, o, rtol=1e-12):
    """the lens built by add_surface against the descriptor it was built from: decentres, tilts, vertex positions
    (cumulative thicknesses, first surface at 0), radius, conic, coefficient tables.  [] when they agree.
    (Descriptors with `post` operations are edited after construction: not for them.)"""
    out = []
    surfs = o.surface_group.surfaces
    ds = desc['surfaces']
    if len(surfs) != len(ds):
        return [('number of surfaces', len(surfs), len(ds))]

    def num(v):
        return float(np.ravel(v)[0])

    def ne(a, b):
        return not (a == b or abs(a - b) <= rtol * max(abs(a), abs(b)) + 1e-300)
    z = 0.0
    for k, (d, q) in enumerate(zip(ds, surfs)):
        cs = q.geometry.cs
        for key, attr in (('dx', 'x'), ('dy', 'y'), ('rx', 'rx'), ('ry', 'ry')):
            want = float(d.get(key, 0.0))
            got = num(getattr(cs, attr))
            if ne(got, want):
                out.append(('surface %d %s' % (k, key), got, want))
        if k == 0:
            t0 = _num(d.get('thickness', 0))
            if not math.isinf(t0) and ne(num(cs.z), -t0):
                out.append(('object surface z', num(cs.z), -t0))
        else:
            if ne(num(cs.z), z) and abs(num(cs.z) - z) > 1e-12 * max(1.0, abs(z)):
                out.append(('surface %d z' % k, num(cs.z), z))
            z += _num(d.get('thickness', 0)) if k < len(ds) - 1 else 0.0
        R = _num(d.get('radius', INF))
        gR = getattr(q.geometry, 'radius', None)
        if gR is not None and not (math.isinf(R) and math.isinf(num(gR))) and ne(num(gR), R):
            out.append(('surface %d radius' % k, num(gR), R))
        if 'conic' in d and hasattr(q.geometry, 'k') and ne(num(q.geometry.k), float(d['conic'])):
            out.append(('surface %d conic' % k, num(q.geometry.k), float(d['conic'])))
        if 'coefficients' in d and hasattr(q.geometry, 'c'):
            want = np.array(d['coefficients'], dtype=float)
            got = np.array(q.geometry.c, dtype=float)
            if got.shape != want.shape or not np.allclose(got, want, rtol=rtol, atol=0.0):
                out.append(('surface %d coefficients' % k, got.tolist(), want.tolist()))
    return out


def dyadic(rng, lo, hi, bits=6):
    """random multiple of 2^-bits in [lo, hi] (exact float sums)"""
    q = 2 ** bits
    return rng.randint(int(math.ceil(lo * q)), int(math.floor(hi * q))) / q


def gen_lens(rng, nsurf=None, allow_mirror=True, allow_conic=True, allow_asphere=False, allow_tilt=False,
             finite_object=None, ap_types=('EPD', 'imageFNO', 'objectNA'), catalog=False,
             field_types=('angle', 'object_height'), dy=False, stop='any', absorbing=False,
             apertures=False, coatings=False, max_field_deg=8.0, poly=False, immersed_image=False):
    """Random sequential lens.  Returns a descriptor.  1..12 optical surfaces + object + image."""
    n = nsurf or rng.randint(1, 12)
    if finite_object is None:
        finite_object = rng.random() < 0.35
    surfaces = []
    obj_t = dyadic(rng, 30, 400, 3) if finite_object else INF
    surfaces.append({'index': 0, 'radius': INF, 'thickness': obj_t, 'material': {'kind': 'air'}})
    direction = 1
    in_glass = False
    stop_at = {'first': 1, 'last': n}.get(stop, rng.randint(1, n)) if stop != 'interior' else \
        (rng.randint(2, n - 1) if n >= 3 else 1)
    glasses = ['N-BK7', 'N-SF11', 'N-SK16', 'N-F2', 'N-LAK12', 'N-FK51', 'N-BAK2', 'N-SF5', 'N-SK2', 'N-K5']
    for i in range(1, n + 1):
        s = {'index': i}
        u = rng.random()
        if u < 0.12:
            s['radius'] = INF
        else:
            mag = dyadic(rng, 15, 300, 3)
            s['radius'] = mag if rng.random() < 0.5 else -mag
        if allow_conic and s['radius'] != INF and rng.random() < 0.3:
            s['conic'] = dyadic(rng, -3, 1, 5)
        mirror = allow_mirror and ((not in_glass and rng.random() < 0.12) or (in_glass and rng.random() < 0.06))
        if mirror:
            s['material'] = {'kind': 'mirror'}
            direction = -direction
        else:
            if in_glass or rng.random() < 0.45:
                if not in_glass:
                    if catalog and rng.random() < 0.6:
                        s['material'] = {'kind': 'catalog', 'name': rng.choice(glasses)}
                    else:
                        s['material'] = {'kind': 'ideal', 'n': dyadic(rng, 1.3, 4 if rng.random() < 0.15 else 2.0, 8)}
                        if absorbing and rng.random() < 0.5:
                            s['material']['k'] = dyadic(rng, 0, 1e-4 * 64, 6) / 64 * 1e-2
                    in_glass = True
                else:
                    if rng.random() < 0.25:     # cemented
                        s['material'] = {'kind': 'ideal', 'n': dyadic(rng, 1.3, 2.0, 8)}
                    else:
                        s['material'] = {'kind': 'air'}
                        in_glass = False
            else:
                s['material'] = {'kind': 'air'}
        if i == n and in_glass and not immersed_image:
            # the image space is air (the image surface is made with material 'air')
            s['material'] = {'kind': 'air'}
            in_glass = False
        t = dyadic(rng, 1, 12, 4) if in_glass else dyadic(rng, 0.5, 40, 4)
        s['thickness'] = direction * t
        if i == stop_at:
            s['is_stop'] = True
        if allow_asphere and s['radius'] != INF and rng.random() < 0.3:
            s['surface_type'] = 'even_asphere'
            R = abs(s['radius'])
            s['coefficients'] = [rng.uniform(-1, 1) * 1e-3 / R, rng.uniform(-1, 1) * 1e-5 / R,
                                 rng.uniform(-1, 1) * 1e-8 / R][:rng.randint(1, 3)]
            s.setdefault('conic', 0.0)
        if poly and s['radius'] != INF and 'surface_type' not in s and rng.random() < 0.25:
            R = abs(s['radius'])
            if rng.random() < 0.5:
                s['surface_type'] = 'polynomial'
                nr, nc = rng.choice([(3, 3), (3, 3), (1, 4), (2, 5), (3, 5), (4, 2), (5, 3), (4, 4), (3, 1), (4, 1)])
                c = [[0.0] * nc for _ in range(nr)]
                for i in range(nr):
                    for j in range(nc):
                        if 1 <= i + j <= 4 and rng.random() < 0.6:
                            c[i][j] = rng.uniform(-1, 1) * 10.0 ** (-2 - 2 * (i + j)) * (30.0 / R if i + j == 2 else 1.0)
                s['coefficients'] = c
            else:
                s['surface_type'] = 'chebyshev'
                nr, nc = rng.choice([(3, 3), (3, 3), (2, 4), (4, 2), (1, 3), (3, 5)])
                c = [[0.0] * nc for _ in range(nr)]
                for i in range(nr):
                    for j in range(nc):
                        if 1 <= i + j <= 4 and rng.random() < 0.6:
                            c[i][j] = rng.uniform(-1, 1) * 1e-3
                s['coefficients'] = c
                s['norm_x'] = 50.0
                s['norm_y'] = 50.0
            s.setdefault('conic', 0.0)
        if allow_tilt and (rng.random() < 0.25 or (s.get('surface_type') in ('polynomial', 'chebyshev', 'even_asphere')
                                                   and rng.random() < 0.5)):
            # (every surface type takes its own route through the surface factory: tilts / decentres on each of them)
            s['dx'] = rng.uniform(-0.3, 0.3)
            s['dy'] = rng.uniform(-0.3, 0.3)
            s['rx'] = rng.uniform(-0.05, 0.05)
            s['ry'] = rng.uniform(-0.05, 0.05)
        elif dy and rng.random() < 0.2:
            s['dy'] = dyadic(rng, -0.5, 0.5, 6)
        if apertures and rng.random() < 0.4:
            s['aperture'] = {'r_max': dyadic(rng, 1.0, 6.0, 4)}
            if rng.random() < 0.3:
                s['aperture']['r_min'] = dyadic(rng, 0.1, 0.9, 4)
        if coatings and rng.random() < 0.4:
            T = dyadic(rng, 0, 1, 6)
            s['coating'] = {'T': T, 'R': dyadic(rng, 0, 1 - T, 6)}
        surfaces.append(s)
    # image surface: plane; if the last medium is glass keep it (the factory makes it an ordinary surface)
    img = {'index': n + 1, 'radius': INF, 'thickness': 0, 'material': {'kind': 'air'}}
    if immersed_image and in_glass:
        # image formed inside the last medium (immersion): the image surface has the same medium on both sides
        img['material'] = dict(surfaces[-1]['material'])
    surfaces.append(img)
    ap_type = rng.choice([a for a in ap_types if not (a == 'objectNA' and not finite_object)] or ['EPD'])
    if ap_type == 'EPD':
        ap = ['EPD', dyadic(rng, 0.5, 8, 4)]
    elif ap_type == 'imageFNO':
        ap = ['imageFNO', dyadic(rng, 4, 20, 3)]
    else:
        ap = ['objectNA', dyadic(rng, 0.005, 0.06, 10)]
    if ap[0] == 'imageFNO':
        # an F-number aperture turns into EPD = |f2| / FNO: for the nearly afocal lenses a random prescription often is,
        # that is a beam of metres (launched from kilometres away) through elements of centimetres - every tolerance
        # of every check is then about conditioning, not about the property.  Such lenses get an EPD aperture.
        f2 = approx_f2(surfaces)
        rmin = min([abs(float(su['radius'])) for su in surfaces[1:-1]
                    if su.get('radius', INF) not in (INF, 'inf') and math.isfinite(float(su['radius']))] or [40.0])
        if f2 is None or not (0.05 <= abs(f2) / ap[1] <= min(40.0, 0.6 * rmin)):
            ap = ['EPD', dyadic(rng, 0.5, 8, 4)]
    ft = rng.choice([f for f in field_types if not (f == 'object_height' and not finite_object)] or ['angle'])
    if ft == 'angle':
        ymax = dyadic(rng, 0.5, max_field_deg, 3)
    else:
        ymax = dyadic(rng, 0.5, 8, 3)
    nf = rng.randint(1, 3)
    fields = [[ymax * j / max(nf - 1, 1) if nf > 1 else ymax] for j in range(nf)]
    if nf > 1:
        fields[0] = [0.0]
        if rng.random() < 0.3:          # fields entered in a non-increasing order (the code sorts copies, never the list)
            rng.shuffle(fields)
    wl = [[0.4861327, 0], [0.5875618, 1], [0.6562725, 0]][:rng.randint(1, 3)]
    if not any(w[1] for w in wl):
        wl[0][1] = 1
    out = {'surfaces': surfaces, 'aperture': ap, 'field_type': ft, 'fields': fields, 'wavelengths': wl}
    if rng.random() < 0.25:
        out['fields_first'] = True       # add_field before set_field_type
    return out


def approx_f2(surfaces):
    """rear focal length of the descriptor by a y-nu trace (catalogue glasses taken as n = 1.6): generator use only"""
    y, nu, n = 1.0, 0.0, 1.0
    for s in surfaces[1:-1]:
        R = s.get('radius', INF)
        c = 0.0 if (R == INF or R == 'inf' or (isinstance(R, float) and math.isinf(R))) else 1.0 / float(R)
        m = s.get('material', {'kind': 'air'})
        if m['kind'] == 'mirror':
            n2 = -n
        else:
            mag = 1.0 if m['kind'] == 'air' else float(m.get('n', 1.6))
            n2 = mag if n > 0 else -mag
        nu = nu - y * c * (n2 - n)
        n = n2
        t = s.get('thickness', 0.0)
        if t in ('inf', INF) or (isinstance(t, float) and math.isinf(t)):
            return None
        y = y + float(t) * nu / n
    if nu == 0 or not math.isfinite(nu):
        return None
    return -1.0 / (nu / n)


def sample_classes():
    import optiland.samples as S
    import importlib, pkgutil
    out = []
    for m in pkgutil.iter_modules(S.__path__):
        mod = importlib.import_module('optiland.samples.' + m.name)
        for name, cls in inspect.getmembers(mod, inspect.isclass):
            if cls.__module__ == mod.__name__:
                out.append((m.name + '.' + name, cls))
    return sorted(out)


def build_sample(name):
    for n, cls in sample_classes():
        if n == name:
            return cls()
    raise KeyError(name)


def build_case(case):
    """case = {'sample': name} or {'desc': descriptor}"""
    import contextlib, io
    with contextlib.redirect_stdout(io.StringIO()):   # Material lookup prints warnings
        optic = build_sample(case['sample']) if 'sample' in case else build(case['desc'])
        for op in case.get('post', ()):
            # public calls made on the finished lens before it is used (multi-step histories)
            if op[0] == 'scale':
                optic.scale_system(op[1])
            elif op[0] == 'set_thickness':
                optic.set_thickness(op[1], op[2])
            elif op[0] == 'set_radius':
                optic.set_radius(op[1], op[2])
            elif op[0] == 'set_conic':
                optic.set_conic(op[1], op[2])
            elif op[0] == 'set_index':
                optic.set_index(op[1], op[2])
            elif op[0] == 'warm':
                # queries that may fill caches
                optic.paraxial.EPL(); optic.paraxial.f2()
                optic.trace_generic(0.0, 0.3, 0.1, 0.4, optic.primary_wavelength)
        return optic
