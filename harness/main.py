"""./check <property> [--tier quick|thorough] [--replay file]   exit 0 / 1 (violation) / 2 (infrastructure)"""
import sys, os, json, argparse, importlib, traceback


def main():
    ap = argparse.ArgumentParser()
    ap.add_argument('pid')
    ap.add_argument('--tier', default=os.environ.get('VERIF_TIER', 'quick'))
    ap.add_argument('--replay', default=None)
    a = ap.parse_args()
    seed = int(os.environ.get('VERIF_SEED', '0') or 0)
    os.environ['VERIF_TIER_NOW'] = a.tier
    try:
        mod = importlib.import_module('harness.' + a.pid.lower())
    except ImportError:
        traceback.print_exc()
        print('no check for', a.pid)
        sys.exit(2)
    replay = None
    if a.replay:
        os.environ['VERIF_REPLAY'] = '1'      # a replay re-runs one case: its evidence goes to .scratch/evidence
        payload = json.load(open(a.replay))
        replay = payload.get('failure', {}).get('case', payload)
    import time
    t0 = time.time()
    crc = 0
    drift = None
    if replay is None:
        from . import core
        drift = core.source_drift()
        core.SOURCE_DRIFT = drift
        crc = run_corpus(mod, a.pid, a.tier, seed)
    try:
        rc = mod.run(a.tier, seed, replay=replay)
    except Exception:
        sys.exit(max(impl_crash(a.pid, a.tier, seed, 'replay' if replay else 'main run'), crc))
    if drift and rc == 0 and crc == 0 and a.tier == 'quick':
        rc = look_harder(mod, a.pid, a.tier, seed, drift, t0)
    sys.exit(max(rc, crc) if 2 not in (rc, crc) else 2)


def impl_crash(pid, tier, seed, what):
    """an exception that escaped the harness: when it was raised inside the code under verification (innermost frame
    in <repo>/optiland) on an input the harness generated, the call that raised is a failing input - every harness
    catches the exceptions its property allows.  Anything else is an infrastructure error (exit 2)."""
    import hashlib
    from . import core
    et, ev, tb = sys.exc_info()
    frames = traceback.extract_tb(tb)
    traceback.print_exc()
    root = os.path.join(os.path.realpath(core.REPO), 'optiland') + os.sep
    if not frames or not os.path.realpath(frames[-1].filename).startswith(root):
        return 2
    text = ''.join(traceback.format_exception(et, ev, tb))
    rep = {'property': pid, 'kind': 'implementation raised on a generated input', 'tier': tier, 'seed': seed,
           'during': what, 'failure': {'clause': 'every call with arguments inside the property\'s quantifier succeeds',
                                        'observed': '%s: %s' % (et.__name__, ev),
                                        'raised_at': '%s:%d %s' % (os.path.relpath(frames[-1].filename, core.REPO),
                                                                   frames[-1].lineno, frames[-1].name),
                                        'harness_call': next(('%s:%d %s' % (os.path.basename(f.filename), f.lineno, f.line)
                                                              for f in reversed(frames)
                                                              if os.sep + 'harness' + os.sep in f.filename), None)},
           'traceback': text,
           'replay_cmd': 'VERIF_SEED=%d ./check %s --tier %s' % (seed, pid, tier)}
    d = os.path.join(core.VERIF, 'replays')
    os.makedirs(d, exist_ok=True)
    path = os.path.join(d, '%s_crash_%s.json' % (pid, hashlib.sha256(text.encode()).hexdigest()[:10]))
    json.dump(rep, open(path, 'w'), indent=1)
    print('VIOLATION property=%s replay=%s' % (pid, path))
    print('%s FAIL tier=%s seed=%d: the code under verification raised %s on a generated input (%s)'
          % (pid, tier, seed, et.__name__, rep['failure']['raised_at']))
    return 1


def look_harder(mod, pid, tier, seed, drift, t0):
    """the code under verification differs from the recorded baseline (baseline/source_hashes.json): the quick tier
    is repeated with further seeds (at most two, within about 150 s).  The difference itself is not an alarm."""
    import io, contextlib, time
    print('%s: source differs from the baseline in %s: extra seeds' % (pid, ', '.join(drift[:4]) +
                                                                       (' ...' if len(drift) > 4 else '')))
    os.environ['VERIF_REPLAY'] = '1'          # evidence of the extra runs goes to .scratch/evidence
    try:
        for k in (1, 2):
            if time.time() - t0 > 150:
                break
            buf = io.StringIO()
            try:
                with contextlib.redirect_stdout(buf):
                    rc = mod.run(tier, seed + 7919 * k, replay=None)
            except Exception:
                return 1 if impl_crash(pid, tier, seed + 7919 * k, 'extra seed') == 1 else 0
            if rc == 1:
                for line in buf.getvalue().split('\n'):
                    if line.startswith('VIOLATION') or ' tier=' in line:
                        print(line)
                return 1
    finally:
        del os.environ['VERIF_REPLAY']
    return 0


def run_corpus(mod, pid, tier, seed):
    """corpus/<pid>/*.json: minimised cases on which an earlier version of the code under verification (a seeded
    change, a repaired defect) failed.  They run first, on every run, independently of the seed; a case that fails
    again is a VIOLATION with that file as replay."""
    import glob, io, contextlib
    from . import core
    files = sorted(glob.glob(os.path.join(core.VERIF, 'corpus', pid, '*.json')))
    if not files:
        return 0
    res = {'cases': len(files), 'failed': []}
    worst = 0
    os.environ['VERIF_REPLAY'] = '1'
    try:
        for f in files:
            payload = json.load(open(f))
            case = payload.get('failure', {}).get('case', payload)
            buf = io.StringIO()
            try:
                with contextlib.redirect_stdout(buf):
                    rc = mod.run(tier, seed, replay=case)
            except Exception:
                rc = impl_crash(pid, tier, seed, 'corpus case ' + os.path.basename(f))
                if rc == 1:
                    res['failed'].append(os.path.basename(f))
                    worst = max(worst, 1)
                    continue
            if rc == 1:
                res['failed'].append(os.path.basename(f))
                print('VIOLATION property=%s replay=%s' % (pid, f))
                for line in buf.getvalue().split('\n'):
                    if line.startswith('KNOWN-FINDING') or ' tier=' in line:
                        print('  corpus case %s: %s' % (os.path.basename(f), line[:200]))
            elif rc == 2:
                print('corpus case %s could not be run' % f)
            worst = max(worst, rc)
    finally:
        del os.environ['VERIF_REPLAY']
    core.CORPUS_RESULT = res
    return worst


if __name__ == '__main__':
    main()
