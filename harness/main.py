"""./check <property> [--tier quick|thorough] [--replay file]   exit 0 / 1 (violation) / 2 (infrastructure)"""
import sys, os, json, argparse, importlib, traceback


def main():
    ap = argparse.ArgumentParser()
    ap.add_argument('pid')
    ap.add_argument('--tier', default=os.environ.get('VERIF_TIER', 'quick'))
    ap.add_argument('--replay', default=None)
    a = ap.parse_args()
    seed = int(os.environ.get('VERIF_SEED', '0') or 0)
    os.environ['VERIF_TIER_NOW'] = a.tier
    try:
        mod = importlib.import_module('harness.' + a.pid.lower())
    except ImportError:
        traceback.print_exc()
        print('no check for', a.pid)
        sys.exit(2)
    replay = None
    if a.replay:
        os.environ['VERIF_REPLAY'] = '1'      # a replay re-runs one case: its evidence goes to .scratch/evidence
        payload = json.load(open(a.replay))
        replay = payload.get('failure', {}).get('case', payload)
    import time
    t0 = time.time()
    crc = 0
    drift = None
    if replay is None:
        from . import core
        drift = core.source_drift()
        core.SOURCE_DRIFT = drift
        crc = run_corpus(mod, a.pid, a.tier, seed)
    try:
        rc = mod.run(a.tier, seed, replay=replay)
    except Exception:
        traceback.print_exc()
        sys.exit(2)
    if drift and rc == 0 and crc == 0 and a.tier == 'quick':
        rc = look_harder(mod, a.pid, a.tier, seed, drift, t0)
    sys.exit(max(rc, crc) if 2 not in (rc, crc) else 2)


def look_harder(mod, pid, tier, seed, drift, t0):
    """the code under verification differs from the recorded baseline (baseline/source_hashes.json): the quick tier
    is repeated with further seeds (at most two, within about 150 s).  The difference itself is not an alarm."""
    import io, contextlib, time
    print('%s: source differs from the baseline in %s: extra seeds' % (pid, ', '.join(drift[:4]) +
                                                                       (' ...' if len(drift) > 4 else '')))
    os.environ['VERIF_REPLAY'] = '1'          # evidence of the extra runs goes to .scratch/evidence
    try:
        for k in (1, 2):
            if time.time() - t0 > 150:
                break
            buf = io.StringIO()
            try:
                with contextlib.redirect_stdout(buf):
                    rc = mod.run(tier, seed + 7919 * k, replay=None)
            except Exception:
                traceback.print_exc()
                return 0
            if rc == 1:
                for line in buf.getvalue().split('\n'):
                    if line.startswith('VIOLATION') or ' tier=' in line:
                        print(line)
                return 1
    finally:
        del os.environ['VERIF_REPLAY']
    return 0


def run_corpus(mod, pid, tier, seed):
    """corpus/<pid>/*.json: minimised cases on which an earlier version of the code under verification (a seeded
    change, a repaired defect) failed.  They run first, on every run, independently of the seed; a case that fails
    again is a VIOLATION with that file as replay."""
    import glob, io, contextlib
    from . import core
    files = sorted(glob.glob(os.path.join(core.VERIF, 'corpus', pid, '*.json')))
    if not files:
        return 0
    res = {'cases': len(files), 'failed': []}
    worst = 0
    os.environ['VERIF_REPLAY'] = '1'
    try:
        for f in files:
            payload = json.load(open(f))
            case = payload.get('failure', {}).get('case', payload)
            buf = io.StringIO()
            try:
                with contextlib.redirect_stdout(buf):
                    rc = mod.run(tier, seed, replay=case)
            except Exception:
                traceback.print_exc()
                rc = 2
            if rc == 1:
                res['failed'].append(os.path.basename(f))
                print('VIOLATION property=%s replay=%s' % (pid, f))
                for line in buf.getvalue().split('\n'):
                    if line.startswith('KNOWN-FINDING') or ' tier=' in line:
                        print('  corpus case %s: %s' % (os.path.basename(f), line[:200]))
            elif rc == 2:
                print('corpus case %s could not be run' % f)
            worst = max(worst, rc)
    finally:
        del os.environ['VERIF_REPLAY']
    core.CORPUS_RESULT = res
    return worst


if __name__ == '__main__':
    main()
