"""./check <property> [--tier quick|thorough] [--replay file]   exit 0 / 1 (violation) / 2 (infrastructure)"""
import sys, os, json, argparse, importlib, traceback


def main():
    ap = argparse.ArgumentParser()
    ap.add_argument('pid')
    ap.add_argument('--tier', default=os.environ.get('VERIF_TIER', 'quick'))
    ap.add_argument('--replay', default=None)
    a = ap.parse_args()
    seed = int(os.environ.get('VERIF_SEED', '0') or 0)
    try:
        mod = importlib.import_module('harness.' + a.pid.lower())
    except ImportError:
        traceback.print_exc()
        print('no check for', a.pid)
        sys.exit(2)
    replay = None
    if a.replay:
        os.environ['VERIF_REPLAY'] = '1'      # a replay re-runs one case: its evidence goes to .scratch/evidence
        payload = json.load(open(a.replay))
        replay = payload.get('failure', {}).get('case', payload)
    try:
        rc = mod.run(a.tier, seed, replay=replay)
    except Exception:
        traceback.print_exc()
        sys.exit(2)
    sys.exit(rc)


if __name__ == '__main__':
    main()
