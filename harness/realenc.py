"""Encoding of a lens (at one wavelength) and of ray batches for the driver's `rtrace`
command, and decoding of its answer."""
import numpy as np
from .core import fhex, b01, Toks


def scal(v):
    return float(np.ravel(v)[0])


def geom_tokens(g):
    name = type(g).__name__
    if name == 'Plane':
        return ['p']
    if name == 'StandardGeometry':
        return ['s', fhex(g.radius), fhex(g.k)]
    if name == 'EvenAsphere':
        return ['a', fhex(g.radius), fhex(g.k), fhex(g.tol), str(int(g.max_iter)), str(len(g.c))] + \
               [fhex(c) for c in g.c]
    if name in ('PolynomialGeometry', 'ChebyshevPolynomialGeometry'):
        c = np.atleast_2d(g.c)
        t = ['y' if name == 'PolynomialGeometry' else 'c', fhex(g.radius), fhex(g.k), fhex(g.tol),
             str(int(g.max_iter)), str(c.shape[0]), str(c.shape[1])] + [fhex(v) for v in c.ravel()]
        if name == 'ChebyshevPolynomialGeometry':
            t += [fhex(g.norm_x), fhex(g.norm_y)]
        return t
    raise ValueError('geometry ' + name)


def surf_tokens(s, w):
    from optiland.surfaces.object_surface import ObjectSurface
    from optiland.surfaces.image_surface import ImageSurface
    from optiland.coatings import SimpleCoating
    kind = 'o' if isinstance(s, ObjectSurface) else 'i' if isinstance(s, ImageSurface) else 's'
    cs = s.geometry.cs
    t = [kind] + [fhex(scal(v)) for v in (cs.x, cs.y, cs.z, cs.rx, cs.ry, cs.rz)]
    t += geom_tokens(s.geometry)
    pre = s.material_pre if s.material_pre is not None else s.material_post
    try:
        k1 = scal(pre.k(w))
    except ValueError:
        k1 = 0.0        # catalogue medium without a k table: no attenuation (after the repair of F16)
    t += [fhex(scal(pre.n(w))), fhex(scal(s.material_post.n(w))), fhex(k1), b01(s.is_reflective)]
    if s.aperture is not None:
        t += ['1', fhex(s.aperture.r_max), fhex(s.aperture.r_min)]
    else:
        t += ['0']
    if s.coating is not None:
        if not isinstance(s.coating, SimpleCoating):
            raise ValueError('coating ' + type(s.coating).__name__)
        t += ['1', fhex(s.coating.transmittance), fhex(s.coating.reflectance)]
    else:
        t += ['0']
    return t


def lens_tokens(optic, w):
    surfs = optic.surface_group.surfaces
    t = [fhex(w), str(len(surfs))]
    for s in surfs:
        t += surf_tokens(s, w)
    return t


def rays_tokens(x, y, z, L, M, N, i, opd):
    n = len(x)
    t = [str(n)]
    for j in range(n):
        t += [fhex(v[j]) for v in (x, y, z, L, M, N, i, opd)]
    return t


FIELDS = ('x', 'y', 'z', 'L', 'M', 'N', 'intensity', 'opd')


def impl_records(optic):
    """per-surface records of the last trace: dict field -> array [nsurf][nray]"""
    sg = optic.surface_group
    return {f: np.array([np.atleast_1d(getattr(s, f)) for s in sg.surfaces]) for f in FIELDS}


def decode_records(line, nsurf, nray):
    """-> ('reject'|'error', msg) or dict field -> array [nsurf][nray]"""
    t = Toks(line)
    if t.error:
        return ('error', line[:200])
    head = t.tok()
    if head == 'reject':
        return ('reject', '')
    vals = np.array(t.floats(nsurf * nray * 8)).reshape(nsurf, nray, 8)
    return {f: vals[:, :, k] for k, f in enumerate(FIELDS)}
