"""Independent specification of the surface shapes (plain Python/NumPy written from the
published definitions, not from the implementation): sag, gradient of the sag, frame change."""
import math
import numpy as np


def rot_matrix(rx, ry, rz):
    """local -> global rotation used by optiland's globalize: Rx(rx) · Ry(ry) · Rz(rz) applied in
    the order z, y, x to the local vector"""
    cx, sx = math.cos(rx), math.sin(rx)
    cy, sy = math.cos(ry), math.sin(ry)
    cz, sz = math.cos(rz), math.sin(rz)
    Rx = np.array([[1, 0, 0], [0, cx, -sx], [0, sx, cx]])
    Ry = np.array([[cy, 0, sy], [0, 1, 0], [-sy, 0, cy]])
    Rz = np.array([[cz, -sz, 0], [sz, cz, 0], [0, 0, 1]])
    return Rx @ Ry @ Rz


def frame(cs):
    o = np.array([float(np.ravel(cs.x)[0]), float(np.ravel(cs.y)[0]), float(np.ravel(cs.z)[0])])
    Rm = rot_matrix(float(cs.rx), float(cs.ry), float(cs.rz))
    return o, Rm


def to_local(cs, P):
    o, Rm = frame(cs)
    return (np.asarray(P) - o) @ Rm          # R^T (P - o), row-vector form


def dir_to_global(cs, v):
    _, Rm = frame(cs)
    return np.asarray(v) @ Rm.T


def conic_sag(R, k, x, y):
    if math.isinf(R):
        return 0.0, (0.0, 0.0)
    r2 = x * x + y * y
    arg = 1 - (1 + k) * r2 / (R * R)
    if arg <= 0:
        return None, None
    s = math.sqrt(arg)
    z = r2 / (R * (1 + s))
    return z, (x / (R * s), y / (R * s))


def cheb_T(n, x):
    return math.cos(n * math.acos(max(-1.0, min(1.0, x))))


def cheb_dT(n, x):
    # n U_{n-1}(x)
    if n == 0:
        return 0.0
    th = math.acos(max(-1.0, min(1.0, x)))
    if abs(math.sin(th)) < 1e-12:
        return float(n * n) * (1.0 if x > 0 else (-1.0) ** (n + 1))
    return n * math.sin(n * th) / math.sin(th)


def shape(g, x, y):
    """true sag and true gradient (dz/dx, dz/dy) of geometry g at local (x, y); None outside domain"""
    name = type(g).__name__
    if name == 'Plane':
        return 0.0, (0.0, 0.0)
    R = float(g.radius)
    k = float(getattr(g, 'k', 0.0))
    z, grad = conic_sag(R, k, x, y)
    if z is None:
        return None, None
    gx, gy = grad
    if name == 'StandardGeometry':
        return z, (gx, gy)
    if name == 'EvenAsphere':
        r2 = x * x + y * y
        for i, c in enumerate(g.c):
            z += c * r2 ** (i + 1)
            gx += 2 * (i + 1) * c * x * r2 ** i
            gy += 2 * (i + 1) * c * y * r2 ** i
        return z, (gx, gy)
    if name == 'PolynomialGeometry':
        c = np.atleast_2d(g.c)
        for i in range(c.shape[0]):
            for j in range(c.shape[1]):
                if c[i, j] == 0:
                    continue
                z += c[i, j] * x ** i * y ** j
                if i >= 1:
                    gx += i * c[i, j] * x ** (i - 1) * y ** j
                if j >= 1:
                    gy += j * c[i, j] * x ** i * y ** (j - 1)
        return z, (gx, gy)
    if name == 'ChebyshevPolynomialGeometry':
        c = np.atleast_2d(g.c)
        xn, yn = x / g.norm_x, y / g.norm_y
        if abs(xn) > 1 or abs(yn) > 1:
            return None, None
        for i in range(c.shape[0]):
            for j in range(c.shape[1]):
                if c[i, j] == 0:
                    continue
                z += c[i, j] * cheb_T(i, xn) * cheb_T(j, yn)
                gx += c[i, j] * cheb_dT(i, xn) / g.norm_x * cheb_T(j, yn)
                gy += c[i, j] * cheb_T(i, xn) * cheb_dT(j, yn) / g.norm_y
        return z, (gx, gy)
    raise ValueError(name)


def unit_normal(grad):
    gx, gy = grad
    m = math.sqrt(gx * gx + gy * gy + 1)
    return np.array([gx / m, gy / m, -1 / m])
