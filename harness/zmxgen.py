"""Random well-formed sequential Zemax prescriptions and their .zmx text (C20).

A prescription is a JSON-able dict (what the generator *means*); `render` writes it as text the way
OpticStudio does (header, SURF blocks, lines the reader does not know, padding of XFLN/YFLN/WAVM),
in one of several number syntaxes that all round-trip exactly through `float()`.  Nothing here uses
the Lean model."""
import os, re, math, codecs

INF = 'inf'
META = set('.^$*+?{}[]\\|()')


# ------------------------------------------------------------------ catalogue knowledge (CSV only)
class Catalogue:
    def __init__(self, repo):
        import pandas as pd
        self.df = pd.read_csv(os.path.join(repo, 'database', 'catalog_nk.csv'))
        self.names = [str(v).lower() for v in self.df['name']]
        self.cats = [str(v).lower() for v in self.df['category_name']]
        self.files = [str(v) for v in self.df['filename']]
        self.blob = '\n'.join(self.names) + '\n' + '\n'.join(self.cats)
        self._exact = {}
        for i, (n, c) in enumerate(zip(self.names, self.cats)):
            self._exact.setdefault(n, set()).add(self.files[i])
            self._exact.setdefault(c, set()).add(self.files[i])
        ok = re.compile(r'^[A-Za-z0-9\-]+$')
        glass = [str(self.df['name'][i]) for i in range(len(self.df)) if self.files[i].startswith('glass/')]
        self.pool = sorted(set(n for n in glass if ok.match(n)))
        self.pool_meta = sorted(set(n for n in glass if not re.search(r'\s', n) and (set(n) & META)
                                    and n.isascii()))

    def exact_files(self, name):
        """catalogue files whose glass name (or page name) is exactly `name` (case-insensitive)"""
        return self._exact.get(name.lower(), set())

    def substring_hit(self, name):
        return name.lower() in self.blob

    def unknown_name(self, rng):
        while True:
            n = 'ZQ' + ''.join(rng.choice('XJQZVW') for _ in range(rng.randint(2, 4))) + str(rng.randint(0, 99))
            if not self.substring_hit(n):
                return n


# ------------------------------------------------------------------ numbers
def nice(rng, lo, hi, digits=None):
    d = rng.randint(0, 6) if digits is None else digits
    return round(rng.uniform(lo, hi), d)


def rnd_value(rng, lo, hi):
    """short decimal, full-precision double, or integer"""
    u = rng.random()
    if u < 0.45:
        return nice(rng, lo, hi)
    if u < 0.9:
        return rng.uniform(lo, hi)
    return float(int(rng.uniform(lo, hi)))


def fmt(rng, x):
    """text of x that float() maps back to exactly x"""
    if x != x or x in (math.inf, -math.inf):
        raise ValueError('non-finite number in a prescription')
    u = rng.random()
    if x == int(x) and abs(x) < 1e15 and u < 0.3 and not (x == 0 and math.copysign(1, x) < 0):
        return '%d' % int(x)
    if u < 0.55:
        return repr(x)
    if u < 0.75:
        s = '%.17E' % x                       # 1.23456789012345678E+01 -> three-digit exponent
        m, e = s.split('E')
        return '%sE%s%03d' % (m, e[0], int(e[1:]))
    if u < 0.85:
        return '%.18e' % x
    if u < 0.92 and 1e-4 < abs(x) < 1e6:
        return '%.25f' % x
    if u < 0.96 and x == int(x) and abs(x) < 1e15:
        return '%d.' % int(x) if not (x == 0 and math.copysign(1, x) < 0) else '-0.'
    return '%.17g' % x


# ------------------------------------------------------------------ prescriptions
def gen_presc(rng, cat, nsurf=None, catalog_rate=0.3, meta_rate=0.0, curved_image=0.0, glass_rate=0.5,
              max_vendors=3):
    n = nsurf or rng.choice([1, 2, 3, 4, 5, 6, 8, 10, 12, 16, 20, 25, 30, rng.randint(1, 30)])
    finite = rng.random() < 0.4
    surfs = []
    obj = {'type': 'standard', 'stop': False, 'curv': 0.0,
           'thick': rnd_value(rng, 10, 1000) if finite else INF, 'conic': None, 'glass': None, 'coeffs': []}
    surfs.append(obj)
    stop_at = rng.randint(1, n)
    in_glass = False
    for i in range(1, n + 1):
        s = {'type': 'standard', 'stop': i == stop_at, 'conic': None, 'glass': None, 'coeffs': []}
        u = rng.random()
        if u < 0.2:
            s['curv'] = rng.choice([0.0, 0.0, 0.0, -0.0])
        else:
            R = rnd_value(rng, 5, 500)
            s['curv'] = (1.0 / R if rng.random() < 0.7 else nice(rng, 0.001, 0.2, 6)) * rng.choice([1, -1])
        u = rng.random()
        if u < 0.1:
            s['conic'] = 0.0
        elif u < 0.4:
            s['conic'] = rnd_value(rng, -3, 1)
        if rng.random() < 0.25:
            s['type'] = 'even_asphere'
            R = 1.0 / abs(s['curv']) if s['curv'] != 0 else 100.0
            cs = []
            for k in range(8):
                if rng.random() < 0.5:
                    cs.append(0.0)
                else:
                    cs.append(rng.uniform(-1, 1) * 10.0 ** (-(3 + 2.5 * k)) / max(R, 1.0) * rng.choice([1, 1, 1e-3]))
            s['coeffs'] = cs
        # medium behind the surface
        if i < n and ((not in_glass and rng.random() < glass_rate) or (in_glass and rng.random() < 0.25)):
            u = rng.random()
            if u < meta_rate and cat.pool_meta:
                g = {'name': rng.choice(cat.pool_meta), 'kind': 'catalog'}
            elif u < meta_rate + catalog_rate:
                g = {'name': rng.choice(cat.pool), 'kind': 'catalog'}
                if rng.random() < 0.15:
                    g['name'] = g['name'].lower() if rng.random() < 0.5 else g['name'].upper()
            else:
                # model glasses: Zemax writes all of them under one placeholder name (e.g. ___BLANK) with
                # different nd / Vd, so the same unknown name recurs within a file
                prev = [t['glass']['name'] for t in surfs if t.get('glass') and t['glass']['kind'] == 'model']
                name = rng.choice(prev) if prev and rng.random() < 0.6 else cat.unknown_name(rng)
                g = {'name': name, 'kind': 'model'}
            g['nd'] = rnd_value(rng, 1.43, 1.95)
            g['vd'] = rnd_value(rng, 20, 90)
            s['glass'] = g
            in_glass = True
        else:
            in_glass = False
        u = rng.random()
        if u < 0.02 and i < n:
            s['thick'] = INF
        elif u < 0.08:
            s['thick'] = 0.0
        elif u < 0.12:
            s['thick'] = -rnd_value(rng, 0.1, 20)
        else:
            s['thick'] = rnd_value(rng, 0.5, 12) if in_glass else rnd_value(rng, 0.1, 60)
        surfs.append(s)
    img = {'type': 'standard', 'stop': False, 'curv': 0.0, 'thick': 0.0, 'conic': None, 'glass': None, 'coeffs': []}
    if rng.random() < curved_image:
        img['curv'] = -1.0 / rnd_value(rng, 20, 200)
        if rng.random() < 0.3:
            img['conic'] = rnd_value(rng, -2, 0.5)
    surfs.append(img)
    # aperture
    kinds = ['EPD', 'imageFNO'] + (['objectNA'] if finite else [])
    k = rng.choice(kinds)
    ap = [k, {'EPD': rnd_value(rng, 0.5, 30), 'imageFNO': rnd_value(rng, 1.0, 22),
              'objectNA': rnd_value(rng, 0.005, 0.3)}[k]]
    # fields
    ft = 'object_height' if (finite and rng.random() < 0.5) else 'angle'
    nf = rng.choice([1, 1, 2, 3, 3, 4, 5, 7, 12, rng.randint(1, 12)])
    ymax = rnd_value(rng, 0.5, 25)
    fields = []
    for j in range(nf):
        y = 0.0 if j == 0 and rng.random() < 0.7 else rnd_value(rng, -ymax if rng.random() < 0.2 else 0, ymax)
        x = 0.0 if rng.random() < 0.75 else rnd_value(rng, -ymax, ymax)
        fields.append([x, y])
    style = rng.random()
    if style < 0.55:
        fields.sort(key=lambda f: f[1])
    if rng.random() < 0.15 and nf < 12:
        fields.append(list(rng.choice(fields)))          # a repeated field point
    # wavelengths
    nw = rng.choice([1, 1, 2, 3, 3, 3, 4, 5, 8, 12, rng.randint(1, 12)])
    waves = [rnd_value(rng, 0.35, 2.0) for _ in range(nw)]
    if rng.random() < 0.5:
        waves.sort()
    primary = rng.randrange(nw)
    gcat = None
    if rng.random() < 0.8:
        gcat = rng.sample(['SCHOTT', 'OHARA', 'HOYA', 'CDGM', 'SUMITA', 'HIKARI', 'INFRARED', 'MISC'], rng.randint(1, max_vendors))
    return {'gcat': gcat, 'ap': ap, 'field_type': ft, 'tele': rng.random() < 0.1, 'fields': fields,
            'waves': waves, 'primary': primary, 'surfaces': surfs}


# ------------------------------------------------------------------ text
NOISE_HEAD = ['VERS 181010 255 36214', 'NAME {name}', 'PFIL 0 0 0', 'LANG 0', 'UNIT MM X W X CM MR CPMM',
              'ENVD 2.0E+1 1 0', 'GFAC 0 0', 'RAIM 0 0 1 1 0 0 0 0 0', 'PUSH 0 0 0 0 0 0', 'SDMA 0 1 0',
              'ROPD 2', 'PICB 1', 'NOTE 0 {name}', '', '   ', 'FWGN 1 1 1', 'GLRS 1 0', 'POLS 1 0 1 0 0 1 0',
              'TOL TOFF 0 0 0 0 0 0 0', 'MNUM 1 1', 'BLNK', 'COAT']
NOISE_SURF = ['  FIMP ', '  HIDE 0 0 0 0 0 0 0 0 0 0', '  MIRR 2 0', '  SLAB {i}', '  DIAM {d} 0 0 0 1 ""',
              '  POPS 0 0 0 0 0 0 0 0 1 1 1 1 0 0 0 0', '  COMM {name}', '  MEMA {d} 0 0 0 1 ""', '  FLAP 0 {d} 0',
              '', '  CLAP 0 {d} 0', '  OEMA 0.75 0 0 0 1 ""', '  XDAT 1 0 0 0']
NAMES = ['Triplet f/4', 'Objektiv für Tests', 'lentille é 50mm', 'テスト', 'lens-Ω', 'plain name']


def render(rng, p, canonical=True, noise=True):
    """returns (text lines, pads) with pads = {'x':[..],'y':[..],'w':[..]} (junk in the unused slots)"""
    name = rng.choice(NAMES)
    nf, nw = len(p['fields']), len(p['waves'])
    padx = [rng.choice([0.0, rnd_value(rng, -30, 30)]) for _ in range(rng.choice([0, 12 - nf, rng.randint(0, 3)]))]
    pady = [rng.choice([0.0, rnd_value(rng, -30, 30)]) for _ in range(rng.choice([0, 12 - nf, rng.randint(0, 3)]))]
    padw = [rng.choice([0.55, rnd_value(rng, 0.3, 2.0)]) for _ in range(rng.choice([0, 24 - nw, rng.randint(0, 3)]))]

    def f(x):
        return fmt(rng, x)
    k, v = p['ap']
    apline = {'EPD': 'ENPD %s' % f(v), 'imageFNO': 'FNUM %s 0' % f(v), 'objectNA': 'OBNA %s 0' % f(v)}[k]
    ftcode = {'angle': 0, 'object_height': 1}[p['field_type']]
    tail = rng.choice(['0 0 0', '0 0 0 0', '0 0 0 1', '0 0', '0', '', '0 0 0 0 0 0'])
    ftyp = ('FTYP %d %d %d %d %s' % (ftcode, 1 if p['tele'] else 0, nf, nw, tail)).rstrip()
    xfln = 'XFLN ' + ' '.join(f(q[0]) for q in p['fields']) + ''.join(' ' + f(q) for q in padx)
    yfln = 'YFLN ' + ' '.join(f(q[1]) for q in p['fields']) + ''.join(' ' + f(q) for q in pady)
    pwav = 'PWAV %d' % (p['primary'] + 1)
    wavm = ['WAVM %d %s %s' % (i + 1, f(w), rng.choice(['1', '1.0', '0.5']))
            for i, w in enumerate(list(p['waves']) + padw)]
    head = ['MODE SEQ', apline]
    if p['gcat'] is not None:
        head.append('GCAT ' + ' '.join(p['gcat']))
    head += [ftyp, xfln, yfln]
    if canonical or rng.random() < 0.5:
        head += [pwav] + wavm
    else:
        head += wavm + [pwav]
    if not canonical:
        # harmless permutations: aperture / MODE / GCAT may stand anywhere in the header
        for line in (apline, 'MODE SEQ'):
            head.remove(line)
            head.insert(rng.randint(0, len(head)), line)
    lines = ['VERS 181010 255 36214'] if noise else []
    for h in head:
        if noise and rng.random() < 0.5:
            lines.append(rng.choice(NOISE_HEAD).format(name=name))
        lines.append(h)
    for i, s in enumerate(p['surfaces']):
        blk = []
        if s['stop']:
            blk.append('  STOP')
        typ = '  TYPE ' + ('EVENASPH' if s['type'] == 'even_asphere' else 'STANDARD')
        curv = '  CURV %s%s' % (f(s['curv']), rng.choice(['', ' 0 0 0 0 ""', ' 0 0 0 0']))
        parm = ['  PARM %d %s' % (j + 1, f(c)) for j, c in enumerate(s['coeffs'])]
        disz = '  DISZ ' + ('INFINITY' if s['thick'] == INF else f(s['thick']))
        rest = []
        if s['glass'] is not None:
            g = s['glass']
            rest.append('  GLAS %s %s %s %s %s%s' % (g['name'], rng.choice(['0', '1', '2']), rng.choice(['0', '1']),
                                                      f(g['nd']), f(g['vd']), rng.choice(['', ' 0 0 0 0 0', ' -0.0008 0 0'])))
        if s['conic'] is not None:
            rest.append('  CONI %s' % f(s['conic']))
        if canonical:
            blk += [typ, curv] + parm + [disz] + rest
        else:
            body = [curv] + [disz] + rest + ([typ] if (s['type'] != 'standard' or rng.random() < 0.7) else [])
            rng.shuffle(body)
            if s['type'] != 'standard':
                # PARM lines keep their place relative to each other only by number, not by position
                parm2 = list(parm)
                rng.shuffle(parm2)
                body += parm2
                rng.shuffle(body)
            pos = rng.randint(0, len(body))
            body[pos:pos] = blk
            blk = body
        out = ['SURF %d' % i]
        for b in blk:
            if noise and rng.random() < 0.35:
                out.append(rng.choice(NOISE_SURF).format(i=i, d=f(nice(rng, 1, 30, 3)), name=name))
            out.append(b)
        if noise and rng.random() < 0.6:
            out.append(rng.choice(NOISE_SURF).format(i=i, d=f(nice(rng, 1, 30, 3)), name=name))
        lines += out
    if noise:
        lines += rng.choice([[], ['BLNK '], ['TOL TOFF 0 0 0 0 0 0 0', 'MNUM 1 1'], ['MOFF 0 1 "" 0 0 0 1 1 0 0.0 ""']])
    # white space variation
    out = []
    for l in lines:
        if l.strip() and rng.random() < 0.1:
            l = l.replace(' ', rng.choice(['  ', '\t', ' \t ']), 1) if rng.random() < 0.5 else l + rng.choice([' ', '\t', '  '])
        out.append(l)
    return out, {'x': padx, 'y': pady, 'w': padw}


ENCODINGS = ['utf-8', 'utf-8', 'utf-16', 'utf-16-be-bom', 'utf-8-sig']


def encode(lines, encoding, newline='\n'):
    text = newline.join(lines) + newline
    if encoding == 'utf-16-be-bom':
        return codecs.BOM_UTF16_BE + text.encode('utf-16-be')
    return text.encode(encoding)
