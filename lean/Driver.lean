import OptiModel.Drv.Parax
import OptiModel.Drv.Real
/-! `optidrv`: one command per input line, one answer per output line. -/
open Drv

def handlers : List (String × P String) := paraxHandlers ++ realHandlers

def handle (line : String) : String :=
  match (line.splitOn " ").filter (· ≠ "") with
  | [] => "bad-op"
  | cmd :: rest =>
    match handlers.lookup cmd with
    | none => "bad-op"
    | some p => match runP p rest with
      | .ok s => s
      | .error e => "error " ++ e

partial def loop (h : IO.FS.Stream) (out : IO.FS.Stream) : IO Unit := do
  let line ← h.getLine
  if line.isEmpty then return ()
  out.putStrLn (handle line.trimAsciiEnd.toString)
  loop h out

def main : IO Unit := do
  let out ← IO.getStdout
  loop (← IO.getStdin) out
  out.flush
