import OptiModel.Num
import OptiModel.Model.Parax
import OptiModel.Model.Presc
import OptiModel.Model.Real
import OptiModel.Proofs.NumReal
import OptiModel.Props.C02
import OptiModel.Props.C04
