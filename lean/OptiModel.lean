import OptiModel.Num
import OptiModel.Model.Parax
import OptiModel.Model.Real
import OptiModel.Props.C04
