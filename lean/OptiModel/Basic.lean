def hello := "world"
