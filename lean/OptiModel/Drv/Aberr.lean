import OptiModel.Drv.Proto
import OptiModel.Drv.Parax
import OptiModel.Model.Aberr
namespace Drv
open Model

/-- the 12 accessor arrays in the order of `third_order()` -/
def accessorArrays (P : Pre Float) (spec : Bool) : List (List Float) :=
  [P.TSC, P.SC, P.CC, P.TCC, P.TAC, P.AC, P.TPC, P.PC, P.DC, P.TAchC spec, P.LchC spec, P.TchC spec]

def thirdArrays (t : ThirdOrder Float) : List (List Float) :=
  [t.TSC, t.SC, t.CC, t.TCC, t.TAC, t.AC, t.TPC, t.PC, t.DC, t.TAchC, t.LchC, t.TchC]

/-- one variant: `N-2`, third_order (12 arrays + S), accessors (12 arrays), seidels (5),
operand sums (12), operand seidel 1..5, operand `X(optic,k)` for k = 0..N-3 (12 arrays) -/
def variantOut (P : Pre Float) (spec : Bool) : String :=
  let n2 := P.N - 2
  let t := P.thirdOrder spec
  let acc := accessorArrays P spec
  let ops := acc.map fun a => (List.range n2).map fun k => opAt a k
  let parts : List (List Float) :=
    thirdArrays t ++ [t.S] ++ acc ++ [P.seidels] ++ [acc.map opSum] ++
    [[1, 2, 3, 4, 5].map fun j => opSeidel P j] ++ ops
  toString n2 ++ " " ++ " ".intercalate (parts.map hexs)

/-- `aberr <sys> <nF> <nC>` → four variants (indices as coded / signed) × (colour terms as
coded / classical), then the classical contributions (7 per surface) of the signed variant -/
def aberrCmd : P String := do
  let S ← pSys
  let nF ← floats
  let nC ← floats
  let pc := precalcCode S nF nC
  let ps := precalcSpec S nF nC
  let cl := ps.classical
  pure (variantOut pc false ++ " " ++ variantOut pc true ++ " " ++ variantOut ps false ++ " " ++
        variantOut ps true ++ " " ++ hexs (cl.foldr (· ++ ·) []))

def aberrHandlers : List (String × P String) := [("aberr", aberrCmd)]
end Drv
