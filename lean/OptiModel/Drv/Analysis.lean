import OptiModel.Drv.Proto
import OptiModel.Model.Analysis
/-! Driver commands for the analysis model (C12).  Ray records travel as 7 floats
`x y z L M N intensity`.  Every answer is a sequence of groups `name none` or `name n v1 … vn`. -/
namespace Drv
open Model Model.An

def pRec : P (Ray Float) := do
  let x ← flt; let y ← flt; let z ← flt; let L ← flt; let M ← flt; let N ← flt; let i ← flt
  pure ⟨x, y, z, L, M, N, i, 0.0⟩

def pRecs : P (List (Ray Float)) := listOf pRec

def pInt : P Int := do
  let t ← tok
  match t.toInt? with
  | some n => pure n
  | none => throw s!"int:{t}"

def pDistType : P DistType := do
  match (← tok) with
  | "f-tan" => pure .ftan
  | "f-theta" => pure .ftheta
  | t => throw s!"disttype:{t}"

def grp (name : String) (l : List Float) : String :=
  if l.isEmpty then name ++ " 0" else name ++ " " ++ toString l.length ++ " " ++ hexs l
def grpNone (name : String) : String := name ++ " none"
def grpOpt (name : String) : Option (List Float) → String
  | some l => grp name l
  | none => grpNone name
def groups (l : List String) : String := " ".intercalate l

def pairsFlat (l : List (Float × Float)) : List Float := l.flatMap fun p => [p.1, p.2]

/-- `an-samples n` → the documented sample sets for `num_points = n` -/
def samplesCmd : P String := do
  let n ← nat
  let ext : List Float := gridExtent n
  pure (groups [grp "odd" [Float.ofNat (oddPoints n)], grp "fan" (fanPupil n), grp "dist" (distortionHy n),
    grp "ext" ext, grp "gridhx" ((gridH ext).map (·.1)), grp "gridhy" ((gridH ext).map (·.2)),
    grp "fchy" (fcHy n), grp "fcp" (fcPupil n), grp "rmshy" (rmsVsFieldHy n)])

def pSpotData : P (SpotData Float) := do
  let nf ← nat; let nw ← nat
  many nf (many nw (do pure (spotOfRays (← pRecs))))

def spotOutGroups (sfx : String) (o : SpotOut Float) : List String :=
  [grp ("centroid" ++ sfx) (pairsFlat o.centroid), grp ("rms" ++ sfx) o.rms.flatten, grp ("geo" ++ sfx) o.geo.flatten]

/-- `an-spot pidx primary <wls> nf nw <recs>… <nref> <recs>…` -/
def spotCmd : P String := do
  let pidx ← nat; let primary ← flt; let wls ← floats
  let data ← pSpotData
  let ref ← listOf (do pure (spotOfRays (← pRecs)))
  let code := match spotDiagram_code data pidx with
    | some o => spotOutGroups "_code" o
    | none => [grpNone "centroid_code", grpNone "rms_code", grpNone "geo_code"]
  let spec := spotOutGroups "_spec" (spotDiagram_spec data wls primary ref)
  pure (groups (code ++ spec))

/-- `an-ee numPoints nf nw <recs>…` → `r` and all curves concatenated -/
def eeCmd : P String := do
  let np ← nat
  let data ← pSpotData
  let cs := encircledEnergy data np
  pure (groups [grp "r" ((cs.head?.map (·.1)).getD []), grp "ee" (cs.flatMap (·.2)),
                grp "rmax" [eeRmax data]])

def fanFlat (d : List (List (Fan Float))) : List Float :=
  d.flatten.flatMap fun f => f.x ++ f.y

/-- `an-fan n primary <wls> nf nw {<recsX> <recsY>}… <nref> {x y}…` -/
def fanCmd : P String := do
  let n ← nat; let primary ← flt; let wls ← floats
  let nf ← nat; let nw ← nat
  let data ← many nf (many nw (do let rx ← pRecs; let ry ← pRecs; pure (fanOfRays rx ry)))
  let ref ← listOf (do let a ← flt; let b ← flt; pure (a, b))
  pure (groups [grpOpt "fan_code" ((rayFan_code wls primary data n).map fanFlat),
                grp "fan_spec" (fanFlat (rayFan_spec wls primary data n ref))])

/-- `an-dist type angle maxField <hy> <recs>` -/
def anDistCmd : P String := do
  let t ← pDistType; let angle ← bool; let mf ← flt
  let hy ← floats; let rs ← pRecs
  let yr := rs.map (·.y)
  pure (groups [grp "dist_code" (distortion_code t mf hy yr), grp "dist_spec" (distortion_spec angle t mf hy yr)])

def gridGroups (sfx : String) (g : GridOut Float) : List String :=
  [grp ("xr" ++ sfx) g.xr, grp ("yr" ++ sfx) g.yr, grp ("xp" ++ sfx) g.xp, grp ("yp" ++ sfx) g.yp,
   grp ("max" ++ sfx) [g.maxDistortion]]

/-- `an-grid type angle maxField n <rec0> <recs>` -/
def gridCmd : P String := do
  let t ← pDistType; let angle ← bool; let mf ← flt; let n ← nat
  let r0 ← pRec; let rs ← pRecs
  let ext : List Float := gridExtent n
  pure (groups (gridGroups "_code" (gridDistortion_code t mf r0.y ext rs) ++
                gridGroups "_spec" (gridDistortion_spec angle t mf r0.y ext rs)))

/-- `an-fc <recsT> <recsS>` -/
def fcCmd : P String := do
  let rt ← pRecs; let rs ← pRecs
  pure (grp "fc" (fcTangential rt ++ fcSagittal rs))

/-- `an-pupil d <paraxRef> <recsX at stop> <recsY at stop>` -/
def pupilCmd : P String := do
  let d ← flt; let pr ← floats; let rx ← pRecs; let ry ← pRecs
  let o := pupilAberration pr d rx ry
  pure (grp "pupil" (o.1 ++ o.2))

/-- `an-yybar label <ya> <yb>` → group `seg_<label>` -/
def yybarCmd : P String := do
  let label ← tok
  let ya ← floats; let yb ← floats
  pure (grp ("seg_" ++ label) ((yybarSegments ya yb).flatMap fun s => [s.1, s.2.1, s.2.2.1, s.2.2.2]))

/-- `an-oper surf nsurf {<recs>}…` → the six operands `x y z L M N` -/
def operCmd : P String := do
  let k ← pInt
  let recs ← listOf pRecs
  let vs := [RayField.x, .y, .z, .L, .M, .N].map (rayOperand recs k)
  if vs.all Option.isSome then pure (grp "oper" (vs.map (·.getD 0.0))) else pure (grpNone "oper")

/-- `an-oprms <recs>` -/
def opRmsCmd : P String := do
  let rs ← pRecs
  pure (grp "rms1" [opRmsSingle rs])

/-- `an-oprmsall pidx nw {<recs>}…` -/
def opRmsAllCmd : P String := do
  let pidx ← nat
  let rss ← listOf pRecs
  pure (grp "rmsall" [opRmsAll rss pidx])

def analysisHandlers : List (String × P String) :=
  [("an-samples", samplesCmd), ("an-spot", spotCmd), ("an-ee", eeCmd), ("an-fan", fanCmd),
   ("an-dist", anDistCmd), ("an-grid", gridCmd), ("an-fc", fcCmd), ("an-pupil", pupilCmd),
   ("an-yybar", yybarCmd), ("an-oper", operCmd), ("an-oprms", opRmsCmd), ("an-oprmsall", opRmsAllCmd)]
end Drv
