import OptiModel.Drv.Parax
import OptiModel.Drv.Real
import OptiModel.Model.Effects
namespace Drv
open Model hiding Op step
open Model.Fx

/-- bit equality of float lists (table keys) -/
def bitsEq (a b : List Float) : Bool :=
  a.length == b.length && (a.zip b).all fun p => p.1.toBits == p.2.1.toBits

def fxPField : P (FieldPt Float) := do
  let x ← flt; let y ← flt; let vx ← flt; let vy ← flt
  pure ⟨x, y, vx, vy⟩

/-- real-tracer view of the lens at one wavelength: `w nsurf surfs…` -/
def pRealAt : P (Float × List (RSurf Float)) := do
  let w ← flt
  let surfs ← listOf pRSurf
  pure (w, surfs)

structure VigEntry where
  hx : List Float
  hy : List Float
  vx : List Float
  vy : List Float

def pVig : P VigEntry := do
  let hx ← floats; let hy ← floats; let vx ← floats; let vy ← floats
  pure ⟨hx, hy, vx, vy⟩

structure GenEntry where
  hx : List Float
  hy : List Float
  px : List Float
  py : List Float
  w : Float
  rays : List (Ray Float)

def pGen : P GenEntry := do
  let hx ← floats; let hy ← floats; let px ← floats; let py ← floats
  let w ← flt
  let rays ← listOf pRay
  pure ⟨hx, hy, px, py, w, rays⟩

def pArg : P (Arg Float) := do
  match (← tok) with
  | "s" => do pure (.scalar (← flt))
  | "a" => do pure (.arr (← nat))
  | "f" => do pure (.fresh (← floats))
  | t => throw s!"arg:{t}"

def pQuery : P Query := do
  match (← tok) with
  | "f1" => pure .f1 | "f2" => pure .f2 | "F1" => pure .F1 | "F2" => pure .F2
  | "P1" => pure .P1 | "P2" => pure .P2 | "N1" => pure .N1 | "N2" => pure .N2
  | "EPL" => pure .EPL | "EPD" => pure .EPD | "XPL" => pure .XPL | "XPD" => pure .XPD
  | "FNO" => pure .FNO | "magnification" => pure .magnification | "invariant" => pure .invariant
  | "marginal_ray" => pure .marginalRay | "chief_ray" => pure .chiefRay
  | t => throw s!"query:{t}"

def pCall : P (Call Float) := do
  match (← tok) with
  | "t" => do
    let hx ← flt; let hy ← flt; let w ← flt
    let pts ← listOf (do let x ← flt; let y ← flt; pure (x, y))
    pure (.trace hx hy w pts)
  | "g" => do
    let hx ← pArg; let hy ← pArg; let px ← pArg; let py ← pArg; let w ← flt
    pure (.traceGeneric hx hy px py w)
  | "q" => do pure (.query (← pQuery))
  | "p" => do
    let hy ← flt; let py ← floats
    pure (.paraxTrace hy py)
  | t => throw s!"call:{t}"

def shapeStr (recs : Recs Float) : String :=
  toString recs.length ++ " " ++ " ".intercalate (recs.map fun r => s!"{r.shape.1} {r.shape.2}")

def heapStr (h : Heap Float) : String :=
  toString h.length ++ " " ++ " ".intercalate (h.map fun a => toString a.length ++ " " ++ hexs a)

def valStr (v : Val Float) : String :=
  (if v.err then "1" else "0") ++ " " ++ toString v.nums.length ++ " " ++ hexs v.nums ++ " " ++
    toString v.rays.length ++ " " ++ " ".intercalate (v.rays.map rayHex)

/-- `fxseq code <psys> <fields> <real tables> <vig table> <gen table> <heap> <calls>` →
after every call: `err nums rays ; record shapes ; heap`, calls separated by ` | ` -/
def fxseqCmd : P String := do
  let code ← bool
  let S ← pSys
  let fields ← listOf fxPField
  let reals ← listOf pRealAt
  let vigs ← listOf pVig
  let gens ← listOf pGen
  let heap ← listOf floats
  let calls ← listOf pCall
  let L : Lens Float := ⟨S, fields, fun w =>
    match reals.find? (fun e => e.1.toBits == w.toBits) with
    | some e => e.2
    | none => []⟩
  let env : Env Float := {
    vig := fun _ hx hy =>
      match vigs.find? (fun e => bitsEq e.hx hx && bitsEq e.hy hy) with
      | some e => (e.vx, e.vy)
      | none => ([0.0 / 0.0], [0.0 / 0.0]),
    gen := fun _ g =>
      match gens.find? (fun e => bitsEq e.hx g.hx && bitsEq e.hy g.hy && bitsEq e.px g.px &&
                                   bitsEq e.py g.py && e.w.toBits == g.w.toBits) with
      | some e => e.rays
      | none => [] }
  let nsurf := S.surfs.length
  let mut s : St Float := ⟨L, List.replicate nsurf Rec.empty, heap⟩
  let mut out : List String := []
  for c in calls do
    let t := step env code s (.call c)
    s := t.1
    -- for `Paraxial.trace` the observable result is the records: append `y` and `u` of every surface
    let v : Val Float := match c with
      | .paraxTrace _ _ => { t.2 with nums := (groupY s.records).flatten ++ (groupU s.records).flatten }
      | _ => t.2
    out := (valStr v ++ " ; " ++ shapeStr s.records ++ " ; " ++ heapStr s.heap) :: out
  pure (" | ".intercalate out.reverse)

def effectsHandlers : List (String × P String) := [("fxseq", fxseqCmd)]
end Drv
