import OptiModel.Drv.Real
import OptiModel.Model.DualF
/-! `jet`: the real tracer evaluated over first-order jets (C05). -/
namespace Drv
open Model

def liftF (x : Float) : DualF := ⟨x, 0⟩

def liftGeom : Geom Float → Geom DualF
  | .plane => .plane
  | .standard R k => .standard (liftF R) (liftF k)
  | .evenAsphere R k tol mi c => .evenAsphere (liftF R) (liftF k) (liftF tol) mi (c.map liftF)
  | .polynomial R k tol mi c => .polynomial (liftF R) (liftF k) (liftF tol) mi (c.map (·.map liftF))
  | .chebyshev R k tol mi c nx ny =>
      .chebyshev (liftF R) (liftF k) (liftF tol) mi (c.map (·.map liftF)) (liftF nx) (liftF ny)

def liftSurf (s : RSurf Float) : RSurf DualF :=
  { kind := s.kind,
    cs := ⟨liftF s.cs.x, liftF s.cs.y, liftF s.cs.z, liftF s.cs.rx, liftF s.cs.ry, liftF s.cs.rz⟩,
    geom := liftGeom s.geom, n1 := liftF s.n1, n2 := liftF s.n2, k1 := liftF s.k1, refl := s.refl,
    aperture := s.aperture.map fun p => (liftF p.1, liftF p.2),
    coating := s.coating.map fun p => (liftF p.1, liftF p.2) }

/-- `jet w <nsurf> surfs… <nrays> (y1 m1 z0)*`: seeds the axial ray at `z0` with
`y = 0 + ε y1`, `M = 0 + ε m1`, `N = 1`; answers the ε-coefficients of `y` and of `M/N`
(and the value parts, which must be 0) at every surface. -/
def jetCmd : P String := do
  let w ← flt
  let surfs ← listOf pRSurf
  let seeds ← listOf (do let a ← flt; let b ← flt; let c ← flt; pure (a, b, c))
  let rays : List (Ray DualF) := seeds.map fun (y1, m1, z0) =>
    ⟨⟨0, 0⟩, ⟨0, y1⟩, ⟨z0, 0⟩, ⟨0, 0⟩, ⟨0, m1⟩, ⟨1, 0⟩, ⟨1, 0⟩, ⟨0, 0⟩⟩
  let recs := traceLens (liftF w) (surfs.map liftSurf) rays
  let out := recs.map fun rs => " ".intercalate (rs.map fun r =>
    let t := Num.div r.M r.N
    hexs [r.y.d, t.d, r.y.v, t.v])
  pure (" ".intercalate out)

def jetHandlers : List (String × P String) := [("jet", jetCmd)]
end Drv
