import OptiModel.Drv.Proto
import OptiModel.Model.Material
import OptiModel.Gen.Catalog
/-! Driver commands for the material model (C18).  Strings travel as `<len> cp cp …` (decimal code
points); optional results as `1 <hex>` / `0`. -/
namespace Drv
open Model.Mat

def optHex : Option Float → String
  | some v => "1 " ++ hexOf v
  | none => "0"

def pStr : P Str := listOf nat

def strOut (s : Str) : String :=
  toString s.length ++ (s.foldl (fun acc c => acc ++ " " ++ toString c) "")

/-- `nform k <ncoef> c… <nw> w…` → per wavelength: code result (optional) and specification value -/
def nformCmd : P String := do
  let k ← nat
  let c ← floats
  let ws ← floats
  let parts := ws.map fun w => optHex (formula_code k c w) ++ " " ++ hexOf (formula_spec k c w)
  pure (toString ws.length ++ " " ++ " ".intercalate parts)

def pKnots : P (List (Float × Float)) := do
  let n ← nat
  many n (do let x ← flt; let f ← flt; pure (x, f))

/-- `ninterp <nknots> (x f)… <nw> w…` → per wavelength the optional `np.interp` value -/
def ninterpCmd : P String := do
  let kn ← pKnots
  let ws ← floats
  pure (toString ws.length ++ " " ++ " ".intercalate (ws.map fun w => optHex (interp w kn)))

/-- `polyval <np> p… <nw> w…` -/
def polyvalCmd : P String := do
  let p ← floats
  let ws ← floats
  pure (hexs (ws.map (polyval p)))

/-- `abbecoef n V <ncols> (<6> col…)…` → the polynomial coefficients -/
def abbecoefCmd : P String := do
  let n ← flt
  let v ← flt
  let cols ← listOf floats
  pure (hexs (abbeCoeffs n v cols))

/-- `abbe nd nF nC` → `(nd-1)/(nF-nC)` followed by the three wavelengths the model uses -/
def abbeCmd : P String := do
  let nd ← flt; let nf ← flt; let nc ← flt
  let tbl : Float → Float := fun w =>
    if w == (lamD : Float) then nd else if w == (lamF : Float) then nf else nc
  pure (hexs [abbe tbl, (lamD : Float), (lamF : Float), (lamC : Float)])

/-- `lev <s1> <s2>` → DP value and recurrence value -/
def levCmd : P String := do
  let s1 ← pStr
  let s2 ← pStr
  pure (toString (levDP s1 s2) ++ " " ++ toString (levSpec s1 s2))

/-- the regenerated catalogue as the lookup sees it (computed once at start-up) -/
def catLRows : List LRow := lrows Gen.Catalog.rows
def catArr : Array Row := Gen.Catalog.rows.toArray

def catlenCmd : P String := pure (toString catArr.size ++ " " ++ Gen.Catalog.csvSha256)

/-- `catrow i` → the eight fields of row `i` -/
def catrowCmd : P String := do
  let i ← nat
  match catArr[i]? with
  | none => throw "row index"
  | some r =>
    pure (" ".intercalate ([r.group, r.cat, r.catFull, r.ref, r.name, r.file, r.wmin, r.wmax].map
      fun p => strOut p.str))

/-- `catamb` → indices of rows whose name is on the exception list of `lookup_exact_name` -/
def catambCmd : P String := do
  let idx := (catLRows.filter fun lr => Gen.Catalog.ambiguous.any (·.beq lr.row.name)).map (·.idx)
  pure (toString idx.length ++ " " ++ " ".intercalate (idx.map toString))

def rowsOut (l : List LRow) : String :=
  "rows " ++ toString l.length ++ (l.foldl (fun acc r => acc ++ " " ++ toString r.idx) "")

/-- `lookup <sem: 0 spec | 1 code> <name> <hasref> [<ref>]` → `rows k idx…` | `reerr` | `unmodelled` -/
def lookupCmd : P String := do
  let sem ← nat
  let name ← pStr
  let hasref ← bool
  let ref ← if hasref then (do let r ← pStr; pure (some r)) else pure none
  if sem == 0 then
    pure (rowsOut (lookup_spec catLRows name ref))
  else
    match lookup_code catLRows name ref with
    | .rows l => pure (rowsOut l)
    | .reError => pure "reerr"
    | .unmodelled => pure "unmodelled"

def materialHandlers : List (String × P String) :=
  [("nform", nformCmd), ("ninterp", ninterpCmd), ("polyval", polyvalCmd), ("abbecoef", abbecoefCmd),
   ("abbe", abbeCmd), ("lev", levCmd), ("catlen", catlenCmd), ("catrow", catrowCmd),
   ("catamb", catambCmd), ("lookup", lookupCmd)]
end Drv
