import OptiModel.Drv.Presc
import OptiModel.Model.Optim
/-! Driver commands for C14: `optvar` (one variable: value / scale / inverse_scale / bounds / update),
`merit` (sum of squared weighted deltas, NaN guard), `optrun` (the `_fun` / optimize / undo protocol
replayed on a recorded evaluation sequence, code or spec variant per step). -/
namespace Drv
open Model Model.Optim
namespace Optim

/-- `apType apValue fieldType maxY objInf <nops> ops… <npoly> (surf rows cols vals…)…` → lens -/
def pLens (guarded : Bool) : P (Lens Float) := do
  let ap ← tok
  let apType := match ap with | "EPD" => ApType.EPD | "imageFNO" => .imageFNO | _ => .objectNA
  let apValue ← flt
  let ft ← tok
  let fieldType := if ft == "angle" then FieldType.angle else .objectHeight
  let maxY ← flt
  let objInf ← bool
  let ops ← listOf pOp
  let P0 : Presc Float := { lastThickness := 0, apValue := apValue, maxYField := maxY, apType := apType,
                            fieldType := fieldType, objInf := objInf }
  let P := if guarded then runOpsGuarded P0 ops else runOps P0 ops
  let tables ← listOf (do
    let k ← nat; let r ← nat; let c ← nat
    let rows ← many r (many c flt)
    pure (k, rows))
  let poly := (List.range P.surfs.length).map fun k =>
    match tables.lookup k with | some t => t | none => []
  pure { presc := P, poly := poly }

def pKind : P VKind := do
  match (← tok) with
  | "radius" => pure .radius
  | "conic" => pure .conic
  | "thickness" => pure .thickness
  | "tiltx" => pure (.tilt true)
  | "tilty" => pure (.tilt false)
  | "decx" => pure (.decenter true)
  | "decy" => pure (.decenter false)
  | "index" => pure .index
  | "asph" => do pure (.asphere (← nat))
  | "poly" => do let i ← nat; pure (.poly i (← nat))
  | "cheb" => do let i ← nat; pure (.cheb i (← nat))
  | t => throw s!"kind:{t}"

def pOpt : P (Option Float) := do
  if (← bool) then pure (some (← flt)) else pure none

def pVar : P (Variable Float) := do
  let kind ← pKind
  let surf ← nat
  let scaling ← bool
  let mn ← pOpt
  let mx ← pOpt
  pure { kind := kind, surf := surf, scaling := scaling, minVal := mn, maxVal := mx }

def optHex : Option Float → String
  | none => "none"
  | some x => hexOf x

def polyOut (L : Lens Float) : String :=
  let tabs := (L.poly.zipIdx).filter fun p => !p.1.isEmpty
  toString tabs.length ++ tabs.foldl (fun acc p =>
    acc ++ " " ++ toString p.2 ++ " " ++ toString p.1.length ++ " " ++ toString (p.1.headD []).length ++
      (p.1.foldl (fun a row => row.foldl (fun a x => a ++ " " ++ hexOf x) a) "")) ""

def lensOut (L : Lens Float) : String := snapshot true L.presc ++ " | " ++ polyOut L

/-- `optvar <guarded solves 0|1> <lens> <var> x` →
`value scale(x) inv(x) boundsCode boundsSpec value(update x) | snapshot(update x) | tables` -/
def optvarCmd : P String := do
  let guarded ← bool
  let L ← pLens guarded
  let v ← pVar
  let x ← flt
  let L' := v.update L x
  let bc := v.boundsCode
  let bs := v.boundsSpec
  pure (hexs [v.value L, v.kind.scale x, v.kind.invScale x] ++ " " ++ optHex bc.1 ++ " " ++ optHex bc.2 ++
        " " ++ optHex bs.1 ++ " " ++ optHex bs.2 ++ " " ++ hexOf (v.value L') ++ " | " ++ lensOut L')

/-- `merit n (w v t)…` → `sum_squared  _fun-value` -/
def meritCmd : P String := do
  let rows ← listOf (do let w ← flt; let v ← flt; let t ← flt; pure (w, v, t))
  let r := meritOf rows
  pure (hexs [r, guardNaN r])

inductive RStep where
  | opt (spec : Bool) (pts : List (List Float)) (xstar : List Float)
  | undo (spec : Bool)

def pRStep (n : Nat) : P RStep := do
  match (← tok) with
  | "opt" => do
    let spec ← bool
    let pts ← listOf (many n flt)
    let xs ← many n flt
    pure (.opt spec pts xs)
  | "undo" => do pure (.undo (← bool))
  | t => throw s!"step:{t}"

/-- `optrun <guarded solves 0|1> <lens> <nvars> vars… <nsteps> steps…` → after every step `n values… | snapshot | tables`,
separated by ` || ` -/
def optrunCmd : P String := do
  let guarded ← bool
  let L ← pLens guarded
  let vars ← listOf pVar
  let n := vars.length
  let steps ← listOf (pRStep n)
  let pb := if guarded then lensProblemGuarded vars [] else lensProblem vars []
  let st0 : OptState (Lens Float) Float := { lens := L }
  let (_, outs) := steps.foldl (fun (acc : OptState (Lens Float) Float × List String) stp =>
    let st' := match stp with
      | .opt spec pts xs =>
        let o := replayOracle pts (xs, 0)
        if spec then (optimizeSpec pb o acc.1).1 else (optimizeCode pb o acc.1).1
      | .undo spec => if spec then undoSpec pb acc.1 else undoCode pb acc.1
    (st', (toString n ++ " " ++ hexs (values pb st'.lens) ++ " | " ++ lensOut st'.lens) :: acc.2)) (st0, [])
  pure (" || ".intercalate outs.reverse)

end Optim

def optimHandlers : List (String × P String) :=
  [("optvar", Optim.optvarCmd), ("merit", Optim.meritCmd), ("optrun", Optim.optrunCmd)]
end Drv
