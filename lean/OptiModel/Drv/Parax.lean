import OptiModel.Drv.Proto
import OptiModel.Model.Parax
namespace Drv
open Model

def pKind : P SKind := do
  match (← tok) with
  | "o" => pure .object
  | "i" => pure .image
  | _ => pure .standard

def pSurf : P (PSurf Float) := do
  let kind ← pKind
  let dy ← flt; let z ← flt; let r ← flt; let n1 ← flt; let n2 ← flt
  let refl ← bool; let stop ← bool
  pure ⟨kind, dy, z, r, n1, n2, refl, stop⟩

def pSys : P (PSys Float) := do
  let ap ← tok
  let apType := match ap with | "EPD" => ApType.EPD | "imageFNO" => .imageFNO | _ => .objectNA
  let apValue ← flt
  let ft ← tok
  let fieldType := if ft == "angle" then FieldType.angle else .objectHeight
  let maxY ← flt
  let objInf ← bool
  let surfs ← listOf pSurf
  pure ⟨surfs, apType, apValue, fieldType, maxY, objInf⟩

def yu (rs : List (PRay Float)) : String :=
  toString rs.length ++ " " ++ " ".intercalate (rs.map fun r => hexOf r.y ++ " " ++ hexOf r.u)

/-- `paraxall <sys>` → all scalar queries and both rays -/
def paraxAll : P String := do
  let S ← pSys
  let sc := [f1 S, f2 S, F1 S, F2 S, P1 S, P2 S, N1 S, N2 S, EPL S, EPD S, XPL S, XPD S, FNO S,
             magnification S, invariant S]
  pure (hexs sc ++ " " ++ yu (marginalRay S) ++ " " ++ yu (chiefRay S))

/-- `ptrace y u z reverse skip <nsurf> surfs…` → `_trace_generic` records -/
def ptraceCmd : P String := do
  let y ← flt; let u ← flt; let z ← flt; let rev ← bool; let skip ← nat
  let surfs ← listOf pSurf
  pure (yu (traceGeneric surfs y u z rev skip))

def paraxHandlers : List (String × P String) :=
  [("paraxall", paraxAll), ("ptrace", ptraceCmd)]
end Drv
