import OptiModel.Drv.Proto
import OptiModel.Model.Polar
/-! Driver commands of property C17 (polarization model at `Float`). -/
namespace Drv
open Model.Polar

def pV3 : P (V3 Float) := do
  let x ← flt; let y ← flt; let z ← flt
  pure ⟨x, y, z⟩

def cxHex (c : Cx Float) : String := hexOf c.re ++ " " ++ hexOf c.im

def m3cHex (m : M3 (Cx Float)) : String :=
  " ".intercalate ([m.a00, m.a01, m.a02, m.a10, m.a11, m.a12, m.a20, m.a21, m.a22].map cxHex)

def v3cHex (v : V3 (Cx Float)) : String := " ".intercalate ([v.x, v.y, v.z].map cxHex)

/-- `polfresnel n1 n2 aoi reflect` → s p k (each re im) -/
def polFresnelCmd : P String := do
  let n1 ← flt; let n2 ← flt; let aoi ← flt; let r ← bool
  let j := fresnel n1 n2 aoi r
  pure (" ".intercalate [cxHex j.s, cxHex j.p, cxHex j.k])

/-- `polaoi nx ny nz L0 M0 N0` → aoi -/
def polAoiCmd : P String := do
  let n ← pV3; let k ← pV3
  pure (hexOf (computeAoi n k))

/-- `polelem <kind> params…` → 9 complex entries (diattenuator: code then spec) -/
def polElemCmd : P String := do
  match (← tok) with
  | "H" => pure (m3cHex (polarizerH (α := Float)).toM3)
  | "V" => pure (m3cHex (polarizerV (α := Float)).toM3)
  | "L45" => pure (m3cHex (polarizerL45 (α := Float)).toM3)
  | "L135" => pure (m3cHex (polarizerL135 (α := Float)).toM3)
  | "RCP" => pure (m3cHex (polarizerRCP (α := Float)).toM3)
  | "LCP" => pure (m3cHex (polarizerLCP (α := Float)).toM3)
  | "diat" => do
    let tmin ← flt; let tmax ← flt; let th ← flt
    pure (m3cHex (diattenuator_code tmin tmax th).toM3 ++ " " ++ m3cHex (diattenuator_spec tmin tmax th).toM3)
  | "ret" => do
    let d ← flt; let t ← flt
    pure (m3cHex (retarder d t).toM3)
  | "qwp" => do
    let t ← flt
    pure (m3cHex (quarterWave t).toM3)
  | "hwp" => do
    let t ← flt
    pure (m3cHex (halfWave t).toM3)
  | k => throw s!"elem:{k}"

def stateHex (s : PolState Float) : String :=
  (if s.isPol then "1 " else "0 ") ++ hexs [s.Ex, s.Ey, s.px, s.py]

def pState : P (PolState Float) := do
  let isPol ← bool
  let ex ← flt; let ey ← flt; let px ← flt; let py ← flt
  pure (if isPol then polarized ex ey px py else unpolarized)

/-- `polstate Ex Ey px py` → normalised state -/
def polStateCmd : P String := do
  let ex ← flt; let ey ← flt; let px ← flt; let py ← flt
  pure (stateHex (polarized ex ey px py))

/-- `polnamed <name>` → `ok <state>` or `value-error` -/
def polNamedCmd : P String := do
  match PolName.ofString (← tok) with
  | none => pure "value-error"
  | some n => pure ("ok " ++ stateHex (createPolarization n))

/-- `polsurf <state> k0 k1 coated [reflect n1 n2 normal]` → 9 complex entries of the surface matrix
(`FresnelCoating.interact` when coated, `rays.update()` otherwise) applied to `np.eye(3)`, then
`update_intensity(state)` for a ray launched along `k0` with unit intensity, and the output field -/
def polSurfCmd : P String := do
  let st ← pState
  let k0 ← pV3; let k1 ← pV3
  let ev : PolEvent Float ←
    if (← bool) then do
      let r ← bool; let n1 ← flt; let n2 ← flt; let n ← pV3
      pure (fresnelEvent k0 k1 n n1 n2 r)
    else pure ⟨k0, k1, none⟩
  let p := tracePol [ev]
  let i := updateIntensity p st k0 1.0
  let E : V3 (Cx Float) := if st.isPol then outputField p (field3d st k0) else ⟨.zero, .zero, .zero⟩
  pure (m3cHex p.toC ++ " " ++ hexOf i ++ " " ++ v3cHex E)

def pEvent : P (PolEvent Float) := do
  let k0 ← pV3; let k1 ← pV3
  if (← bool) then
    let r ← bool; let n1 ← flt; let n2 ← flt; let aoi ← flt
    pure ⟨k0, k1, some (fresnel n1 n2 aoi r).toM3⟩
  else pure ⟨k0, k1, none⟩

/-- `poltrace <state> kinit i0 <nev> events…` → `rays.p` (9 complex), `rays.i`, output field
(3 complex; zeros for the unpolarized state) -/
def polTraceCmd : P String := do
  let st ← pState
  let k ← pV3
  let i0 ← flt
  let evs ← listOf pEvent
  let p := tracePol evs
  let i := updateIntensity p st k i0
  let E : V3 (Cx Float) := if st.isPol then outputField p (field3d st k) else ⟨.zero, .zero, .zero⟩
  pure (m3cHex p.toC ++ " " ++ hexOf i ++ " " ++ v3cHex E)

def polarHandlers : List (String × P String) :=
  [("polfresnel", polFresnelCmd), ("polaoi", polAoiCmd), ("polelem", polElemCmd),
   ("polstate", polStateCmd), ("polnamed", polNamedCmd), ("polsurf", polSurfCmd),
   ("poltrace", polTraceCmd)]
end Drv
