import OptiModel.Drv.Proto
import OptiModel.Model.Presc
namespace Drv
open Model

def pGK : P GKind := do
  match (← tok) with
  | "p" => pure .plane
  | "s" => pure .standard
  | "a" => pure .evenAsphere
  | "y" => pure .polynomial
  | _ => pure .chebyshev

def pMat : P (MatSpec Float) := do
  match (← tok) with
  | "a" => pure .air
  | "m" => pure .mirror
  | _ => do pure (.ideal (← flt))

def pOp : P (Op Float) := do
  match (← tok) with
  | "add" => do
    let index ← nat; let gk ← pGK; let rinf ← bool; let radius ← flt; let conic ← flt
    let thickness ← flt; let mat ← pMat; let stop ← bool
    let dx ← flt; let dy ← flt; let rx ← flt; let ry ← flt; let coeffs ← floats
    pure (.add ⟨index, gk, rinf, radius, conic, thickness, mat, stop, dx, dy, rx, ry, coeffs⟩)
  | "rm" => do pure (.remove (← nat))
  | "sr" => do let v ← flt; pure (.setRadius v (← nat))
  | "sc" => do let v ← flt; pure (.setConic v (← nat))
  | "st" => do let v ← flt; pure (.setThickness v (← nat))
  | "si" => do let v ← flt; pure (.setIndex v (← nat))
  | "sa" => do let v ← flt; let k ← nat; pure (.setCoeff v k (← nat))
  | "tx" => do let v ← flt; pure (.setTiltX v (← nat))
  | "ty" => do let v ← flt; pure (.setTiltY v (← nat))
  | "ddx" => do let v ← flt; pure (.setDecX v (← nat))
  | "ddy" => do let v ← flt; pure (.setDecY v (← nat))
  | "aw" => do let v ← flt; pure (.addWave v (← bool))
  | "pk" => do
    let src ← nat
    let attr ← tok
    let tgt ← nat; let sc ← flt; let off ← flt
    let a := match attr with | "radius" => PickAttr.radius | "conic" => .conic | _ => .thickness
    pure (.pickupAdd ⟨src, a, tgt, sc, off⟩)
  | "sv" => do let idx ← nat; pure (.solveAdd ⟨idx, ← flt⟩)
  | "up" => pure .update
  | "is" => pure .imageSolve
  | "ss" => do
    let s ← flt
    let ri ← listOf bool
    let ti ← listOf bool
    pure (.scale s ri ti)
  | t => throw s!"op:{t}"

def snapshot (ok : Bool) (P : Presc Float) : String :=
  let surf (s : SRec Float) : String :=
    hexs [s.z, s.radius, s.conic, matN P s.mPost, s.rx, s.ry, s.dx, s.dy] ++ " " ++
    (if s.stop then "1" else "0") ++ " " ++ toString s.mPre ++ " " ++ toString s.mPost ++ " " ++
    toString s.coeffs.length ++ (s.coeffs.foldl (fun acc c => acc ++ " " ++ hexOf c) "")
  (if ok then "ok " else "err ") ++ toString P.surfs.length ++ " " ++
    " ".intercalate (P.surfs.map surf) ++ " " ++
    (match primaryIndex P with | some i => toString i | none => "none") ++ " " ++ toString P.waves.length ++
    " " ++ (match stopIndexP P with | some i => toString i | none => "none") ++ " " ++ hexOf P.apValue

/-- `presc apType apValue fieldType maxY objInf <nops> ops…` → one snapshot per op, separated by `|` -/
def prescCmd : P String := do
  let ap ← tok
  let apType := match ap with | "EPD" => ApType.EPD | "imageFNO" => .imageFNO | _ => .objectNA
  let apValue ← flt
  let ft ← tok
  let fieldType := if ft == "angle" then FieldType.angle else .objectHeight
  let maxY ← flt
  let objInf ← bool
  let ops ← listOf pOp
  let P0 : Presc Float := { lastThickness := 0, apValue := apValue, maxYField := maxY, apType := apType,
                            fieldType := fieldType, objInf := objInf }
  let (_, outs) := ops.foldl (fun (acc : Presc Float × List String) op =>
    match step acc.1 op with
    | .ok P' => (P', snapshot true P' :: acc.2)
    | .error _ => (acc.1, snapshot false acc.1 :: acc.2)) (P0, [])
  pure (" | ".intercalate outs.reverse)

def prescHandlers : List (String × P String) := [("presc", prescCmd)]
end Drv
