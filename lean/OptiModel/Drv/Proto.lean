import OptiModel.Num
/-! Line protocol of the driver: whitespace-separated tokens; floats as 16 hex digits of the
IEEE-754 bit pattern (exact in both directions); naturals in decimal; booleans 0/1. -/
namespace Drv

def hexOf (x : Float) : String :=
  let s := String.ofList (Nat.toDigits 16 x.toBits.toNat)
  String.ofList (List.replicate (16 - s.length) '0') ++ s

def ofHex (s : String) : Float :=
  let n := s.foldl (fun acc c =>
    let d := if c.isDigit then c.toNat - '0'.toNat else c.toNat - 'a'.toNat + 10
    acc * 16 + d) 0
  Float.ofBits n.toUInt64

/-- token reader -/
abbrev P := StateT (List String) (Except String)

def tok : P String := do
  match (← get) with
  | [] => throw "eol"
  | t :: ts => set ts; pure t

def flt : P Float := do pure (ofHex (← tok))
def nat : P Nat := do
  let t ← tok
  match t.toNat? with
  | some n => pure n
  | none => throw s!"nat:{t}"
def bool : P Bool := do pure ((← tok) == "1")
def many {β} (n : Nat) (p : P β) : P (List β) := do
  let mut acc := []
  for _ in [0:n] do
    acc := (← p) :: acc
  pure acc.reverse
/-- length-prefixed list -/
def listOf {β} (p : P β) : P (List β) := do many (← nat) p
def floats : P (List Float) := listOf flt

def hexs (l : List Float) : String := " ".intercalate (l.map hexOf)

def runP {β} (p : P β) (toks : List String) : Except String β :=
  match p.run toks with
  | .ok (b, _) => .ok b
  | .error e => .error e

end Drv
