import OptiModel.Drv.Proto
import OptiModel.Model.Psf
/-! Driver commands for C11 (`Model/Psf.lean` at `Float`). -/
namespace Drv
open Model Model.Psf

def hexArr (a : Array Float) : String := " ".intercalate (a.toList.map hexOf)
def hexArr2 (a : Array (Array Float)) : String := " ".intercalate (a.toList.map hexArr)

/-- `psf <mean:code|spec> <size:code|spec> n g M opd… inten…` →
`ok nin gp norm strehlCode strehlSpec psf(gp²) c0code len tan… sag… c0spec len tan… sag…`
or `mismatch nin` when the model's disk mask does not select `M` samples. -/
def psfCmd : P String := do
  let variant ← tok
  let sizeVariant ← tok
  let n ← nat; let g ← nat; let m ← nat
  let opd ← many m flt
  let inten ← many m flt
  let opdA := opd.toArray; let intA := inten.toArray
  let maskC := look2 false (tab2 n n fun r c => inDisk (α := Float) n r c)
  let (rkC, ninC) := ranks maskC n
  -- the tree's mask first; when it does not select `M` samples (the tree raises), the specification's
  let useSpec := ninC != m
  let maskF := if useSpec then look2 false (tab2 n n fun r c => inDiskSpec (α := Float) n r c) else maskC
  let (rk, nin) := if useSpec then ranks maskF n else (rkC, ninC)
  let status := if useSpec then "ok-specmask" else "ok"
  if nin != m then pure s!"mismatch {ninC} {nin}"
  else
    let I := look (0.0 : Float) intA
    let W := look (0.0 : Float) opdA
    let mean := if variant == "spec" then meanSpec I m else meanCode I m
    let at2 (f : Nat → Float) : Nat → Nat → Float := fun r c => f (look 0 rk (r * n + c))
    let Pt := tab2 n n (pupil mean maskF (at2 I) (at2 W))
    let P := look2 czero Pt
    let norm := normFactor n P
    let gp := if sizeVariant == "spec" then g else paddedSize n g
    let psfT := if sizeVariant == "spec" then psfTabSpec n g P norm else psfTab n g P norm
    let psf := look2 (0.0 : Float) psfT
    let sC := strehlCode g psf
    let sS := strehlSpec gp psf
    let c0c := sliceStartCode g
    let c0s := sliceStartSpec gp
    let (tc, sc) := mtfSlices gp c0c psf
    let (ts, ss) := if c0s == c0c then (tc, sc) else mtfSlices gp c0s psf
    pure (s!"{status} {nin} {gp} " ++ hexs [norm, sC, sS] ++ " " ++ hexArr2 psfT ++
      s!" {c0c} {tc.size} " ++ hexArr tc ++ " " ++ hexArr sc ++
      s!" {c0s} {ts.size} " ++ hexArr ts ++ " " ++ hexArr ss)

/-- `mtfunits n g wl fno infinite xpd epd m pixels` →
`fnoW maxFreq stepCode stepSpec extent` then `g - g/2` axis values for code and for spec -/
def unitsCmd : P String := do
  let n ← nat; let g ← nat
  let wl ← flt; let fno ← flt; let inf ← bool; let xpd ← flt; let epd ← flt; let mag ← flt
  let pixels ← nat
  let fw := workingFno fno inf xpd epd mag
  let mf := maxFreq wl fw
  let sc := freqStepCode n g wl fw
  let ss := freqStepSpec n wl fw
  let ext := psfExtent n g pixels wl fw
  -- `freq = np.arange(grid_size - grid_size // 2) * dx`: one frequency per sample of the curves
  let axC := tab (g - g / 2) (freqAxis sc)
  let axS := tab (g - g / 2) (freqAxis ss)
  pure (hexs [fw, mf, sc, ss, ext] ++ s!" {g - g / 2} " ++ hexArr axC ++ " " ++ hexArr axS)

/-- `geomtf numPoints maxFreq scale M xi…` → `numPoints mtf… difflim… freq…` -/
def geoCmd : P String := do
  let np ← nat; let mf ← flt; let scale ← bool
  let xi ← floats
  if xi.isEmpty || np < 2 then pure "empty"
  else
    let (mtf, dl, fr) := geoMtf xi.toArray np mf scale
    pure (s!"{np} " ++ hexArr mtf ++ " " ++ hexArr dl ++ " " ++ hexArr fr)

/-- `difflim k ratios…` → the circular-pupil diffraction limit at each ratio -/
def diffCmd : P String := do
  let r ← floats
  pure (hexs (r.map diffLimit))

def psfHandlers : List (String × P String) :=
  [("psf", psfCmd), ("mtfunits", unitsCmd), ("geomtf", geoCmd), ("difflim", diffCmd)]
end Drv
