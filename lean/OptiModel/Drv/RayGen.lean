import OptiModel.Drv.Parax
import OptiModel.Model.RayGen
namespace Drv
open Model

def pField : P (FieldRec Float) := do
  let x ← flt; let y ← flt; let vx ← flt; let vy ← flt
  pure ⟨x, y, vx, vy⟩

def pRGSys : P (RGSys Float) := do
  let ps ← pSys
  let tele ← bool
  let objPlane ← bool; let objR ← flt; let objK ← flt
  let fields ← listOf pField
  pure ⟨ps, fields, tele, objPlane, objR, objK⟩

def rgAnswer (r : Except GenErr (Ray Float)) : String :=
  match r with
  | .ok r => "ok " ++ hexs [r.x, r.y, r.z, r.L, r.M, r.N, r.i, r.opd]
  | .error .valueError => "err v"
  | .error .notImplemented => "err n"

/-- `raygen <sys> <mode g|t> <nq> (Hx Hy Px Py)*` -/
def raygenCmd : P String := do
  let S ← pRGSys
  let mode ← tok
  let qs ← listOf (do let a ← flt; let b ← flt; let c ← flt; let d ← flt; pure (a, b, c, d))
  let f := if mode == "t" then genericLaunch S else generateRay S
  pure (" | ".intercalate (qs.map fun (hx, hy, px, py) => rgAnswer (f hx hy px py)))

def ptsAnswer (l : List (Float × Float)) : String :=
  toString l.length ++ (l.foldl (fun acc p => acc ++ " " ++ hexOf p.1 ++ " " ++ hexOf p.2) "")

/-- `dist <name> <n> <flag>` -/
def distCmd : P String := do
  let name ← tok
  let n ← nat
  let flag ← bool
  match name with
  | "line_x" => pure (ptsAnswer (distLineX n flag))
  | "line_y" => pure (ptsAnswer (distLineY n flag))
  | "uniform" => pure (ptsAnswer (distUniform n))
  | "hexapolar" => pure (ptsAnswer (distHexapolar n))
  | "cross" => pure (ptsAnswer (distCross n))
  | "ring" => pure (ptsAnswer (distRing n))
  | "gq" => match distGQ n flag with
    | some l => pure (ptsAnswer l)
    | none => pure "err v"
  | "random" => do
    let rs ← floats; let ths ← floats
    pure (ptsAnswer (distRandom rs ths))
  | _ => pure "err v"

/-- `vig <nfields> fields… <nq> (Hx Hy)*` → vx vy per query -/
def vigCmd : P String := do
  let fields ← listOf pField
  let qs ← listOf (do let a ← flt; let b ← flt; pure (a, b))
  pure (hexs (qs.flatMap fun (hx, hy) => let v := vigFactor fields hx hy; [v.1, v.2]))

def raygenHandlers : List (String × P String) :=
  [("raygen", raygenCmd), ("dist", distCmd), ("vig", vigCmd)]
end Drv
