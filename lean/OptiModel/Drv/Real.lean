import OptiModel.Drv.Proto
import OptiModel.Model.Real
namespace Drv
open Model

def pMatrix : P (List (List Float)) := do
  let rows ← nat; let cols ← nat
  many rows (many cols flt)

def pGeom : P (Geom Float) := do
  match (← tok) with
  | "p" => pure .plane
  | "s" => do let R ← flt; let k ← flt; pure (.standard R k)
  | "a" => do
    let R ← flt; let k ← flt; let tol ← flt; let mi ← nat; let c ← floats
    pure (.evenAsphere R k tol mi c)
  | "y" => do
    let R ← flt; let k ← flt; let tol ← flt; let mi ← nat; let c ← pMatrix
    pure (.polynomial R k tol mi c)
  | "c" => do
    let R ← flt; let k ← flt; let tol ← flt; let mi ← nat; let c ← pMatrix
    let nx ← flt; let ny ← flt
    pure (.chebyshev R k tol mi c nx ny)
  | t => throw s!"geom:{t}"

def pOpt2 : P (Option (Float × Float)) := do
  if (← bool) then do let a ← flt; let b ← flt; pure (some (a, b)) else pure none

def pRKind : P RKind := do
  match (← tok) with
  | "o" => pure .object
  | "i" => pure .image
  | _ => pure .standard

def pRSurf : P (RSurf Float) := do
  let kind ← pRKind
  let x ← flt; let y ← flt; let z ← flt; let rx ← flt; let ry ← flt; let rz ← flt
  let g ← pGeom
  let n1 ← flt; let n2 ← flt; let k1 ← flt
  let refl ← bool
  let ap ← pOpt2
  let co ← pOpt2
  pure ⟨kind, ⟨x, y, z, rx, ry, rz⟩, g, n1, n2, k1, refl, ap, co⟩

def pRay : P (Ray Float) := do
  let x ← flt; let y ← flt; let z ← flt; let L ← flt; let M ← flt; let N ← flt
  let i ← flt; let opd ← flt
  pure ⟨x, y, z, L, M, N, i, opd⟩

def rayHex (r : Ray Float) : String := hexs [r.x, r.y, r.z, r.L, r.M, r.N, r.i, r.opd]

/-- `rtrace w <nsurf> surfs… <nrays> rays…` → `ok` + 8 floats per ray per surface, or `reject` -/
def rtraceCmd : P String := do
  let w ← flt
  let surfs ← listOf pRSurf
  let rays ← listOf pRay
  if lensRejects w surfs rays then pure "reject"
  else
    let recs := traceLens w surfs rays
    pure ("ok " ++ " ".intercalate (recs.map fun rs => " ".intercalate (rs.map rayHex)))

def realHandlers : List (String × P String) := [("rtrace", rtraceCmd)]
end Drv
