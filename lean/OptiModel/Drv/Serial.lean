import OptiModel.Drv.Proto
import OptiModel.Model.Serial
/-! Driver commands for C19.
  `serial  <env> <J>`            → `<jsonOk> <code> | <spec>` where `<code>` is `ok <toDict_code (fromDict_code j)>`
                                   or `error`, likewise `<spec>`
  `serialrun <env> <J> <n> ops…` → `<jsonOk> k<z-representation of every surface: s|a> | <the same for the spec>`:
                                   `run true` + `toDict_code` (code), `run false` + `toDict_spec` (repaired)
  Tree syntax (prefix): `n` | `t` | `f` | `d <hex>` | `i <nat>` | `s <str>` | `a <k> …` | `o <k> (<str> <J>)…`
  | `y <k> <hex>…` (ndarray) | `p <str> <J>` (object).  Strings: `x` + hex of the UTF-8 bytes. -/
namespace Drv
open Serial

def serHexDigit (c : Char) : Nat :=
  if c.isDigit then c.toNat - '0'.toNat else c.toNat - 'a'.toNat + 10

def decStr (t : String) : String :=
  let cs := t.toList.drop 1
  let rec go : List Char → ByteArray → ByteArray
    | a :: b :: rest, acc => go rest (acc.push (UInt8.ofNat (serHexDigit a * 16 + serHexDigit b)))
    | _, acc => acc
  match String.fromUTF8? (go cs ByteArray.empty) with
  | some s => s
  | none => "?"

def encStr (s : String) : String :=
  let hd (n : Nat) : Char := if n < 10 then Char.ofNat (48 + n) else Char.ofNat (87 + n)
  "x" ++ String.ofList (s.toUTF8.toList.flatMap fun b => [hd (b.toNat / 16), hd (b.toNat % 16)])

def serPStr : P String := do pure (decStr (← tok))

partial def pJ : P (J Float) := do
  match (← tok) with
  | "n" => pure .null
  | "t" => pure (.bool true)
  | "f" => pure (.bool false)
  | "d" => do pure (.num (← flt))
  | "i" => do pure (.int (← nat))
  | "s" => do pure (.str (← serPStr))
  | "a" => do
    let k ← nat
    let mut acc := []
    for _ in [0:k] do
      acc := (← pJ) :: acc
    pure (.arr acc.reverse)
  | "o" => do
    let k ← nat
    let mut acc := []
    for _ in [0:k] do
      let key ← serPStr
      let v ← pJ
      acc := (key, v) :: acc
    pure (.obj acc.reverse)
  | "y" => do pure (.ndarray (← floats))
  | "p" => do
    let c ← serPStr
    pure (.pyobj c (← pJ))
  | t => throw s!"J:{t}"

partial def showJ : J Float → String
  | .null => "n"
  | .bool true => "t"
  | .bool false => "f"
  | .num x => "d " ++ hexOf x
  | .int n => s!"i {n}"
  | .str s => "s " ++ encStr s
  | .arr l => " ".intercalate (s!"a {l.length}" :: l.map showJ)
  | .obj kv => " ".intercalate (s!"o {kv.length}" :: kv.map fun e => encStr e.1 ++ " " ++ showJ e.2)
  | .ndarray l => " ".intercalate (s!"y {l.length}" :: l.map hexOf)
  | .pyobj c d => "p " ++ encStr c ++ " " ++ showJ d

def optKey (o : Option Float) : String :=
  match o with
  | none => "-"
  | some x => hexOf x

def envKey (name : String) (ref : Option String) (robust : Bool) (lo hi : Option Float) : String :=
  encStr name ++ "|" ++ (match ref with | none => "-" | some r => encStr r) ++ "|" ++ (if robust then "1" else "0")
    ++ "|" ++ optKey lo ++ "|" ++ optKey hi

/-- `<n> (<key> ok <filename> | <key> err)…` — the implementation's own answers to `Material(...)` -/
def pEnv : P (Env Float) := do
  let n ← nat
  let mut tbl : List (String × Option String) := []
  for _ in [0:n] do
    let key ← tok
    match (← tok) with
    | "ok" => do tbl := (key, some (← serPStr)) :: tbl
    | _ => tbl := (key, none) :: tbl
  pure ⟨fun name ref robust lo hi =>
    match tbl.lookup (envKey name ref robust lo hi) with
    | some (some fn) => .ok fn
    | some none => .error "ValueError: material lookup"
    | none => .error "model: lookup not supplied"⟩

def roundTrip (m : Mode) (coat : CoatRec Float → J Float) (pol : PolRec Float → J Float)
    (env : Env Float) (j : J Float) : String :=
  match fromDictWith m env j with
  | .ok p => "ok " ++ showJ (toDictWith coat pol p)
  | .error e => if e.startsWith "model:" then "outside" else "error"

def pEdit : P (Edit Float) := do
  match (← tok) with
  | "sr" => do let v ← flt; pure (.setRadius v (← nat))
  | "sc" => do let v ← flt; pure (.setConic v (← nat))
  | "st" => do let v ← flt; pure (.setThickness v (← nat))
  | "si" => do let v ← flt; pure (.setIndex v (← nat))
  | "tx" => do let v ← flt; pure (.setTilt true v (← nat))
  | "ty" => do let v ← flt; pure (.setTilt false v (← nat))
  | "ddx" => do let v ← flt; pure (.setDecenter true v (← nat))
  | "ddy" => do let v ← flt; pure (.setDecenter false v (← nat))
  | "pk" => do
    let src ← nat
    let attr ← tok
    let tgt ← nat; let sc ← flt; let off ← flt
    let a := match attr with | "radius" => PickAttr.radius | "conic" => .conic | _ => .thickness
    pure (.pickupAdd ⟨src, a, tgt, sc, off⟩)
  | "sv" => do let idx ← nat; let h ← flt; pure (.solveAdd ⟨idx, h⟩ (← flt))
  | "up" => do pure (.update (← floats))
  | "is" => do pure (.imageSolve (← flt))
  | "aw" => do let v ← flt; pure (.addWave ⟨v, ← bool, .um⟩)
  | "pol" => pure (.setPolarization (.state true (some 1.0) (some 0.0) (some 0.0) (some 0.0)))
  | t => throw s!"edit:{t}"

def zKinds (p : LensRec Float) : String :=
  String.ofList (p.surfaces.map fun s => match s.geom.cs.frame.z with | .scalar _ => 's' | .arr1 _ => 'a')

def serialHandlers : List (String × P String) := [
  ("serial", do
    let env ← pEnv
    let j ← pJ
    pure ((if j.jsonOk then "1 " else "0 ") ++ roundTrip .code coatToDict_code polToJ_code env j ++ " | "
          ++ roundTrip .spec coatToDict_spec polToJ_spec env j)),
  ("serialrun", do
    let env ← pEnv
    let j ← pJ
    let es ← listOf pEdit
    match fromDictWith ⟨false, false, true, false⟩ env j with
    | .error _ => pure "error"
    | .ok p =>
      if p.surfaces.any (fun s => s.geom.cs.hasRef) then pure "outside" else
      let q := run true p es
      let r := run false p es
      pure ((if (toDict_code q).jsonOk then "1 " else "0 ") ++ "k" ++ zKinds q ++ " | "
            ++ (if (toDict_spec r).jsonOk then "1 " else "0 ") ++ "k" ++ zKinds r))
]

end Drv
