import OptiModel.Drv.Proto
import OptiModel.Drv.Presc
import OptiModel.Model.Toler
namespace Drv
open Model

def pVar : P Var := do
  let k ← tok
  let surf ← nat
  match k with
  | "radius" => pure ⟨.radius, surf⟩
  | "conic" => pure ⟨.conic, surf⟩
  | "thickness" => pure ⟨.thickness, surf⟩
  | "index" => pure ⟨.index, surf⟩
  | "coeff" => do let i ← nat; pure ⟨.coeff i, surf⟩
  | "tiltx" => pure ⟨.tiltX, surf⟩
  | "tilty" => pure ⟨.tiltY, surf⟩
  | "decx" => pure ⟨.decX, surf⟩
  | "decy" => pure ⟨.decY, surf⟩
  | t => throw s!"var:{t}"

def pSampler : P (Sampler Float) := do
  match (← tok) with
  | "s" => do pure (.scalar (← flt))
  | "r" => do let a ← flt; let b ← flt; let n ← nat; pure (Sampler.mkRange a b n)
  | "ra" => do
    -- a range sampler that has been used before: `k` earlier `sample()` calls
    let a ← flt; let b ← flt; let n ← nat; let k ← nat
    pure (Nat.repeat (fun s => (s.sample []).2.1) k (Sampler.mkRange a b n))
  | "d" => pure .dist
  | t => throw s!"sampler:{t}"

/-- operands the model can evaluate: paraxial quantities of `toPSys` and plain variable read-outs -/
def pOperand : P (Presc Float → Float) := do
  match (← tok) with
  | "f1" => pure fun P => f1 (toPSys P)
  | "f2" => pure fun P => f2 (toPSys P)
  | "F1" => pure fun P => F1 (toPSys P)
  | "F2" => pure fun P => F2 (toPSys P)
  | "EPL" => pure fun P => EPL (toPSys P)
  | "XPL" => pure fun P => XPL (toPSys P)
  | "var" => do let v ← pVar; pure fun P => Var.get P v
  | t => throw s!"operand:{t}"

def rowStr (r : Row Float Float) : String :=
  toString r.applied.length ++ (r.applied.foldl (fun acc iv => acc ++ " " ++ toString iv.1 ++ " " ++ hexOf iv.2) "") ++
  " " ++ toString r.ops.length ++ (r.ops.foldl (fun acc v => acc ++ " " ++ hexOf v) "") ++
  " " ++ toString r.comp.length ++ (r.comp.foldl (fun acc v => acc ++ " " ++ hexOf v) "")

/-- `tolLinspace start stop steps` -/
def linspaceCmd : P String := do
  let a ← flt; let b ← flt; let n ← nat
  let l := tolLinspace a b n
  pure (toString l.length ++ " " ++ hexs l)

/-- `rsample start stop steps k` → `k` consecutive `RangeSampler.sample()` values -/
def rsampleCmd : P String := do
  let a ← flt; let b ← flt; let n ← nat; let k ← nat
  pure (hexs (sampleSeq (Sampler.mkRange a b n) [] k))

/-- `toler <lens as in presc> SA|MC n  <perts> <comps> <stream> <oracle table> <operands>`
→ `ok|valueerror  nrows rows… | snapshot after run (tree) | snapshot after run (spec) | snapshot after reset` -/
def tolerCmd : P String := do
  let ap ← tok
  let apType := match ap with | "EPD" => ApType.EPD | "imageFNO" => .imageFNO | _ => .objectNA
  let apValue ← flt
  let ft ← tok
  let fieldType := if ft == "angle" then FieldType.angle else .objectHeight
  let maxY ← flt
  let objInf ← bool
  let ops ← listOf pOp
  let P0 : Presc Float := { lastThickness := 0, apValue := apValue, maxYField := maxY, apType := apType,
                            fieldType := fieldType, objInf := objInf }
  let N := runOps P0 ops
  let analysis ← tok
  let niter ← nat
  let perts ← listOf (do let v ← pVar; let s ← pSampler; pure (v, s))
  let comps ← listOf pVar
  let stream ← floats
  let table ← listOf floats
  let operands ← listOf pOperand
  let T : Tol (Presc Float) Var Float Float :=
    { perts := perts.map fun vs => PVar.make prescSys (pertVar vs.1) N,
      comps := comps.map fun v => PVar.make prescSys (compVar v) N,
      operands := operands,
      oracle := fun j _ => table.getD j [] }
  let r0 : Run (Presc Float) Float := ⟨N, perts.map (·.2), stream⟩
  if analysis == "SA" && !(saAccepts r0) then
    pure "valueerror"
  else
    let code := if analysis == "SA" then runSA prescSys T r0 else runMC_code prescSys T r0 niter
    let spec := if analysis == "SA" then code else runMC_spec prescSys T r0 niter
    let afterReset := T.reset prescSys code.1.lens
    pure ("ok " ++ toString code.2.length ++ " " ++ " ".intercalate (code.2.map rowStr) ++ " | " ++
          snapshot true code.1.lens ++ " | " ++ snapshot true spec.1.lens ++ " | " ++ snapshot true afterReset)

def tolerHandlers : List (String × P String) :=
  [("linspace", linspaceCmd), ("rsample", rsampleCmd), ("toler", tolerCmd)]
end Drv
