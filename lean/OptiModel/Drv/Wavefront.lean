import OptiModel.Drv.Proto
import OptiModel.Model.Wavefront
import OptiModel.Drv.Real
namespace Drv
open Model Model.Wf

def pWRay : P (Ray Float) := do
  let x ← flt; let y ← flt; let z ← flt; let L ← flt; let M ← flt; let N ← flt
  let i ← flt; let opd ← flt
  pure ⟨x, y, z, L, M, N, i, opd⟩

def pCfg : P (Cfg Float) := do
  let isAngle ← bool
  let maxX ← flt; let maxY ← flt; let Hx ← flt; let Hy ← flt
  let epd ← flt; let xpl ← flt; let zimg ← flt; let nImg ← flt; let nObj ← flt; let w ← flt
  pure ⟨isAngle, maxX, maxY, Hx, Hy, epd, xpl, zimg, nImg, nObj, w⟩

def pPt : P (Float × Float) := do
  let x ← flt; let y ← flt
  pure (x, y)

def flist (l : List Float) : String :=
  if l.isEmpty then "0" else toString l.length ++ " " ++ hexs l

def ptsStr (l : List (Float × Float)) : String :=
  flist (l.map (·.1)) ++ " " ++ flist (l.map (·.2))

/-- `wfdata <cfg> <chief> <n> rays… <n> pts…` →
`xc yc zc R opdRefCode opdRefSpec | opdsCode | opdsSpec | intensities | rmsCode rmsSpec | inside`
(`inside[k] = 1` when the image point of ray k is inside the reference sphere, `qc < 0`: the property's domain) -/
def wfDataCmd : P String := do
  let c ← pCfg
  let chief ← pWRay
  let rays ← listOf pWRay
  let pts ← listOf pPt
  let s := sphereOf c chief
  let oc := opdsCode c chief rays pts
  let os := opdsSpec c chief rays pts
  pure (hexs [s.xc, s.yc, s.zc, s.R, opdRefCode c chief, opdRefSpec c chief] ++ " " ++
        flist oc ++ " " ++ flist os ++ " " ++ flist (intensities rays) ++ " " ++
        hexs [rms oc, rms os] ++ " " ++
        flist (rays.map fun r => if Num.lt (qc s r) 0 then 1.0 else 0.0))

/-- `wfchain <cfg> <w> <nsurf> surfs… <chief start ray> <n> start rays… <n> pts…`: the whole chain with the
real tracer of `Model/Real.lean` (C02) in place of the implementation's image-surface records.
Answer: `reject` or `ok` + the opds of the `_code` variant + the intensities. -/
def wfChainCmd : P String := do
  let c ← pCfg
  let w ← flt
  let surfs ← listOf pRSurf
  let chief0 ← pWRay
  let rays0 ← listOf pWRay
  let pts ← listOf pPt
  if lensRejects w surfs (chief0 :: rays0) then pure "reject"
  else
    match (traceLens w surfs [chief0]).getLast?, (traceLens w surfs rays0).getLast? with
    | some [chief], some rays =>
      pure ("ok " ++ flist (opdsCode c chief rays pts) ++ " " ++ flist (intensities rays))
    | _, _ => pure "reject"

/-- `wfxp <cfg> <chief> <n> rays…` → per ray: t (code's root), both roots, discriminant -/
def wfXpCmd : P String := do
  let c ← pCfg
  let chief ← pWRay
  let rays ← listOf pWRay
  let s := sphereOf c chief
  pure (flist (rays.flatMap fun r => [imageToXp s r, rootMinus s r, rootPlus s r, disc s r]))

/-- `wfrms <n> opds…` → rms -/
def wfRmsCmd : P String := do
  let l ← floats
  pure (hexOf (rms l))

/-- `wfcross n` → x list, y list of `CrossDistribution` -/
def wfCrossCmd : P String := do
  let n ← nat
  pure (ptsStr (crossPoints n))

/-- `wffan n <m> data…` → fanY, fanX -/
def wfFanCmd : P String := do
  let n ← nat
  let l ← floats
  pure (flist (fanY n l) ++ " " ++ flist (fanX n l))

/-- `wflinspace a b n` -/
def wfLinspaceCmd : P String := do
  let a ← flt; let b ← flt; let n ← nat
  pure (flist (linspace a b n))

/-- `wfgq sym n` → x list, y list, weights (`get_weights`), weights as used by `OPD_difference` -/
def wfGqCmd : P String := do
  let sym ← bool; let n ← nat
  pure (ptsStr (gqPoints sym n) ++ " " ++ flist (gqWeights sym n) ++ " " ++ flist (opdDiffWeights sym n))

/-- `wfopddiff mode n <m> opds…`: mode 0 = scalar weight 1.0, 1 = GQ on axis, 2 = GQ off axis -/
def wfOpdDiffCmd : P String := do
  let mode ← nat; let n ← nat
  let l ← floats
  let ws : Option (List Float) := match mode with
    | 0 => none
    | 1 => some (opdDiffWeights true n)
    | _ => some (opdDiffWeights false n)
  pure (hexOf (opdDifference l ws))

def wavefrontHandlers : List (String × P String) :=
  [("wfdata", wfDataCmd), ("wfchain", wfChainCmd), ("wfxp", wfXpCmd), ("wfrms", wfRmsCmd), ("wfcross", wfCrossCmd),
   ("wffan", wfFanCmd), ("wflinspace", wfLinspaceCmd), ("wfgq", wfGqCmd), ("wfopddiff", wfOpdDiffCmd)]
end Drv
