import OptiModel.Drv.Proto
import OptiModel.Model.Zernike
/-! Driver commands for the Zernike model (C10).  Integers travel in decimal (optionally signed),
rationals as `num den`. -/
namespace Drv
open Model.Zern

def int : P Int := do
  let t ← tok
  match t.toInt? with
  | some n => pure n
  | none => throw s!"int:{t}"

def pFamily : P Family := do
  match (← tok) with
  | "standard" => pure .standard
  | "fringe" => pure .fringe
  | "noll" => pure .noll
  | t => throw s!"family:{t}"

def ratStr (q : Rat) : String := toString q.num ++ " " ++ toString q.den

/-- `zidx fam` → `len n m n m …` -/
def zIdx : P String := do
  let f ← pFamily
  let l := indices f
  pure (toString l.length ++ " " ++ " ".intercalate (l.map fun p => toString p.1 ++ " " ++ toString p.2))

/-- `znorm fam n m` → `_norm_constant` -/
def zNorm : P String := do
  let f ← pFamily; let n ← int; let m ← int
  pure (hexOf (normConstant f n m : Float))

/-- `zrad n m <k> r…` → `_radial_term(n, m, r)` for every r -/
def zRad : P String := do
  let n ← int; let m ← int; let rs ← floats
  pure (hexs (rs.map fun r => radialTerm n m r))

/-- `zcoef n m` → `len e num den …` rational coefficient list -/
def zCoef : P String := do
  let n ← int; let m ← int
  let l := radialCoeffs n m
  pure (toString l.length ++ " " ++ " ".intercalate (l.map fun a => toString a.1 ++ " " ++ ratStr a.2))

/-- `zradq n m p q` → exact value of the radial polynomial at r = p/q -/
def zRadQ : P String := do
  let n ← int; let m ← int; let p ← int; let q ← nat
  pure (ratStr (evalQ (radialCoeffs n m) ((p : Rat) / (q : Rat))))

/-- `zinner n n' m` → exact `∫₀¹ R_n^m R_n'^m r dr` -/
def zInner : P String := do
  let n ← int; let n' ← int; let m ← int
  pure (ratStr (innerR (radialCoeffs n m) (radialCoeffs n' m)))

def pPts : P (List (Float × Float)) := listOf (do let r ← flt; let phi ← flt; pure (r, phi))

/-- `zterm fam n m coeff <k> r phi …` → `get_term(coeff, n, m, r, phi)` at every point -/
def zTerm : P String := do
  let f ← pFamily; let n ← int; let m ← int; let c ← flt
  let pts ← pPts
  pure (hexs (pts.map fun p => getTerm f c n m p.1 p.2))

/-- `zaz m <k> phi…` → `_azimuthal_term(m, phi)` -/
def zAz : P String := do
  let m ← int; let ps ← floats
  pure (hexs (ps.map fun p => azimuthalTerm m p))

/-- `zpoly fam <N> coeffs… <k> r phi …` → `poly(r, phi)` at every point -/
def zPoly : P String := do
  let f ← pFamily
  let cs ← floats
  let pts ← pPts
  pure (hexs (pts.map fun p => poly f cs p.1 p.2))

/-- `zterms fam <N> coeffs… r phi` → `len terms(r, phi)…` -/
def zTerms : P String := do
  let f ← pFamily
  let cs ← floats
  let r ← flt; let phi ← flt
  let l := terms f cs r phi
  pure (toString l.length ++ " " ++ hexs l)

def zernikeHandlers : List (String × P String) :=
  [("zidx", zIdx), ("znorm", zNorm), ("zrad", zRad), ("zcoef", zCoef), ("zradq", zRadQ),
   ("zinner", zInner), ("zterm", zTerm), ("zaz", zAz), ("zpoly", zPoly), ("zterms", zTerms)]
end Drv
