import OptiModel.Drv.Proto
import OptiModel.Model.Zmx
import OptiModel.Model.ZmxLex
/-! Driver commands for the Zemax reader model (C20).

* `zmx <known…> <hex text>`      the decoded text lines of a file (UTF-8 bytes in hex, lines joined by
                                  `\n`) → reader dictionary and converted prescription as tokens;
* `zmxrt <known…> <presc> <hex>` the text is, line for line, `printZmx presc` (lines the reader does not
                                  dispatch ignored), and `zload` of it equals `expected presc`
                                  (the statement of `C20.parse_print` evaluated at `Float`);
* `zmxnum tok…`                  `float(tok)` for each token (hex bits, or `bad`).
-/
namespace Drv
open Zmx

def hexDigit (c : Char) : Nat :=
  if c.isDigit then c.toNat - 48 else if 'a' ≤ c && c ≤ 'f' then c.toNat - 87 else c.toNat - 55

def hexBytes : List Char → List Nat
  | a :: b :: r => (hexDigit a * 16 + hexDigit b) :: hexBytes r
  | _ => []

/-- UTF-8 bytes → characters (the harness sends well-formed UTF-8 only) -/
partial def utf8Decode : List Nat → List Char
  | [] => []
  | b :: r =>
    if b < 0x80 then Char.ofNat b :: utf8Decode r
    else if b < 0xE0 then
      match r with
      | b1 :: r => Char.ofNat ((b % 32) * 64 + b1 % 64) :: utf8Decode r
      | _ => []
    else if b < 0xF0 then
      match r with
      | b1 :: b2 :: r => Char.ofNat ((b % 16) * 4096 + (b1 % 64) * 64 + b2 % 64) :: utf8Decode r
      | _ => []
    else
      match r with
      | b1 :: b2 :: b3 :: r =>
        Char.ofNat ((b % 8) * 262144 + (b1 % 64) * 4096 + (b2 % 64) * 64 + b3 % 64) :: utf8Decode r
      | _ => []

/-- hex token (or `-` for the empty text) → text -/
def pText : P String := do
  let t ← tok
  if t == "-" then pure "" else pure (String.ofList (utf8Decode (hexBytes t.toList)))

def pKnown : P (String → Option String → Bool) := do
  let names ← listOf tok
  pure fun n _ => names.contains n

def zmxOptHex : Option Float → String
  | some x => hexOf x
  | none => "-"

def optNat : Option Nat → String
  | some n => toString n
  | none => "-"

def apKeyName : ApKey → String
  | .imageFNO => "imageFNO" | .paraxialImageFNO => "paraxialImageFNO" | .EPD => "EPD"
  | .objectNA => "objectNA" | .objectConeAngle => "object_cone_angle" | .floatingStop => "floating_stop"

def stypeCode : SType → String
  | .standard => "0" | .evenAsph => "1" | .unsupported => "2"

def errName : ZErr → String
  | .value => "value" | .key => "key"

def sp (l : List String) : String := " ".intercalate l

def showZSurf (s : ZSurf Float) : String :=
  let mat := match s.glass with
    | none => "air"
    | some (.nameOnly nm) => "name " ++ nm
    | some (.full nm a b _) => sp ["glas", nm, hexOf a, hexOf b]
  sp [stypeCode s.stype, if s.isStop then "1" else "0", zmxOptHex (s.curv.map radiusOf),
      zmxOptHex (s.thick.map thickOf), hexOf (s.conic.getD 0.0), mat, toString s.parms.length,
      sp (s.parms.map fun p => toString p.1 ++ " " ++ hexOf p.2)]

def showData (d : ZData Float) : String :=
  sp ["ap", toString d.ap.length, sp (d.ap.map fun e => apKeyName e.1 ++ " " ++ zmxOptHex e.2),
      "gcat", (match d.gcat with | none => "-" | some g => sp (toString g.length :: g)),
      "ft", optNat d.ftype, (match d.tele with | none => "-" | some b => if b then "1" else "0"),
      optNat d.nf, optNat d.nw,
      "fields", toString d.fields.length, sp (d.fields.map fun f => hexOf f.1 ++ " " ++ hexOf f.2),
      "waves", toString d.waves.length, hexs d.waves,
      "pw", (match d.pw with | none => "-" | some i => toString i),
      "surfs", toString d.surfaces.length, sp (d.surfaces.map showZSurf)]

def showMedium : Medium Float → String
  | .air => "air"
  | .mirror => "mirror"
  | .catalog n r => sp ["cat", n, r.getD "-"]
  | .abbe a b => sp ["abbe", hexOf a, hexOf b]

def showOSurf (s : OSurf Float) : String :=
  sp [if s.evenAsph then "1" else "0", hexOf s.radius, hexOf s.thick, hexOf s.conic,
      if s.isStop then "1" else "0", showMedium s.medium,
      match s.coeffs with | none => "-" | some cs => sp [toString cs.length, hexs cs]]

def showPresc (o : OPresc Float) : String :=
  let pos := positions (o.surfs.map fun s => s.thick)
  sp ["surfs", toString o.surfs.length, sp (o.surfs.map showOSurf),
      "stop", optNat (stopIndex (o.surfs.map fun s => s.isStop)),
      "pos", toString pos.length, hexs pos,
      "ap", apKeyName o.apKey, hexOf o.apValue,
      "ft", toString o.fieldType,
      "fields", toString o.fields.length, sp (o.fields.map fun f => hexOf f.1 ++ " " ++ hexOf f.2),
      "waves", toString o.waves.length, hexs o.waves,
      "prim", optNat o.primary]

def tidy (s : String) : String := sp ((s.splitOn " ").filter (· ≠ ""))

def zmxCmd : P String := do
  let known ← pKnown
  let text ← pText
  let st := zparse (lexText text)
  if st.unmodelled then return "U"
  match zfinish st with
  | .error e => pure ("E " ++ errName e)
  | .ok d =>
    let conv := match convert known d with
      | .error e => "E " ++ errName e
      | .ok o => "ok " ++ showPresc o
    -- `_spec` variant of finding F-C20-1: the block still open at the end (image surface)
    let last := match d.last with
      | none => "-"
      | some s => "1 " ++ showZSurf s
    let img := match d.last with
      | none => "-"
      | some s => match convSurf known s with
        | .ok o => "1 " ++ showOSurf o
        | .error _ => "-"
    pure (tidy ("R " ++ showData d ++ " L " ++ last ++ " C " ++ conv ++ " I " ++ img))

/-! #### prescription tokens -/

def pOptFlt : P (Option Float) := do
  let t ← tok
  if t == "-" || t == "inf" then pure none else pure (some (ofHex t))

def pPSurf : P (ZPSurf Float) := do
  let ea ← bool; let st ← bool; let c ← flt
  let th ← pOptFlt
  let k ← pOptFlt
  let g ← tok
  let glass ← if g == "-" then pure none else do
    let a ← flt; let b ← flt
    pure (some (g, a, b))
  let cs ← floats
  pure ⟨ea, st, c, th, k, glass, cs⟩

def pPair : P (Float × Float) := do
  let x ← flt; let y ← flt; pure (x, y)

def pPresc : P (ZPresc Float) := do
  let g ← tok
  let gcat ← if g == "-" then pure none else do
    match g.toNat? with
    | some n => pure (some (← many n tok))
    | none => throw "gcat"
  let ak ← tok
  let apKind := match ak with | "epd" => ApKind.epd | "fno" => .fno | _ => .na
  let apValue ← flt
  let ft ← nat
  let tele ← bool
  let fields ← listOf pPair
  let xpad ← floats
  let ypad ← floats
  let waves ← floats
  let wpad ← floats
  let primary ← nat
  let bl ← listOf pPSurf
  match bl with
  | obj :: rest =>
    match rest.getLast? with
    | some img => pure ⟨gcat, apKind, apValue, ft, tele, fields, xpad, ypad, waves, wpad, primary, obj,
                        rest.dropLast, img⟩
    | none => throw "blocks"
  | [] => throw "blocks"

def wfB (p : ZPresc Float) : Bool :=
  !p.fields.isEmpty && decide (p.primary < p.waves.length) &&
  (p.obj :: p.surfs).all fun s => !s.evenAsph || s.coeffs.length == 8

def zmxRt : P String := do
  let known ← pKnown
  let p ← pPresc
  let text ← pText
  let ls := lexText text
  let same := (ls.filter fun l => !l.isOther) == printZmx p
  let thm := match zload known ls with
    | .ok o => o == expected known p
    | .error _ => false
  pure (sp [if same then "1" else "0", if thm then "1" else "0", if wfB p then "1" else "0"])

def zmxNum : P String := do
  let toks ← get
  set ([] : List String)
  pure (sp (toks.map fun t => match pyFloat? t.toList with | some x => hexOf x | none => "bad"))

def zmxHandlers : List (String × P String) :=
  [("zmx", zmxCmd), ("zmxrt", zmxRt), ("zmxnum", zmxNum)]
end Drv
