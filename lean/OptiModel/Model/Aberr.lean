import OptiModel.Model.Parax
/-!
  Third-order (Seidel) and first-order chromatic aberrations: `optiland.aberrations.Aberrations`
  (`_precalculations`, every `_X_term`, `_compute_seidel_terms`, `_sum_seidels`, `third_order`,
  `seidels`, the 12 array accessors `TSC … TchC`) and the wrappers of
  `optiland.optimization.operand.aberration.AberrationOperand`, operation for operation.

  `Pre` is what `_precalculations` stores; the arrays `_i, _ip, _B, _Bp` (length `N-2`, entry
  `k-1` belongs to surface `k`) are modelled as functions of the surface number `k`.

  Two recorded defects of the tree (see `known_findings.json`, F-C08-1/2) give two variants each:
  * colour terms: `…_code` reads the marginal height of the *previous* surface (`_ya[k-1]`),
    `…_spec` the height at the surface itself (`_ya[k]`);
  * mirrors: `precalcCode` uses `optic.n()` as it is (a mirror keeps the index, so all its
    Seidel terms vanish), `precalcSpec` uses signed indices (index sign reversal at every
    mirror), which is what the classical formulas require.

  Independent specification (`Classical`): the surface contributions of Welford,
  *Aberrations of Optical Systems* §8 / Smith, *Modern Optical Engineering* §6.3, in terms of
  `A = n i`, `Ā = n ī`, `Δ(u/n)`, `H`, `c Δ(1/n)`, `Δ(δn/n)`.
-/
namespace Model
open scoped Num
variable {α : Type} [Num α]

/-- what `Aberrations._precalculations` stores -/
structure Pre (α : Type) where
  /-- `_inv` -/
  inv : α
  /-- `_n` (one entry per surface, `material_post.n`) -/
  n : List α
  /-- `_N` -/
  N : Nat
  /-- `_C = 1/radii` -/
  C : List α
  ya : List α
  ua : List α
  yb : List α
  ub : List α
  /-- `_dn = n(0.4861) - n(0.6563)` -/
  dn : List α

def half : α := Num.ofRat 1 2
def three : α := Num.ofRat 3 1
/-- `x**2` -/
def sq (x : α) : α := x * x
/-- Python's builtin `sum` of a list: left fold starting from `0` -/
def pysum (l : List α) : α := l.foldl (fun a b => a + b) 0

namespace Pre
variable (P : Pre α)

/-- `_n[-1]` -/
def nL : α := last P.n
/-- `_ua[-1]` -/
def uL : α := last P.ua
/-- `_hp = _inv / (_n[-1] * _ua[-1])` -/
def hp : α := P.inv / (P.nL * P.uL)
/-- `_i[k-1] = _C[k]*_ya[k] + _ua[k-1]` -/
def i (k : Nat) : α := nth P.C k * nth P.ya k + nth P.ua (k - 1)
/-- `_ip[k-1]` -/
def ip (k : Nat) : α := nth P.C k * nth P.yb k + nth P.ub (k - 1)
/-- `denom = 2*_n[k]*_inv` -/
def denom (k : Nat) : α := 2 * nth P.n k * P.inv
/-- `_B[k-1]` -/
def B (k : Nat) : α :=
  if Num.isZero (P.denom k) then 0
  else nth P.n (k - 1) * (nth P.n k - nth P.n (k - 1)) * nth P.ya k * (nth P.ua k + P.i k) / P.denom k
/-- `_Bp[k-1]` -/
def Bp (k : Nat) : α :=
  if Num.isZero (P.denom k) then 0
  else nth P.n (k - 1) * (nth P.n k - nth P.n (k - 1)) * nth P.yb k * (nth P.ub k + P.ip k) / P.denom k

/-! ### per-surface terms -/

def tscTerm (k : Nat) : α := P.B k * sq (P.i k) * P.hp
def ccTerm (k : Nat) : α := P.B k * P.i k * P.ip k * P.hp
def tacTerm (k : Nat) : α := P.B k * sq (P.ip k) * P.hp
def tpcTerm (k : Nat) : α :=
  (nth P.n k - nth P.n (k - 1)) * nth P.C k * P.hp * P.inv / (2 * nth P.n k * nth P.n (k - 1))
def dcTerm (k : Nat) : α :=
  P.hp * (P.Bp k * P.i k * P.ip k + half * (sq (nth P.ub k) - sq (nth P.ub (k - 1))))
/-- the dispersion factor `_dn[k-1] - _n[k-1]/_n[k]*_dn[k]` -/
def dnFac (k : Nat) : α := nth P.dn (k - 1) - nth P.n (k - 1) / nth P.n k * nth P.dn k
/-- `_TAchC_term` as coded: marginal height of surface `k-1` -/
def tachcTerm_code (k : Nat) : α :=
  Num.neg (nth P.ya (k - 1)) * P.i k / (P.nL * P.uL) * P.dnFac k
/-- `_TAchC_term` as the classical formula requires: marginal height at surface `k` -/
def tachcTerm_spec (k : Nat) : α :=
  Num.neg (nth P.ya k) * P.i k / (P.nL * P.uL) * P.dnFac k
def tchcTerm_code (k : Nat) : α :=
  Num.neg (nth P.ya (k - 1)) * P.ip k / (P.nL * P.uL) * P.dnFac k
def tchcTerm_spec (k : Nat) : α :=
  Num.neg (nth P.ya k) * P.ip k / (P.nL * P.uL) * P.dnFac k
/-- `spec = false`: the tree's colour terms; `true`: the classical ones -/
def tachcTerm (spec : Bool) (k : Nat) : α := if spec then P.tachcTerm_spec k else P.tachcTerm_code k
def tchcTerm (spec : Bool) (k : Nat) : α := if spec then P.tchcTerm_spec k else P.tchcTerm_code k

/-- `[f(k) for k in range(1, N-1)]` -/
def arr (f : Nat → α) : List α := (List.range (P.N - 2)).map fun j => f (j + 1)
/-- `-t / _ua[-1]` -/
def longi (t : α) : α := Num.neg t / P.uL

/-! ### the 12 array accessors (each recomputes its terms, as the code does) -/

def TSC : List α := P.arr P.tscTerm
def SC : List α := P.arr fun k => P.longi (P.tscTerm k)
def CC : List α := P.arr P.ccTerm
def TCC : List α := P.CC.map fun x => x * three
def TAC : List α := P.arr P.tacTerm
def AC : List α := P.arr fun k => P.longi (P.tacTerm k)
def TPC : List α := P.arr P.tpcTerm
def PC : List α := P.arr fun k => P.longi (P.tpcTerm k)
def DC : List α := P.arr P.dcTerm
def TAchC (spec : Bool) : List α := P.arr (P.tachcTerm spec)
def LchC (spec : Bool) : List α := P.arr fun k => P.longi (P.tachcTerm spec k)
def TchC (spec : Bool) : List α := P.arr (P.tchcTerm spec)

/-- one line of `_sum_seidels`: `-sum(X) * _n[-1] * _ua[-1]*2` -/
def seidelOf (l : List α) : α := Num.neg (pysum l) * P.nL * P.uL * 2
/-- `_sum_seidels([TSC, CC, TAC, TPC, DC])` -/
def sumSeidels (tsc cc tac tpc dc : List α) : List α :=
  [P.seidelOf tsc, P.seidelOf cc, P.seidelOf tac, P.seidelOf tpc, P.seidelOf dc]
/-- `seidels()` -/
def seidels : List α := P.sumSeidels P.TSC P.CC P.TAC P.TPC P.DC

end Pre

/-- the 13-tuple returned by `third_order()` -/
structure ThirdOrder (α : Type) where
  TSC : List α
  SC : List α
  CC : List α
  TCC : List α
  TAC : List α
  AC : List α
  TPC : List α
  PC : List α
  DC : List α
  TAchC : List α
  LchC : List α
  TchC : List α
  S : List α

/-- `third_order()`: the five Seidel lists from `_compute_seidel_terms`, the longitudinal lists
derived element-wise from the transverse lists already computed, `TCC = CC*3`. -/
def Pre.thirdOrder (P : Pre α) (spec : Bool) : ThirdOrder α :=
  let tsc := P.arr P.tscTerm
  let cc := P.arr P.ccTerm
  let tac := P.arr P.tacTerm
  let tpc := P.arr P.tpcTerm
  let dc := P.arr P.dcTerm
  let tachc := P.arr (P.tachcTerm spec)
  let tchc := P.arr (P.tchcTerm spec)
  { TSC := tsc, SC := tsc.map P.longi, CC := cc, TCC := cc.map fun x => x * three,
    TAC := tac, AC := tac.map P.longi, TPC := tpc, PC := tpc.map P.longi, DC := dc,
    TAchC := tachc, LchC := tachc.map P.longi, TchC := tchc,
    S := P.sumSeidels tsc cc tac tpc dc }

/-! ### `_precalculations` -/

/-- `1 / surface_group.radii` -/
def curvatures (ss : List (PSurf α)) : List α := ss.map fun s => 1 / s.r

/-- element-wise `a - b` of two index arrays -/
def subLists (a b : List α) : List α := List.zipWith (fun x y => x - y) a b

/-- `_precalculations` as the tree does it (`nF`, `nC`: `optic.n(0.4861)`, `optic.n(0.6563)`) -/
def precalcCode (S : PSys α) (nF nC : List α) : Pre α :=
  let a := marginalRay S
  let b := chiefRay S
  { inv := invariant S, n := nList S, N := S.surfs.length, C := curvatures S.surfs,
    ya := ys a, ua := us a, yb := ys b, ub := us b, dn := subLists nF nC }

/-- running orientation: `+1` in front of the first mirror, sign flips at every mirror -/
def sigmas : α → List (PSurf α) → List α
  | _, [] => []
  | σ, s :: ss =>
    let σ' := if s.kind == SKind.standard && s.refl then Num.neg σ else σ
    σ' :: sigmas σ' ss

/-- element-wise product -/
def mulLists (a b : List α) : List α := List.zipWith (fun x y => x * y) a b

/-- `_precalculations` with mirrors treated as index sign reversal: indices and dispersions
carry the running orientation; the invariant is formed with the signed index. -/
def precalcSpec (S : PSys α) (nF nC : List α) : Pre α :=
  let a := marginalRay S
  let b := chiefRay S
  let sg := sigmas 1 S.surfs
  let n := mulLists sg (nList S)
  { inv := nth (ys b) 1 * nth n 1 * nth (us a) 1 - nth (ys a) 1 * nth n 1 * nth (us b) 1,
    n := n, N := S.surfs.length, C := curvatures S.surfs,
    ya := ys a, ua := us a, yb := ys b, ub := us b, dn := mulLists sg (subLists nF nC) }

/-! ### `AberrationOperand` wrappers (index convention exactly as coded) -/

/-- `X()[surface_number]`: entry `surface_number` of the array, i.e. the term of surface
`surface_number + 1` -/
def opAt (l : List α) (surfaceNumber : Nat) : α := nth l surfaceNumber
/-- `seidels()[seidel_number - 1]` for `seidel_number ≥ 1` -/
def opSeidel (P : Pre α) (seidelNumber : Nat) : α := nth P.seidels (seidelNumber - 1)
/-- `np.sum(X())` -/
def opSum (l : List α) : α := l.foldl (fun a b => a + b) 0

/-! ### independent specification: classical surface contributions -/
namespace Classical

/-- everything the classical formulas need at one surface: indices before/after (signed: a
mirror has `n' = -n`), curvature, marginal and chief ray heights at the surface, slopes before
and after, dispersions `δn = n_F - n_C` before/after (signed like the indices), Lagrange
invariant. -/
structure Loc (α : Type) where
  n : α
  n' : α
  c : α
  y : α
  u : α
  u' : α
  yb : α
  ub : α
  ub' : α
  dn : α
  dn' : α
  H : α

variable (L : Loc α)
/-- refraction invariant of the marginal ray `A = n i = n (u + y c)` -/
def A : α := L.n * (L.u + L.y * L.c)
/-- refraction invariant of the chief ray `Ā = n ī` -/
def Ab : α := L.n * (L.ub + L.yb * L.c)
/-- `Δ(u/n)` -/
def dUN : α := L.u' / L.n' - L.u / L.n
/-- `Δ(1/n)` -/
def dInvN : α := 1 / L.n' - 1 / L.n
/-- `Δ(δn/n)` -/
def dDisp : α := L.dn' / L.n' - L.dn / L.n
def SI : α := Num.neg (A L * A L * L.y * dUN L)
def SII : α := Num.neg (A L * Ab L * L.y * dUN L)
def SIII : α := Num.neg (Ab L * Ab L * L.y * dUN L)
def SIV : α := Num.neg (L.H * L.H * L.c * dInvN L)
def SV : α := Ab L / A L * (SIII L + SIV L)
def CI : α := A L * L.y * dDisp L
def CII : α := Ab L * L.y * dDisp L

end Classical

/-- the local data of surface `k` read from the precalculated arrays -/
def Pre.loc (P : Pre α) (k : Nat) : Classical.Loc α :=
  { n := nth P.n (k - 1), n' := nth P.n k, c := nth P.C k, y := nth P.ya k, u := nth P.ua (k - 1),
    u' := nth P.ua k, yb := nth P.yb k, ub := nth P.ub (k - 1), ub' := nth P.ub k,
    dn := nth P.dn (k - 1), dn' := nth P.dn k, H := P.inv }

/-- classical contributions of every surface `1 … N-2`, seven numbers per surface -/
def Pre.classical (P : Pre α) : List (List α) :=
  (List.range (P.N - 2)).map fun j =>
    let L := P.loc (j + 1)
    [Classical.SI L, Classical.SII L, Classical.SIII L, Classical.SIV L, Classical.SV L,
     Classical.CI L, Classical.CII L]

end Model
