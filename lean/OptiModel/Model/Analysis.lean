import OptiModel.Model.Real
import OptiModel.Model.Parax
/-!
  Geometric analyses as pure functions of ray records (C12).

  A ray record is a `Model.Ray` (x y z L M N intensity; `opd` unused) read from one surface of the
  last trace.  Every analysis of `optiland/analysis/{spot_diagram, encircled_energy, ray_fan,
  distortion, grid_distortion, field_curvature, rms_vs_field, pupil_aberration, y_ybar}.py` and
  `RayOperand.*` is modelled as the post-processing the Python code applies to those records,
  together with the documented sample sets (which normalised field / pupil coordinates are traced).

  `np.mean`/`np.sum` are modelled as a left-to-right sum (NumPy sums pairwise; the difference is a
  few ulp and is a *soft* observable).  `np.nansum(e[mask])` is modelled as the sum of the masked
  terms with `0` in the unselected places (adding `0.0` is exact).

  Where the tree is wrong with respect to the property two variants are kept:
    * `…_code`  what the tree does,
    * `…_spec`  what the property requires
  (F12: explicit wavelength lists; F18: `tan(radians(·))` applied to object-height fields;
   F-C12-1: `GridDistortion` mirrors the predicted x-grid also for object-height fields).
  This file must not import Mathlib.
-/
namespace Model.An
open Model
open scoped Num
variable {α : Type} [Num α]

/-! ### NumPy helpers -/

/-- `nan` as `0/0` (junk value `0` over ℝ; theorems never use it) -/
def nan : α := Num.div Num.zero Num.zero

/-- float equality `a == b` (false for NaN) -/
def feq (a b : α) : Bool := Num.le a b && Num.le b a

def sumFrom (acc : α) : List α → α
  | [] => acc
  | a :: l => sumFrom (acc + a) l

/-- `np.sum` (sequential) -/
def sumL (l : List α) : α := sumFrom 0 l

/-- `np.mean` -/
def mean (l : List α) : α := sumL l / Num.ofNat l.length

/-- `np.linspace(a, b, n)`: `arange(n) * step + a`, last point set to `b` -/
def linspace (a b : α) : Nat → List α
  | 0 => []
  | 1 => [a]
  | m+2 =>
    let step := (b - a) / Num.ofNat (m+1)
    (List.range (m+2)).map fun i => if i = m+1 then b else Num.ofNat i * step + a

/-- literal `1e-10` -/
def eps10 : α := Num.ofRat 1 10000000000
/-- literal `1e-05` (parabasal pupil offset of `FieldCurvature`) -/
def delta5 : α := Num.ofRat 1 100000
def hundred : α := Num.ofRat 100 1

/-! ### SpotDiagram -/

/-- `[x, y, intensity]` of one field / wavelength -/
structure Spot (α : Type) where
  x : List α
  y : List α
  i : List α

instance : Inhabited (Spot α) := ⟨⟨[], [], []⟩⟩

/-- `data[field][wavelength]` -/
abbrev SpotData (α : Type) := List (List (Spot α))

/-- `SpotDiagram._generate_field_data`: the image-surface record of one trace -/
def spotOfRays (rs : List (Ray α)) : Spot α := ⟨rs.map (·.x), rs.map (·.y), rs.map (·.i)⟩

def centroidOf (s : Spot α) : α × α := (mean s.x, mean s.y)

/-- `SpotDiagram.centroid`: indexes every field's wavelength list with the *lens's* primary index;
`none` = `IndexError` -/
def centroid_code (data : SpotData α) (pidx : Nat) : Option (List (α × α)) :=
  if data.all (fun fd => decide (pidx < fd.length)) then
    some (data.map fun fd => centroidOf (fd.getD pidx default))
  else none

/-- position of the reference (primary) wavelength in the list the analysis was given -/
def refIndex (wls : List α) (primary : α) : Option Nat := wls.findIdx? (fun w => feq w primary)

/-- what the property requires: the centroid of the primary-wavelength spot; the primary wavelength
is looked up in the *given* list, and if it is not in the list the separately traced
primary-wavelength spots `ref` (one per field) are used -/
def centroid_spec (data : SpotData α) (wls : List α) (primary : α) (ref : List (Spot α)) : List (α × α) :=
  match refIndex wls primary with
  | some j => data.map fun fd => centroidOf (fd.getD j default)
  | none => ref.map centroidOf

/-- subtract a centre from one spot -/
def center (s : Spot α) (c : α × α) : Spot α := ⟨s.x.map (· - c.1), s.y.map (· - c.2), s.i⟩

/-- `SpotDiagram._center_spots` -/
def centerSpots (data : SpotData α) (cs : List (α × α)) : SpotData α :=
  List.zipWith (fun fd c => fd.map (center · c)) data cs

def r2Of (s : Spot α) : List α := List.zipWith (fun x y => x * x + y * y) s.x s.y
def radiiOf (s : Spot α) : List α := (r2Of s).map Num.sqrt
/-- `np.sqrt(np.mean(x**2 + y**2))` -/
def rmsOf (s : Spot α) : α := Num.sqrt (mean (r2Of s))
/-- `np.max(np.sqrt(x**2 + y**2))` -/
def geoOf (s : Spot α) : α := npMax (radiiOf s)

/-- `SpotDiagram.rms_spot_radius` for given centroids -/
def rmsSpotRadius (data : SpotData α) (cs : List (α × α)) : List (List α) :=
  (centerSpots data cs).map (·.map rmsOf)
/-- `SpotDiagram.geometric_spot_radius` for given centroids -/
def geometricSpotRadius (data : SpotData α) (cs : List (α × α)) : List (List α) :=
  (centerSpots data cs).map (·.map geoOf)

structure SpotOut (α : Type) where
  centroid : List (α × α)
  rms : List (List α)
  geo : List (List α)

def spotOut (data : SpotData α) (cs : List (α × α)) : SpotOut α :=
  ⟨cs, rmsSpotRadius data cs, geometricSpotRadius data cs⟩

def spotDiagram_code (data : SpotData α) (pidx : Nat) : Option (SpotOut α) :=
  (centroid_code data pidx).map (spotOut data)

def spotDiagram_spec (data : SpotData α) (wls : List α) (primary : α) (ref : List (Spot α)) : SpotOut α :=
  spotOut data (centroid_spec data wls primary ref)

/-- `RmsSpotSizeVsField`: the documented fields `(0, Hy)`, `Hy = linspace(0, 1, num_fields)` -/
def rmsVsFieldHy (numFields : Nat) : List α := linspace 0 1 numFields

/-! ### EncircledEnergy -/

/-- `np.nansum(energy[radii <= r])` -/
def eeAt (radii energy : List α) (r : α) : α :=
  sumL (List.zipWith (fun ρ e => if Num.le ρ r && !(isNaN e) then e else 0) radii energy)

/-- `EncircledEnergy.centroid` + `_center_spots`: one wavelength, index 0 -/
def eeCenter (data : SpotData α) : SpotData α :=
  centerSpots data (data.map fun fd => centroidOf (fd.getD 0 default))

/-- `buffer = 1.2` -/
def eeBuffer : α := Num.ofRat 12 10

/-- `r_max = np.max(geometric_spot_radius()) * 1.2` -/
def eeRmax (data : SpotData α) : α :=
  npMax ((eeCenter data).map (·.map geoOf)).flatten * eeBuffer

/-- the plotted curves, in plotting order (field, then spot): `(r_step, ee)` -/
def encircledEnergy (data : SpotData α) (numPoints : Nat) : List (List α × List α) :=
  let rs := linspace 0 (eeRmax data) numPoints
  ((eeCenter data).map fun fd => fd.map fun s => (rs, rs.map (eeAt (radiiOf s) s.i))).flatten

/-! ### RayFan -/

/-- `num_points` forced odd -/
def oddPoints (n : Nat) : Nat := if n % 2 = 0 then n + 1 else n

/-- `data['Px'] = data['Py'] = linspace(-1, 1, num_points)` (also the `line_x`/`line_y` samples) -/
def fanPupil (n : Nat) : List α := linspace (Num.neg 1) 1 (oddPoints n)

/-- one field / wavelength: x of the `line_x` trace, y of the `line_y` trace, with intensities -/
structure Fan (α : Type) where
  x : List α
  ix : List α
  y : List α
  iy : List α

instance : Inhabited (Fan α) := ⟨⟨[], [], [], []⟩⟩

def fanOfRays (rx ry : List (Ray α)) : Fan α := ⟨rx.map (·.x), rx.map (·.i), ry.map (·.y), ry.map (·.i)⟩

def Fan.shift (f : Fan α) (o : α × α) : Fan α := ⟨f.x.map (· - o.1), f.ix, f.y.map (· - o.2), f.iy⟩

/-- fans referenced to given per-field offsets -/
def fanShift (data : List (List (Fan α))) (offs : List (α × α)) : List (List (Fan α)) :=
  List.zipWith (fun fd o => fd.map (·.shift o)) data offs

/-- offsets read from the fan data itself at wavelength index `j`, centre point `n / 2` -/
def fanOffsets (data : List (List (Fan α))) (j n : Nat) : List (α × α) :=
  data.map fun fd => let f := fd.getD j default; (f.x.getD (n / 2) 0, f.y.getD (n / 2) 0)

/-- `RayFan._generate_data`: the reference is found with the lens's primary wavelength *value* as
dictionary key; `none` = `KeyError` when that value is not in the given list -/
def rayFan_code (wls : List α) (primary : α) (data : List (List (Fan α))) (n : Nat) :
    Option (List (List (Fan α))) :=
  (refIndex wls primary).map fun j => fanShift data (fanOffsets data j n)

/-- what the property requires: fans referenced to the primary-wavelength chief ray; when the
primary wavelength is not in the given list the separately traced chief-ray image points `ref`
(one per field) are used -/
def rayFan_spec (wls : List α) (primary : α) (data : List (List (Fan α))) (n : Nat)
    (ref : List (α × α)) : List (List (Fan α)) :=
  match refIndex wls primary with
  | some j => fanShift data (fanOffsets data j n)
  | none => fanShift data ref

/-! ### Distortion -/

inductive DistType where
  | ftan
  | ftheta
deriving DecidableEq, Repr

/-- documented samples: `Hx = 0`, `Hy = linspace(1e-10, 1, num_points)`, `Px = Py = 0` -/
def distortionHy (n : Nat) : List α := linspace eps10 1 n

/-- `Distortion._generate_data` for one wavelength: `yr` are the image heights of the chief rays at
`hy`, `maxField` is `optic.fields.max_field` (degrees or millimetres!) -/
def distortion_code (t : DistType) (maxField : α) (hy yr : List α) : List α :=
  let th := deg2rad maxField
  let const := yr.headD 0 / Num.tan (eps10 * th)
  List.zipWith (fun h y =>
    let yp := match t with
      | .ftan => const * Num.tan (h * th)
      | .ftheta => const * h * th
    hundred * (y - yp) / yp) hy yr

/-- reference for object-height fields: the paraxial image height is linear in the object height -/
def distortion_height (hy yr : List α) : List α :=
  let const := yr.headD 0 / eps10
  List.zipWith (fun h y => let yp := const * h; hundred * (y - yp) / yp) hy yr

/-- what the property requires: the code's formula for angular fields, the linear reference for
object-height fields (F18) -/
def distortion_spec (angle : Bool) (t : DistType) (maxField : α) (hy yr : List α) : List α :=
  if angle then distortion_code t maxField hy yr else distortion_height hy yr

/-! ### GridDistortion -/

/-- `extent = linspace(-sqrt(2)/2, sqrt(2)/2, num_points)` -/
def gridExtent (n : Nat) : List α :=
  let m := Num.sqrt 2 / 2
  linspace (Num.neg m) m n

/-- `np.meshgrid(extent, extent)` flattened row-major: `(Hx, Hy)[i*n + j] = (ext[j], ext[i])` -/
def gridH (ext : List α) : List (α × α) := ext.flatMap fun hy => ext.map fun hx => (hx, hy)

structure GridOut (α : Type) where
  xr : List α
  yr : List α
  xp : List α
  yp : List α
  maxDistortion : α

/-- predicted grid for a per-coordinate reference function `f`; `flipX` mirrors the x-grid
(`np.flip` of the symmetric-by-rows array `xp`: `xp[i][j] ↦ xp[n-1-i][n-1-j]`) -/
def gridPredicted (f : α → α) (ext : List α) (flipX : Bool) : List α × List α :=
  let xp := (gridH ext).map fun h => f h.1
  let yp := (gridH ext).map fun h => f h.2
  (if flipX then xp.reverse else xp, yp)

def gridOut (rays : List (Ray α)) (p : List α × List α) : GridOut α :=
  let xr := rays.map (·.x)
  let yr := rays.map (·.y)
  let dx := List.zipWith (fun a b => a - b) p.1 xr
  let dy := List.zipWith (fun a b => a - b) p.2 yr
  let delta := List.zipWith (fun a b => Num.sqrt (a * a + b * b)) dx dy
  let rp := List.zipWith (fun a b => Num.sqrt (a * a + b * b)) p.1 p.2
  ⟨xr, yr, p.1, p.2, npMax (List.zipWith (fun d r => hundred * d / r) delta rp)⟩

/-- `GridDistortion._generate_data`: `y0` = image height of the chief ray at `Hy = 1e-10`,
`rays` = image records of the chief rays at `gridH ext` -/
def gridDistortion_code (t : DistType) (maxField y0 : α) (ext : List α) (rays : List (Ray α)) : GridOut α :=
  let th := deg2rad maxField
  let f : α → α := match t with
    | .ftan => let const := y0 / Num.tan (eps10 * th); fun h => const * Num.tan (h * th)
    | .ftheta => let const := y0 / (eps10 * th); fun h => const * h * th
  gridOut rays (gridPredicted f ext true)

/-- what the property requires: angular fields as the code (the ray generator's x-field axis is
mirrored for angular fields, hence the flip); object-height fields: linear reference, no flip -/
def gridDistortion_spec (angle : Bool) (t : DistType) (maxField y0 : α) (ext : List α)
    (rays : List (Ray α)) : GridOut α :=
  if angle then gridDistortion_code t maxField y0 ext rays
  else
    let const := y0 / eps10
    gridOut rays (gridPredicted (fun h => const * h) ext false)

/-! ### FieldCurvature -/

/-- `Hy = np.repeat(linspace(0, 1, n), 2)` -/
def fcHy (n : Nat) : List α := (linspace 0 1 n).flatMap fun h => [h, h]
/-- `np.tile([-delta, delta], n)` -/
def fcPupil (n : Nat) : List α := (List.range n).flatMap fun _ => [Num.neg delta5, delta5]

/-- parameter `t1` along ray 1 at which it meets ray 2 in the (y,z) projection -/
def parabasalT (y1 z1 M1 N1 y2 z2 M2 N2 : α) : α :=
  (M2 * z1 - M2 * z2 - N2 * y1 + N2 * y2) / (M1 * N2 - M2 * N1)

/-- consecutive pairs `(rs[0], rs[1]), (rs[2], rs[3]), …` (`[::2]`, `[1::2]`) -/
def pairsOf {β : Type} : List β → List (β × β)
  | a :: b :: l => (a, b) :: pairsOf l
  | _ => []

/-- `_intersection_parabasal_tangential`: `t1 * N1` -/
def fcTangential (rs : List (Ray α)) : List α :=
  (pairsOf rs).map fun p => parabasalT p.1.y p.1.z p.1.M p.1.N p.2.y p.2.z p.2.M p.2.N * p.1.N

/-- `_intersection_parabasal_sagittal`: `t2 * N1` -/
def fcSagittal (rs : List (Ray α)) : List α :=
  (pairsOf rs).map fun p => parabasalT p.1.x p.1.z p.1.L p.1.N p.2.x p.2.z p.2.L p.2.N * p.1.N

/-! ### PupilAberration -/

/-- `(parax_ref - real) / d * 100`, `nan` where the intensity is 0 -/
def pupilAb (paraxRef : List α) (d : α) (real int : List α) : List α :=
  List.zipWith (fun (pr : α × α) (i : α) =>
      if Num.isZero i then nan else (pr.1 - pr.2) / d * hundred)
    (paraxRef.zip real) int

/-- `x`-curve from the `line_x` trace and `y`-curve from the `line_y` trace, both read at the stop -/
def pupilAberration (paraxRef : List α) (d : α) (rx ry : List (Ray α)) : List α × List α :=
  (pupilAb paraxRef d (rx.map (·.x)) (rx.map (·.i)), pupilAb paraxRef d (ry.map (·.y)) (ry.map (·.i)))

/-! ### YYbar -/

/-- plotted segments `([yb[k-1], yb[k]], [ya[k-1], ya[k]])` for `k = 2 … len-1` -/
def yybarSegments (ya yb : List α) : List (α × α × α × α) :=
  (List.range (ya.length - 2)).map fun i =>
    let k := i + 2
    (yb.getD (k-1) 0, yb.getD k 0, ya.getD (k-1) 0, ya.getD k 0)

/-! ### RayOperand -/

/-- Python index (negative from the end) -/
def pyIdx (len : Nat) (k : Int) : Option Nat :=
  if 0 ≤ k then (if k.toNat < len then some k.toNat else none)
  else (if (-k).toNat ≤ len then some (len - (-k).toNat) else none)

inductive RayField where
  | x | y | z | L | M | N
deriving DecidableEq, Repr

def rayGet (r : Ray α) : RayField → α
  | .x => r.x | .y => r.y | .z => r.z | .L => r.L | .M => r.M | .N => r.N

/-- `RayOperand.{x,y,z}_intercept / L / M / N`: record `[surface_number, 0]` of the trace -/
def rayOperand (recs : List (List (Ray α))) (surf : Int) (f : RayField) : Option α :=
  (pyIdx recs.length surf).bind fun j => (recs.getD j []).head?.map (rayGet · f)

/-- `RayOperand.rms_spot_size`, one wavelength: about the spot's own centroid -/
def opRmsSingle (rs : List (Ray α)) : α :=
  let x := rs.map (·.x)
  let y := rs.map (·.y)
  let mx := mean x
  let my := mean y
  Num.sqrt (mean (List.zipWith (fun a b => (a - mx) * (a - mx) + (b - my) * (b - my)) x y))

/-- `RayOperand.rms_spot_size`, `wavelength='all'`: about the centroid of the primary wavelength,
over the rays of all wavelengths -/
def opRmsAll (rss : List (List (Ray α))) (pidx : Nat) : α :=
  let ref := rss.getD pidx []
  let mx := mean (ref.map (·.x))
  let my := mean (ref.map (·.y))
  Num.sqrt (mean (rss.flatMap fun rs =>
    rs.map fun r => (r.x - mx) * (r.x - mx) + (r.y - my) * (r.y - my)))

/-! ### analyses as functions of the lens: records of `traceLens` at the documented samples -/

/-- image-surface records of one trace -/
def imageRecords (w : α) (surfs : List (RSurf α)) (launch : List (Ray α)) : List (Ray α) :=
  (traceLens w surfs launch).getLastD []

/-- `SpotDiagram._generate_data`: one trace per field and wavelength; `launch f w` are the rays
generated for field `f`, wavelength `w` at the documented pupil samples -/
def spotDataOfLens (surfsAt : α → List (RSurf α)) (launch : (α × α) → α → List (Ray α))
    (fields : List (α × α)) (wls : List α) : SpotData α :=
  fields.map fun f => wls.map fun w => spotOfRays (imageRecords w (surfsAt w) (launch f w))

end Model.An
