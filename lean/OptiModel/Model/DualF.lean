import OptiModel.Num
/-! First-order jets `v + d·ε` over `Float`: forward-mode differentiation of any model function.
Comparisons look at the value part (so the branch taken is the branch of the base point). -/
structure DualF where
  v : Float
  d : Float
deriving Inhabited

instance : Num DualF where
  add a b := ⟨a.v + b.v, a.d + b.d⟩
  sub a b := ⟨a.v - b.v, a.d - b.d⟩
  mul a b := ⟨a.v * b.v, a.v * b.d + a.d * b.v⟩
  div a b := ⟨a.v / b.v, (a.d * b.v - a.v * b.d) / (b.v * b.v)⟩
  neg a := ⟨-a.v, -a.d⟩
  zero := ⟨0, 0⟩
  one := ⟨1, 0⟩
  two := ⟨2, 0⟩
  ofRat p q := ⟨Float.ofNat p / Float.ofNat q, 0⟩
  inf := ⟨1.0 / 0.0, 0⟩
  sqrt a := ⟨Float.sqrt a.v, a.d / (2 * Float.sqrt a.v)⟩
  abs a := ⟨Float.abs a.v, if 0 ≤ a.v then a.d else -a.d⟩
  lt a b := a.v < b.v
  le a b := a.v ≤ b.v
  sin a := ⟨Float.sin a.v, Float.cos a.v * a.d⟩
  cos a := ⟨Float.cos a.v, -(Float.sin a.v) * a.d⟩
  tan a := ⟨Float.tan a.v, a.d / (Float.cos a.v * Float.cos a.v)⟩
  asin a := ⟨Float.asin a.v, a.d / Float.sqrt (1 - a.v * a.v)⟩
  acos a := ⟨Float.acos a.v, -a.d / Float.sqrt (1 - a.v * a.v)⟩
  exp a := ⟨Float.exp a.v, Float.exp a.v * a.d⟩
  atan2 y x := ⟨Float.atan2 y.v x.v, (x.v * y.d - y.v * x.d) / (x.v * x.v + y.v * y.v)⟩
  pi := ⟨3.141592653589793, 0⟩
