import OptiModel.Model.Presc
import OptiModel.Model.Real
/-!
  Side-effect model of the public tracing / query / analysis calls (property C13).

  State `St = (lens, records, heap)`:
  * `lens`    – everything a non-editing call may *read*: what `Paraxial` reads (`toPSys` of the
                C01 prescription), the field points with their vignetting factors, and what the
                real tracer reads at each wavelength;
  * `records` – the per-surface last-trace component (`Surface.x/y/z/L/M/N/intensity/opd/u`),
                one slot per surface: empty, a real-ray record or a paraxial record
                (`Surface.reset`, `Surface._record`);
  * `heap`    – a minimal heap of caller-owned NumPy arrays (`Hx, Hy, Px, Py`).

  Every public call is an op `St → Args → St × Result`:
  `Optic.trace`, `Optic.trace_generic` (`Px *= (1 - vx)` happens *in place* exactly when `Px`
  is an array and is a rebinding when it is a Python scalar – variant `code = true`; the variant
  `code = false` is what the property requires: caller arrays are never written),
  every `Paraxial` query (forward traces run on the lens' own surfaces and overwrite the
  records, reverse traces run on the deep copy made by `SurfaceGroup.inverted`), `Paraxial.trace`,
  and analyses as a fixed list of such calls followed by pure post-processing.

  Not modelled here (taken as pure functions of lens and arguments, `Env`): the interpolation
  inside `FieldGroup.get_vig_factor` and the launch geometry of `RayGenerator.generate_rays`
  (subject of C03).  No Mathlib import (linked into the driver).
-/
namespace Model.Fx
open scoped Num
variable {α : Type} [Num α]

/-! ### the lens as seen by non-editing calls -/

structure FieldPt (α : Type) where
  x : α
  y : α
  vx : α
  vy : α

structure Lens (α : Type) where
  /-- what `Paraxial` reads at the primary wavelength -/
  parax : PSys α
  /-- `optic.fields.fields` -/
  fields : List (FieldPt α)
  /-- what the real tracer reads at wavelength `w` -/
  real : α → List (RSurf α)

/-- the lens of a C01 prescription state -/
def Lens.ofPresc (P : Presc α) (fields : List (FieldPt α)) (real : α → List (RSurf α)) : Lens α :=
  ⟨toPSys P, fields, real⟩

/-! ### records -/

/-- last-trace record of one surface -/
inductive Rec (α : Type) where
  /-- after `reset`: every array has size 0 -/
  | empty
  /-- after `_record(RealRays)`: `x y z L M N intensity opd` (and `y`) filled, `u` empty -/
  | real (rs : List (Ray α))
  /-- after `_record(ParaxialRays)`: `y u` filled -/
  | parax (rs : List (PRay α))

abbrev Recs (α : Type) := List (Rec α)

/-- `SurfaceGroup.reset` -/
def resetRecs (recs : Recs α) : Recs α := recs.map fun _ => Rec.empty

/-- `SurfaceGroup.trace(rays, skip)` on the records: `reset()` first, then every surface from
`skip` on overwrites its own slot (`new` has one entry per traced surface) -/
def groupWrite (recs : Recs α) (skip : Nat) (new : Recs α) : Recs α :=
  (resetRecs recs).take skip ++ new

/-- row of `SurfaceGroup.y` contributed by a surface (`if surf.y.size > 0`) -/
def Rec.yRow : Rec α → Option (List α)
  | .empty => none
  | .real rs => if rs.isEmpty then none else some (rs.map (·.y))
  | .parax rs => if rs.isEmpty then none else some (rs.map (·.y))

/-- row of `SurfaceGroup.u` contributed by a surface -/
def Rec.uRow : Rec α → Option (List α)
  | .parax rs => if rs.isEmpty then none else some (rs.map (·.u))
  | _ => none

/-- `SurfaceGroup.y` -/
def groupY (recs : Recs α) : List (List α) := recs.filterMap Rec.yRow
/-- `SurfaceGroup.u` -/
def groupU (recs : Recs α) : List (List α) := recs.filterMap Rec.uRow
/-- `rows[k][0]` for every row -/
def rowsHead (rows : List (List α)) : List α := rows.map fun r => r.headD 0

/-- shape of a record slot: (kind, number of rays); kind 0 empty, 1 real, 2 paraxial -/
def Rec.shape : Rec α → Nat × Nat
  | .empty => (0, 0)
  | .real rs => (1, rs.length)
  | .parax rs => (2, rs.length)

/-! ### paraxial calls with their effect on the records -/

/-- `SurfaceGroup.trace` for a batch of paraxial rays -/
def ptraceB : List (PRay α) → List (PSurf α) → List (List (PRay α))
  | _, [] => []
  | rs, s :: ss => let rs' := rs.map fun r => pstep r s; rs' :: ptraceB rs' ss

/-- computation that may read and overwrite the records -/
abbrev RM (α β : Type) := Recs α → β × Recs α

/-- `Paraxial._trace_generic(y, u, z, wavelength, reverse, skip)`.
Forward: `self.surfaces.trace(rays, skip)` runs on the lens' own surfaces; the return value is
read back from the records (`surfaces.y, surfaces.u`).  Reverse: the same on the deep copy
`self.surfaces.inverted()`, which carries copies of the current records in reversed order; the
copy is discarded afterwards, the lens' own records stay as they were. -/
def tgM (S : PSys α) (y u z : α) (reverse : Bool) (skip : Nat) : RM α (List α × List α) := fun recs =>
  if reverse then
    let after := groupWrite recs.reverse skip
      ((ptraceB [⟨y, u, z⟩] ((inverted S.surfs).drop skip)).map Rec.parax)
    ((rowsHead (groupY after), rowsHead (groupU after)), recs)
  else
    let after := groupWrite recs skip ((ptraceB [⟨y, u, z⟩] (S.surfs.drop skip)).map Rec.parax)
    ((rowsHead (groupY after), rowsHead (groupU after)), after)

def f2M (S : PSys α) : RM α α := fun recs =>
  let r := tgM S 1 0 (posOf S.surfs 1 - 1) false 0 recs
  (Num.neg (first r.1.1) / last r.1.2, r.2)

def F2M (S : PSys α) : RM α α := fun recs =>
  let r := tgM S 1 0 (posOf S.surfs 1 - 1) false 0 recs
  (Num.neg (last r.1.1) / last r.1.2, r.2)

def f1M (S : PSys α) : RM α α := fun recs =>
  let r := tgM S 1 0 (posOf (inverted S.surfs) 0 - 1) true 0 recs
  (first r.1.1 / last r.1.2, r.2)

def F1M (S : PSys α) : RM α α := fun recs =>
  let r := tgM S 1 0 (posOf (inverted S.surfs) 0 - 1) true 0 recs
  (last r.1.1 / last r.1.2, r.2)

def P1M (S : PSys α) : RM α α := fun recs =>
  let a := F1M S recs
  let b := f1M S a.2
  (a.1 - b.1, b.2)

def P2M (S : PSys α) : RM α α := fun recs =>
  let a := F2M S recs
  let b := f2M S a.2
  (a.1 - b.1, b.2)

def N1M (S : PSys α) : RM α α := fun recs =>
  let a := P1M S recs
  let b := f1M S a.2
  let c := f2M S b.2
  (a.1 + b.1 + c.1, c.2)

def N2M (S : PSys α) : RM α α := fun recs =>
  let a := P2M S recs
  let b := f1M S a.2
  let c := f2M S b.2
  (a.1 + b.1 + c.1, c.2)

def EPLM (S : PSys α) : RM α α := fun recs =>
  match stopIndex S.surfs with
  | some 0 => (posOf S.surfs 1, recs)
  | _ =>
    let inv := inverted S.surfs
    let si := (stopIndex inv).getD 0
    let r := tgM S 0 tenth (posOf inv si) true (si + 1) recs
    (last r.1.1 / last r.1.2, r.2)

def EPDM (S : PSys α) : RM α α := fun recs =>
  match S.apType with
  | .EPD => (S.apValue, recs)
  | .imageFNO => let a := f2M S recs; (Num.abs a.1 / S.apValue, a.2)
  | .objectNA =>
    let objZ := posOf S.surfs 0
    let n0 := (S.surfs.map (·.n2)).headD 0
    let u0 := Num.asin (S.apValue / n0)
    let e := EPLM S recs
    (2 * (e.1 - objZ) * Num.tan u0, e.2)

def XPLM (S : PSys α) : RM α α := fun recs =>
  let si := (stopIndex S.surfs).getD 0
  let n := S.surfs.length
  if si + 2 = n then (posOf S.surfs (n - 2) - posOf S.surfs (n - 1), recs)
  else
    let r := tgM S 0 tenth (posOf S.surfs si) false (si + 1) recs
    (Num.neg (last r.1.1) / last r.1.2, r.2)

def marginalRayM (S : PSys α) : RM α (List α × List α) := fun recs =>
  let d := EPDM S recs
  if S.objInf then
    tgM S (d.1 / 2) 0 (posOf S.surfs 1 - Num.ofRat 10 1) false 0 d.2
  else
    let objZ := posOf S.surfs 0
    let e := EPLM S d.2
    tgM S 0 (d.1 / (2 * (e.1 - objZ))) objZ false 0 e.2

def XPDM (S : PSys α) : RM α α := fun recs =>
  let m := marginalRayM S recs
  let x := XPLM S m.2
  (2 * (last m.1.1 + last m.1.2 * x.1), x.2)

def FNOM (S : PSys α) : RM α α := fun recs =>
  match S.apType with
  | .imageFNO => (S.apValue, recs)
  | _ =>
    let a := f2M S recs
    let d := EPDM S a.2
    (Num.abs a.1 / d.1, d.2)

def magnificationM (S : PSys α) : RM α α := fun recs =>
  let m := marginalRayM S recs
  let n := nList S
  (first n * first m.1.2 / (mirrorSign S.surfs * last n * last m.1.2), m.2)

def chiefRayM (S : PSys α) : RM α (List α × List α) := fun recs =>
  let inv := inverted S.surfs
  let si := (stopIndex inv).getD 0
  let z0 := posOf inv si
  let r := tgM S 0 tenth z0 true (si + 1) recs
  let u1 := match S.fieldType with
    | .objectHeight =>
      let t := posOf S.surfs 1 - posOf S.surfs 0
      tenth * S.maxYField / (last r.1.1 + last r.1.2 * t)
    | .angle => tenth * Num.tan (deg2rad S.maxYField) / last r.1.2
  let rn := tgM S 0 u1 z0 true (si + 1) r.2
  tgM S (- last rn.1.1) (last rn.1.2) (posOf S.surfs 1) false 0 rn.2

def invariantM (S : PSys α) : RM α α := fun recs =>
  let a := marginalRayM S recs
  let b := chiefRayM S a.2
  let n := nList S
  (nth b.1.1 1 * nth n 1 * nth a.1.2 1 - nth a.1.1 1 * nth n 1 * nth b.1.2 1, b.2)

inductive Query where
  | f1 | f2 | F1 | F2 | P1 | P2 | N1 | N2 | EPL | EPD | XPL | XPD | FNO | magnification | invariant
  | marginalRay | chiefRay
deriving DecidableEq, Repr, Inhabited

/-- a `Paraxial` query with its effect on the records; rays are returned as `y ++ u` -/
def queryM (S : PSys α) : Query → RM α (List α)
  | .f1 => fun r => let t := f1M S r; ([t.1], t.2)
  | .f2 => fun r => let t := f2M S r; ([t.1], t.2)
  | .F1 => fun r => let t := F1M S r; ([t.1], t.2)
  | .F2 => fun r => let t := F2M S r; ([t.1], t.2)
  | .P1 => fun r => let t := P1M S r; ([t.1], t.2)
  | .P2 => fun r => let t := P2M S r; ([t.1], t.2)
  | .N1 => fun r => let t := N1M S r; ([t.1], t.2)
  | .N2 => fun r => let t := N2M S r; ([t.1], t.2)
  | .EPL => fun r => let t := EPLM S r; ([t.1], t.2)
  | .EPD => fun r => let t := EPDM S r; ([t.1], t.2)
  | .XPL => fun r => let t := XPLM S r; ([t.1], t.2)
  | .XPD => fun r => let t := XPDM S r; ([t.1], t.2)
  | .FNO => fun r => let t := FNOM S r; ([t.1], t.2)
  | .magnification => fun r => let t := magnificationM S r; ([t.1], t.2)
  | .invariant => fun r => let t := invariantM S r; ([t.1], t.2)
  | .marginalRay => fun r => let t := marginalRayM S r; (t.1.1 ++ t.1.2, t.2)
  | .chiefRay => fun r => let t := chiefRayM S r; (t.1.1 ++ t.1.2, t.2)

/-- the same queries as pure functions of the prescription (`Model/Parax.lean`, C04) -/
def queryPure (S : PSys α) : Query → List α
  | .f1 => [f1 S] | .f2 => [f2 S] | .F1 => [F1 S] | .F2 => [F2 S]
  | .P1 => [P1 S] | .P2 => [P2 S] | .N1 => [N1 S] | .N2 => [N2 S]
  | .EPL => [EPL S] | .EPD => [EPD S] | .XPL => [XPL S] | .XPD => [XPD S] | .FNO => [FNO S]
  | .magnification => [magnification S] | .invariant => [invariant S]
  | .marginalRay => ys (marginalRay S) ++ us (marginalRay S)
  | .chiefRay => ys (chiefRay S) ++ us (chiefRay S)

/-- `FieldGroup.max_field` -/
def maxField (fs : List (FieldPt α)) : α := npMax (fs.map fun f => Num.sqrt (f.x * f.x + f.y * f.y))

/-- result of a call -/
structure Val (α : Type) where
  /-- the call raised -/
  err : Bool := false
  nums : List α := []
  rays : List (Ray α) := []

/-- `Paraxial.trace(Hy, Py, wavelength)` at the primary wavelength (returns nothing; the result
is the records) -/
def paraxTraceM (L : Lens α) (Hy : α) (Py : List α) : RM α (Val α) := fun recs =>
  let S := L.parax
  let e := EPLM S recs
  let d := EPDM S e.2
  let fieldY := maxField L.fields * Hy
  if S.objInf && S.fieldType == FieldType.objectHeight then
    ({ err := true }, d.2)            -- ValueError raised by `_get_object_position`
  else
    let rays : List (PRay α) := Py.map fun p =>
      let y1 := p * d.1 / 2
      let yz : α × α :=
        if S.objInf then (y1 + Num.neg (Num.tan (deg2rad fieldY)) * e.1, posOf S.surfs 1)
        else match S.fieldType with
          | .objectHeight => (Num.neg fieldY, posOf S.surfs 0)
          | .angle => (y1 + Num.neg (Num.tan (deg2rad fieldY)), posOf S.surfs 0)
      ⟨yz.1, (y1 - yz.1) / (e.1 - yz.2), yz.2⟩
    ({}, groupWrite d.2 0 ((ptraceB rays S.surfs).map Rec.parax))

/-! ### real traces -/

/-- a coordinate argument of a call: a Python scalar, a reference to a caller-owned array on the
heap, or an array allocated by the callee itself -/
inductive Arg (α : Type) where
  | scalar (v : α)
  | arr (addr : Nat)
  | fresh (vs : List α)

abbrev Heap (α : Type) := List (List α)

def Arg.read (h : Heap α) : Arg α → List α
  | .scalar v => [v]
  | .arr a => h.getD a []
  | .fresh vs => vs

/-- NumPy broadcasting of `xs * (1 - vs)` for the shapes that occur -/
def mulB (xs vs : List α) : List α :=
  match vs with
  | [v] => xs.map fun x => x * (1 - v)
  | _ => match xs with
    | [x] => vs.map fun v => x * (1 - v)
    | _ => List.zipWith (fun x v => x * (1 - v)) xs vs

/-- `Px *= (1 - vx)`.  `code = true`: as the tree does it – an ndarray is multiplied in place (the
caller's array changes), a Python scalar is rebound to a new object.  `code = false`: what the
property requires – the product is a new array in every case. -/
def scaleArg (code : Bool) (h : Heap α) (vs : List α) : Arg α → Heap α × Arg α
  | .arr addr =>
    if code then (h.set addr (mulB (h.getD addr []) vs), .arr addr)
    else (h, .fresh (mulB (h.getD addr []) vs))
  | .scalar v => (h, .fresh (mulB [v] vs))
  | .fresh xs => (h, .fresh (mulB xs vs))

/-- `np.full(max_size, value)` for scalars -/
def bcast (n : Nat) (xs : List α) : List α :=
  match xs with
  | [x] => List.replicate n x
  | _ => xs

structure GenArgs (α : Type) where
  hx : List α
  hy : List α
  px : List α
  py : List α
  w : α
  epl : α
  epd : α

/-- the two pure functions this model does not open -/
structure Env (α : Type) where
  /-- `FieldGroup.get_vig_factor(Hx, Hy)` -/
  vig : List (FieldPt α) → List α → List α → List α × List α
  /-- launch geometry of `RayGenerator.generate_rays` -/
  gen : Lens α → GenArgs α → List (Ray α)

/-- `RayGenerator.generate_rays`: asks `paraxial.EPL()` and `paraxial.EPD()` (which may overwrite
the records) and builds the launch rays -/
def genM (env : Env α) (L : Lens α) (hx hy px py : List α) (w : α) : RM α (List (Ray α)) := fun recs =>
  let e := EPLM L.parax recs
  let d := EPDM L.parax e.2
  (env.gen L ⟨hx, hy, px, py, w, e.1, d.1⟩, d.2)

/-- `SurfaceGroup.trace(rays)` for real rays: returns the rays as they leave the last surface -/
def groupTraceR (L : Lens α) (w : α) (rays : List (Ray α)) : RM α (List (Ray α)) := fun recs =>
  let new := traceLens w (L.real w) rays
  (new.getLastD rays, groupWrite recs 0 (new.map Rec.real))

/-- `Optic.trace(Hx, Hy, wavelength, num_rays, distribution)`; `pts` are the points of the
distribution (a pure function of its name and `num_rays`; `distribution.x * (1 - vx)` is a new
array, the distribution object is not written).  The final
`self.surface_group.intensity[-1, :] = rays.i` assigns into a temporary and has no effect. -/
def opticTraceM (env : Env α) (L : Lens α) (Hx Hy w : α) (pts : List (α × α)) : RM α (Val α) := fun recs =>
  let v := env.vig L.fields [Hx] [Hy]
  let px := mulB (pts.map (·.1)) v.1
  let py := mulB (pts.map (·.2)) v.2
  let g := genM env L [Hx] [Hy] px py w recs
  let t := groupTraceR L w g.1 g.2
  ({ rays := t.1 }, t.2)

/-- `Optic.trace_generic(Hx, Hy, Px, Py, wavelength)` -/
def traceGenericM (env : Env α) (code : Bool) (L : Lens α) (Hx Hy Px Py : Arg α) (w : α) :
    Recs α × Heap α → Val α × (Recs α × Heap α) := fun st =>
  let h := st.2
  let v := env.vig L.fields (Hx.read h) (Hy.read h)
  let p1 := scaleArg code h v.1 Px
  let p2 := scaleArg code p1.1 v.2 Py
  let h' := p2.1
  -- the values the generator sees are read after both products (same object ⇒ both factors)
  let hx := Hx.read h'
  let hy := Hy.read h'
  let px := p1.2.read h'
  let py := p2.2.read h'
  let n := Nat.max (Nat.max hx.length hy.length) (Nat.max px.length py.length)
  let g := genM env L (bcast n hx) (bcast n hy) (bcast n px) (bcast n py) w st.1
  let t := groupTraceR L w g.1 g.2
  ({ rays := t.1 }, (t.2, h'))

/-! ### calls, analyses, ops -/

inductive Call (α : Type) where
  | trace (Hx Hy w : α) (pts : List (α × α))
  | traceGeneric (Hx Hy Px Py : Arg α) (w : α)
  | query (q : Query)
  | paraxTrace (Hy : α) (Py : List α)

/-- calls after which callers read the per-surface records (`optic.surface_group.x[-1, :]` …) -/
def Call.exposes : Call α → Bool
  | .query _ => false
  | _ => true

def stepCall (env : Env α) (code : Bool) (L : Lens α) :
    Call α → Recs α × Heap α → Val α × (Recs α × Heap α)
  | .trace Hx Hy w pts, st => let t := opticTraceM env L Hx Hy w pts st.1; (t.1, (t.2, st.2))
  | .traceGeneric Hx Hy Px Py w, st => traceGenericM env code L Hx Hy Px Py w st
  | .query q, st => let t := queryM L.parax q st.1; ({ nums := t.1 }, (t.2, st.2))
  | .paraxTrace Hy Py, st => let t := paraxTraceM L Hy Py st.1; (t.1, (t.2, st.2))

/-- what an analysis sees of one of its calls: the returned value and, for tracing calls that
did not raise, the records right after it -/
structure Snap (α : Type) where
  val : Val α
  recs : Recs α

def snapOf (c : Call α) (t : Val α × (Recs α × Heap α)) : Snap α :=
  ⟨t.1, if c.exposes && !t.1.err then t.2.1 else []⟩

def runCalls (env : Env α) (code : Bool) (L : Lens α) :
    List (Call α) → Recs α × Heap α → List (Snap α) × (Recs α × Heap α)
  | [], st => ([], st)
  | c :: cs, st =>
    let t := stepCall env code L c st
    let rest := runCalls env code L cs t.2
    (snapOf c t :: rest.1, rest.2)

/-- an analysis class (`SpotDiagram`, `Wavefront`, `FFTPSF`, `Aberrations.seidels`, …): the calls
it issues, fixed by its constructor arguments and the lens, and pure post-processing -/
structure Analysis (α : Type) where
  calls : Lens α → List (Call α)
  reduce : Lens α → List (Snap α) → Val α

inductive Op (α : Type) where
  | call (c : Call α)
  | analysis (a : Analysis α)
  /-- an operation whose purpose is to edit the lens (C01); anything may happen to the lens -/
  | edit (f : Lens α → Lens α)

def Op.isEdit : Op α → Bool
  | .edit _ => true
  | _ => false

structure St (α : Type) where
  lens : Lens α
  records : Recs α
  heap : Heap α

/-- one public call -/
def step (env : Env α) (code : Bool) (s : St α) : Op α → St α × Val α
  | .call c =>
    let t := stepCall env code s.lens c (s.records, s.heap)
    (⟨s.lens, t.2.1, t.2.2⟩, t.1)
  | .analysis a =>
    let t := runCalls env code s.lens (a.calls s.lens) (s.records, s.heap)
    (⟨s.lens, t.2.1, t.2.2⟩, a.reduce s.lens t.1)
  | .edit f => (⟨f s.lens, s.records, s.heap⟩, {})

/-- a history of calls -/
def run (env : Env α) (code : Bool) (s : St α) (ops : List (Op α)) : St α :=
  ops.foldl (fun s op => (step env code s op).1) s

/-! ### single-ray view of the real tracer (closed-form geometries) -/

def closedForm : Geom α → Bool
  | .plane => true
  | .standard _ _ => true
  | _ => false

/-- distance for one ray on a closed-form geometry -/
def distance1 (g : Geom α) (r : Ray α) : α :=
  match g with
  | .plane => planeDistance r
  | .standard R k => stdDistance R k r
  | _ => 0

/-- `Surface._trace_real` for one ray on a closed-form geometry -/
def traceRay (s : RSurf α) (w : α) (r : Ray α) : Ray α :=
  match s.kind with
  | .object => r
  | _ =>
    let r := s.cs.localize r
    let t := distance1 s.geom r
    let r := r.propagate t s.k1 w
    let r := { r with opd := r.opd + Num.abs (t * s.n1) }
    let r := clip s.aperture r
    let r := interact s r
    s.cs.globalize r

/-- one Newton–Raphson step of one ray: `(new point, |dz|)` -/
def nrStep (g : Geom α) (r : Ray α) (p : α × α × α) : (α × α × α) × α :=
  let zs := g.nrSag p.1 p.2.1
  let dz := p.2.2 - zs
  let dist := dz / r.N
  ((p.1 - dist * r.L, p.2.1 - dist * r.M, p.2.2 - dist * r.N), Num.abs dz)

/-- `k` Newton–Raphson steps of every ray of a batch -/
def nrIter (g : Geom α) (rays : List (Ray α)) : Nat → List (α × α × α) → List (α × α × α)
  | 0, pts => pts
  | k+1, pts => nrIter g rays k (nrSweep g rays pts).1

end Model.Fx
